"""C18 — format upgrade preserves content, is idempotent and resumable (nixio/cmd/upgrade.py).

Old-format files are crafted with h5py from a *spec* (the ground truth of the content), upgraded by the
real `nixio.file_upgrade`, interrupted before its k-th step by raising (or, in a child process, by
`os._exit`) when `nixio.cmd.upgrade` opens the file in mode "a" for the k-th time (monkey-patched
namespace, no repo change), and re-run.

* correspondence: every state (initial, after each invocation of every history) is read back with
  h5py by `abstract()` into the model's file schema and compared with the Lean model's prediction
  (`nixdriver C18`, op `history`), step lists included; reader side: the model's views against the
  nixio API (old-layout readers before, normal API after).
* oracle: the property itself on the implementation, from the spec and the nixio API only.
"""
import contextlib
import copy
import hashlib
import io
import json
import os
import shutil
import uuid
from fractions import Fraction

import h5py
import numpy as np

from ..lib import core
from ..lib.core import Failure, Disagreement
from ..extract import upgradeshape as _shape
from ..extract import fileconst as _fileconst

PROP = "C18"
LEAN_MODULE = "NixModel.Props.C18"
THEOREMS = [
    "Nix.C18.C18_bump_last",
    "Nix.C18.C18_version_old_while_interrupted",
    "Nix.C18.C18_interrupted_reads_same",
    "Nix.C18.C18_resumable",
    "Nix.C18.C18_resumable_total",
    "Nix.C18.C18_resumable_history",
    "Nix.C18.C18_resumable_history_total",
    "Nix.C18.C18_resumable_clean",
    "Nix.C18.C18_resumable_steps",
    "Nix.C18.C18_idempotent",
    "Nix.C18.C18_writable",
    "Nix.C18.C18_shape_open",
    "Nix.C18.C18_safe_to_repeat",
    "Nix.C18.C18_stale_list_resumes",
    "Nix.C18.C18_content_partial",
    "Nix.C18.C18_content_counterexample",
    "Nix.C18.C18_shape_collect",
    "Nix.C18.C18_shape_tests",
    "Nix.C18.C18_shape_conversion",
    "Nix.C18.C18_shape_refusal",
    "Nix.C18.C18_shape_readers",
    "Nix.C18.C18_shape_ops",
    "Nix.C18.C18_shape_create",
    "Nix.C18.C18_shape_entry",
    "Nix.C18.C18_shape_link",
    "Nix.C18.C18_texts_verbatim",
    "Nix.C18.C18_reader_follows_version",
    "Nix.C18.C18_content_no_name_taken",
    "Nix.C18.C18_fails_only_on_taken_name",
    "Nix.C18.C18_content_full",
    "Nix.C18.C18_no_extra_lost",
    "Nix.C18.C18_failure_is_interruption",
    "Nix.C18.C18_values_never_lost",
    "Nix.C18.C18_failed_stays_old",
    "Nix.C18.C18_inside_never_rescheduled",
    "Nix.C18.C18_inside_dim",
    "Nix.C18.C18_inside_counterexample",
]
ASSUMPTIONS = [
    "interruption points are those the property names: before a task and between individual property / dimension "
    "conversions (= each h5py.File(fname, 'a') opened by nixio.cmd.upgrade); cuts inside one conversion are modelled "
    "at create_property granularity (an exception inside the `with` block closes the file normally) and proved lossy",
    "libhdf5 is modelled, not verified: H5Ovisit enumerates links in ascending name order depth-first, Group.values() "
    "of creation-order-tracked groups in creation order, a closed file is on disk (interruption by exception or "
    "os._exit between two opens)",
    "uuid4 ids are fresh; ids/timestamps made by the upgrade are compared up to the invocation that made them",
    "doubles are modelled as exact rationals, NaN and +-inf (both zeros are one value; NaN payloads are not "
    "distinguished); an empty `definition`/`unit` attribute text reads as 'not set'",
    "the file has the groups /data and /metadata (every NIX writer creates them); HDF5 link names are unique per "
    "group (model hypothesis WF); the header id is a text attribute (is_uuid is modelled completely for texts: "
    "NixModel/Py/UuidText.lean)",
]
TRUSTED_EXTRA = ["harness/props/c18.py: h5py crafting of old-format files, `abstract()` (HDF5 -> model file schema), "
                 "the h5py namespace proxy that raises/kills at the k-th mode-'a' open inside nixio.cmd.upgrade",
                 "harness/extract/upgradeshape.py (ast translator of the upgrade / reader shape)",
                 "harness/extract/fileconst.py (C11's translator of nixio/file.py, re-run by this check)"]
READY = True
MANIFEST = {
    "level_text": "Kernel-checked theorems over a Lean model of nixio/cmd/upgrade.py (collect_tasks flattened to one "
                  "step per file open; every step with its re-checked precondition and the points where h5py raises; "
                  "doubles as exact rationals / NaN / inf with the set() and any() semantics of the uncertainty "
                  "decision), for every library version, file and interruption point: the version bump is the last "
                  "step and the only one that changes the version, so every interrupted state - and every failed "
                  "upgrade - is still old; re-running after any prefix of the steps, and after any history of "
                  "interruptions, gives the same file and outcome as an uninterrupted run up to the invocation that "
                  "made fresh ids/timestamps; at every interruption point the file reads as before and is still old "
                  "(C18_interrupted_reads_same); the result has nothing left to collect, a second upgrade and a stale task "
                  "list are the identity, a task list collected before an interrupted run and processed on what it left "
                  "completes the upgrade with the same result (C18_stale_list_resumes), the file opens for writing (openRW proved "
                  "equal to can_write / _check_header over the constants regenerated from nixio/file.py, C18_shape_open); for every file (no hypothesis on name clashes), "
                  "every step list and failing steps included, every property keeps dtype, values, unit and "
                  "definition and no per-value extra is lost (a compound property is afterwards untouched or "
                  "converted with every extra retrievable by a reader who knows the original names; "
                  "C18_no_extra_lost, true since the repair a9c126b); a failed upgrade is an interruption between "
                  "two steps and every further attempt ends the same way; when no dataset sits at a "
                  "`<name>.<extra>` name of a compound property (NoNameTaken; the five suffixes are proved to give "
                  "pairwise distinct names) no step can fail - that is the only way an upgrade fails - and every per-value extra of every property is retrievable, plain "
                  "properties, arrays and dimension readings (alias range dimensions: ticks, unit, label) are "
                  "unchanged; unit and definition texts are carried verbatim whatever they contain "
                  "(C18_texts_verbatim: any string, after any step list). The shape of the source (task order and conditions in collect_tasks, loop direction in "
                  "process_tasks, find / re-check tests, the rules for the per-value extras, order of delete/create, "
                  "create_property itself - parameters handed to create_dataset unchanged, attributes written, definition / unit "
                  "only when non-empty -, the arguments of the main call each read once from the old dataset and passed on "
                  "unmodified, has_valid_file_id with uuid.UUID's acceptance modelled completely, file_upgrade's "
                  "collect-then-process, the attributes of the new link group, the header-version bound below which Property.values / "
                  "uncertainty use the old-layout reader (C18_reader_follows_version: same values before and after; a converted "
                  "property of an interrupted file is unreadable until the version is raised), RangeDimension.is_alias and the ticks/unit/label getters) is regenerated from nixio/cmd/upgrade.py, "
                  "nixio/dimensions.py and nixio/property.py on every run and proved equal to the model (C18_shape_*); the rest of the "
                  "model is tied to the code by differential runs on h5py-crafted old files with every interruption "
                  "point.",
    "level_note": "Full for every old file the upgrade accepts (C18_content_full: no hypothesis on name clashes; extras "
                  "read by a reader who knows the original names). Partial in that 'every old file is upgraded' is false "
                  "of the code (C18_content_counterexample, open known finding C18-extra-name-collision: such a file is "
                  "refused, nothing is lost): C18_content_partial / C18_content_no_name_taken carry the decidable "
                  "hypothesis Clean / NoNameTaken (no `<name>.<extra>` name already taken); without it C18_values_never_lost still holds. Interruption "
                  "inside one conversion is outside the property's quantifier; it is modelled (cut at the c-th "
                  "create_property call, exercised by the correspondence) and proved NOT recoverable "
                  "(C18_inside_counterexample, C18_inside_never_rescheduled). libhdf5 behaviour (visit order, creation "
                  "order, durability of a closed file) is modelled and exercised by the correspondence, not proved.",
    "technique": "Lean 4 proof (induction over step lists, erase-homomorphism, run invariants, sorted-permutation "
                 "uniqueness, interpreters for the ast-extracted source shape) with differential correspondence on "
                 "real HDF5 files, an interruption sweep and a property oracle comparing every per-value extra and every "
                 "text (units, definitions, types, labels, names as other writers store them) exactly",
}


def extract(repo):
    """nixio/cmd/upgrade.py, nixio/dimensions.py, nixio/property.py -> NixModel/Generated/UpgradeShape.lean (shape of
    collect_tasks, process_tasks, the tests and the rules of one conversion, create_property, the range dimension
    readers, the version switch of the property value readers)"""
    out = dict(_shape.extract(repo))
    # nixio/file.py -> Generated/FormatConst.lean (translator of property C11; C18_shape_open is stated over it)
    out.update({k: v for k, v in _fileconst.extract(repo).items() if k.endswith("/FormatConst.lean")})
    return out


VSTR = h5py.string_dtype()
T0 = "20200101T000000"
SUFFIXES = [".uncertainty", ".reference", ".filename", ".encoder", ".checksum"]
DTYPES = {"int64": np.int64, "int32": np.int32, "uint8": np.uint8, "float64": np.float64,
          "float32": np.float32, "bool": np.bool_, "str": VSTR}


def _nix():
    import nixio
    from nixio.cmd import upgrade as U
    return nixio, U


def lib_version():
    nix, _ = _nix()
    return [int(v) for v in nix.file.HDF_FF_VERSION]


# ---------------------------------------------------------------------------------------
# crafting old-format files with h5py


def mkgrp(parent, name):
    gcpl = h5py.h5p.create(h5py.h5p.GROUP_CREATE)
    gcpl.set_link_creation_order(h5py.h5p.CRT_ORDER_TRACKED | h5py.h5p.CRT_ORDER_INDEXED)
    return h5py.Group(h5py.h5g.create(parent.id, name.encode("utf-8"), gcpl=gcpl))


def _entity(obj, name, eid, typ=None):
    obj.attrs["name"] = name
    obj.attrs["entity_id"] = eid
    obj.attrs["created_at"] = T0
    obj.attrs["updated_at"] = T0
    if typ is not None:
        obj.attrs["type"] = typ


def _tokf(t):
    """a double from its token: num/den (exact), -0, nan, inf, -inf"""
    if t == "nan":
        return float("nan")
    if t == "inf":
        return float("inf")
    if t == "-inf":
        return float("-inf")
    if t == "-0":
        return -0.0
    return float(Fraction(t))


def _pyval(v):
    k, x = v
    if k == "f":
        return _tokf(x)
    return x


def _write_prop(pg, p):
    vdt = DTYPES[p["dtype"]]
    if p["kind"] == "old":
        dt = np.dtype([("value", vdt), ("uncertainty", "<f8"), ("reference", VSTR), ("filename", VSTR),
                       ("encoder", VSTR), ("checksum", VSTR)])
        rows = [(_pyval(r[0]), _tokf(r[1]), r[2], r[3], r[4], r[5]) for r in p["rows"]]
        arr = np.array(rows, dtype=dt) if rows else np.zeros((0,), dtype=dt)
        ds = pg.create_dataset(p["name"], data=arr, dtype=dt, chunks=True, maxshape=(None,))
    else:
        vals = [_pyval(v) for v in p["values"]]
        if p["dtype"] == "str":
            ds = pg.create_dataset(p["name"], shape=(len(vals),), dtype=VSTR, chunks=True, maxshape=(None,))
            if vals:
                ds[:] = vals
        else:
            ds = pg.create_dataset(p["name"], data=np.array(vals, dtype=vdt), chunks=True, maxshape=(None,))
        if p.get("uncertainty") is not None:
            ds.attrs["uncertainty"] = _tokf(p["uncertainty"])
    _entity(ds, p["name"], p["id"])
    for k, v in (p.get("attrs") or {}).items():
        ds.attrs[k] = v
    for a in ("definition", "unit"):
        if p.get(a) is not None:
            if p.get("attr_bytes") and p[a]:
                ds.attrs[a] = np.bytes_(p[a].encode("utf-8"))
            else:
                ds.attrs[a] = p[a]


def _write_section(parent, s):
    g = mkgrp(parent, s["name"])
    _entity(g, s["name"], s["id"], s["type"])
    if s.get("definition") is not None:
        g.attrs["definition"] = s["definition"]
    if s["props"]:
        pg = mkgrp(g, "properties")
        for p in s["props"]:
            _write_prop(pg, p)
    if s["sections"]:
        sg = mkgrp(g, "sections")
        for c in s["sections"]:
            _write_section(sg, c)


def _write_array(das, a):
    g = mkgrp(das, a["name"])
    _entity(g, a["name"], a["id"], a["type"])
    for k in ("unit", "label", "definition"):
        if a.get(k) is not None:
            g.attrs[k] = a[k]
    g.create_dataset("data", data=np.array([float(Fraction(x)) for x in a["data"]], dtype=np.float64),
                     chunks=True, maxshape=(None,))
    if a["dims"]:
        dg = mkgrp(g, "dimensions")
        for i, d in enumerate(a["dims"], 1):
            dim = mkgrp(dg, str(i))
            kind = d["kind"]
            if kind == "set":
                dim.attrs["dimension_type"] = "set"
                if d.get("labels"):
                    dim.create_dataset("labels", data=np.array(d["labels"], dtype=object), dtype=VSTR)
                continue
            if kind == "sampled":
                dim.attrs["dimension_type"] = "sample"
                dim.attrs["sampling_interval"] = float(Fraction(d["interval"]))
                for k in ("unit", "label"):
                    if d.get(k) is not None:
                        dim.attrs[k] = d[k]
                continue
            dim.attrs["dimension_type"] = "range"
            for k in ("unit", "label"):
                if d.get(k) is not None:
                    dim.attrs[k] = d[k]
            if kind == "range":
                dim.create_dataset("ticks", data=np.array([float(Fraction(x)) for x in d["ticks"]], dtype=np.float64))
            elif kind == "alias":
                dim[a["id"]] = g
            elif kind in ("link", "both"):
                if kind == "both":      # cut between the creation of the link group and the removal of the alias
                    dim[a["id"]] = g
                lk = mkgrp(dim, "link")
                lk.attrs["entity_id"] = d["link_id"]
                lk.attrs["data_object_type"] = "DataArray"
                lk[a["id"]] = g
                lk.attrs["index"] = [-1]
                lk.attrs["created_at"] = T0
                lk.attrs["updated_at"] = T0
            # kind == "bare": range dimension without ticks, link or alias


def build_file(path, spec):
    with h5py.File(path, "w", track_order=True) as h:
        h.attrs["format"] = "nix"
        h.attrs["version"] = np.array(spec["version"], dtype=np.int32)
        h.attrs["created_at"] = T0
        h.attrs["updated_at"] = T0
        if spec.get("id") is not None:
            h.attrs["id"] = spec["id"]
        data = mkgrp(h, "data")
        md = mkgrp(h, "metadata")
        for b in spec["blocks"]:
            g = mkgrp(data, b["name"])
            _entity(g, b["name"], b["id"], b["type"])
            if b.get("definition") is not None:
                g.attrs["definition"] = b["definition"]
            if b["arrays"]:
                das = mkgrp(g, "data_arrays")
                for a in b["arrays"]:
                    _write_array(das, a)
        for s in spec["sections"]:
            _write_section(md, s)


# ---------------------------------------------------------------------------------------
# abstraction: HDF5 file -> the model's file schema (read with h5py only)


def _children(g):
    """link names in creation order (explicit index; falls back to name order for untracked groups)"""
    names = []
    try:
        g.id.links.iterate(lambda n: names.append(n.decode("utf-8")), idx_type=h5py.h5.INDEX_CRT_ORDER,
                           order=h5py.h5.ITER_INC)
    except Exception:
        names = list(g.keys())
    return names


def _txt(x):
    if x is None:
        return None
    if isinstance(x, bytes):
        return x.decode("utf-8")
    return str(x)


def _fr(x):
    """token of a double: exact num/den (both zeros 0/1), nan, inf, -inf"""
    x = float(x)
    if x != x:
        return "nan"
    if x in (float("inf"), float("-inf")):
        return "inf" if x > 0 else "-inf"
    f = Fraction(x)
    return "%d/%d" % (f.numerator, f.denominator)


def _ctok(t):
    """canonical token (what `_fr` gives for the double the token denotes)"""
    return _fr(_tokf(t))


def _val(x):
    if isinstance(x, (bytes, str)):
        return ["s", _txt(x)]
    if isinstance(x, (bool, np.bool_)):
        return ["b", bool(x)]
    if isinstance(x, (int, np.integer)):
        return ["i", int(x)]
    return ["f", _fr(x)]


def _dtag(dt):
    if dt.kind == "O" or dt.kind in "SU":
        return "str"
    return dt.name


def _nums(arr):
    return json.dumps([_fr(x) for x in np.asarray(arr, dtype=np.float64).ravel()])


class Runs:
    """which invocation produced an id / a timestamp"""

    def __init__(self):
        self.ids = {}
        self.stamps = {}

    def id(self, x):
        x = _txt(x)
        return {"fresh": self.ids[x]} if x in self.ids else x

    def stamp(self, x):
        x = _txt(x)
        return {"now": self.stamps[x]} if x in self.stamps else x


def abstract(path, runs=None, debug=None):
    runs = runs or Runs()
    other = {}
    props = []
    arrays = []
    with h5py.File(path, "r") as h:
        ra = dict(h.attrs)
        version = [int(v) for v in ra.pop("version")]
        fid = ra.pop("id", None)
        other["/"] = {k: _plain(v) for k, v in sorted(ra.items())}

        def walk_meta(g, comps):
            for n in _children(g):
                o = g[n]
                p = comps + [n]
                if isinstance(o, h5py.Dataset):
                    props.append(_abs_prop(o, p, runs, other))
                else:
                    other["/metadata/" + "/".join(p)] = {"attrs": {k: _plain(v) for k, v in sorted(o.attrs.items())},
                                                         "children": [c for c in _children(o)
                                                                      if not isinstance(o[c], h5py.Dataset)]}
                    walk_meta(o, p)
        walk_meta(h["metadata"], [])
        other["/metadata"] = [c for c in _children(h["metadata"])]

        def walk_data(g, skip):
            rec = {"attrs": {k: _plain(v) for k, v in sorted(g.attrs.items())}, "children": []}
            for n in _children(g):
                if n in skip:
                    continue
                rec["children"].append(n)
                o = g[n]
                if isinstance(o, h5py.Dataset):
                    other[o.name] = {"attrs": {k: _plain(v) for k, v in sorted(o.attrs.items())},
                                     "sha": hashlib.sha256(repr(o[()].tolist()).encode()).hexdigest()[:16],
                                     "dtype": str(o.dtype)}
                elif g.name.endswith("/data_arrays"):
                    arrays.append(_abs_array(o, runs))
                    walk_data(o, {"dimensions"})
                else:
                    walk_data(o, set())
            other[g.name] = rec
        walk_data(h["data"], set())
    digest = hashlib.sha256(json.dumps(other, sort_keys=True, default=str).encode()).hexdigest()[:24]
    if debug is not None:
        debug.update(other)
    return {"version": version, "id": (runs.id(fid) if fid is not None else None), "props": props,
            "arrays": arrays, "other": digest}


def _plain(v):
    if isinstance(v, bytes):
        return v.decode("utf-8")
    if isinstance(v, np.ndarray):
        return [_plain(x) for x in v.tolist()]
    if isinstance(v, (np.floating, float)):
        return _fr(v)
    if isinstance(v, (np.integer,)):
        return int(v)
    if isinstance(v, np.bool_):
        return bool(v)
    return v


def _abs_prop(ds, comps, runs, other):
    at = dict(ds.attrs)
    extra = {k: _plain(v) for k, v in sorted(at.items())
             if k not in ("name", "entity_id", "created_at", "updated_at", "definition", "unit", "uncertainty")}
    if _txt(at.get("name")) != comps[-1]:
        extra["name!"] = _txt(at.get("name"))
    if len(ds.dtype):
        raw = ds[()]
        rows = [[_val(r["value"]), _fr(r["uncertainty"]), _txt(r["reference"]), _txt(r["filename"]),
                 _txt(r["encoder"]), _txt(r["checksum"])] for r in raw]
        if extra:
            other["/metadata/" + "/".join(comps)] = extra
        return {"path": comps, "old": {"dtype": _dtag(ds.dtype["value"]), "rows": rows,
                                       "definition": _txt(at.get("definition")), "unit": _txt(at.get("unit"))}}
    if extra:
        other["/metadata/" + "/".join(comps)] = extra
    vals = [_val(x) for x in ds[()]] if ds.shape and ds.shape[0] else []
    unc = at.get("uncertainty")
    return {"path": comps, "new": {"id": runs.id(at.get("entity_id")), "created": runs.stamp(at.get("created_at")),
                                   "updated": runs.stamp(at.get("updated_at")), "dtype": _dtag(ds.dtype),
                                   "values": vals, "definition": _txt(at.get("definition")),
                                   "unit": _txt(at.get("unit")),
                                   "uncertainty": (_fr(unc) if unc is not None else None)}}


def _abs_array(g, runs):
    daid = _txt(g.attrs.get("entity_id"))
    dims = []
    if "dimensions" in g:
        dg = g["dimensions"]
        for n in _children(dg):
            d = dg[n]
            link = None
            if "link" in d:
                lk = d["link"]
                link = {"id": runs.id(lk.attrs.get("entity_id")), "created": runs.stamp(lk.attrs.get("created_at")),
                        "updated": runs.stamp(lk.attrs.get("updated_at")),
                        "dot": _txt(lk.attrs.get("data_object_type")),
                        "index": [int(x) for x in np.asarray(lk.attrs.get("index", [])).ravel()],
                        "target": ",".join(_children(lk))}
            dims.append({"name": n, "type": _txt(d.attrs.get("dimension_type")),
                         "ticks": (_nums(d["ticks"][()]) if "ticks" in d else None),
                         "unit": _txt(d.attrs.get("unit")), "label": _txt(d.attrs.get("label")),
                         "alias": bool(daid in d), "link": link})
    return {"path": g.name, "id": daid, "data": (_nums(g["data"][()]) if "data" in g else "[]"),
            "unit": _txt(g.attrs.get("unit")), "label": _txt(g.attrs.get("label")), "dims": dims}


def canon_state(f):
    """model file schema -> comparable form: properties grouped by their HDF5 group (container order kept)"""
    groups = {}
    for e in f["props"]:
        groups.setdefault("/".join(e["path"][:-1]), []).append(e)
    return {"version": f["version"], "id": f["id"], "props": groups, "arrays": f["arrays"], "other": f["other"]}


# ---------------------------------------------------------------------------------------
# running the real upgrade, interrupted before its k-th mode-"a" open


class _Interrupt(Exception):
    pass


class _H5Proxy:
    def __init__(self, real, hook):
        self._real = real
        self._hook = hook

    def __getattr__(self, n):
        return getattr(self._real, n)

    def File(self, *a, **kw):
        mode = kw.get("mode", a[1] if len(a) > 1 else None)
        if mode not in ("r", None):
            self._hook()
        return self._real.File(*a, **kw)


FAKE_T0 = 1700000000


def fake_time(run):
    return FAKE_T0 + 86400 * run


@contextlib.contextmanager
def instrumented(run, k, runs, kill=False, info=None):
    """patch nixio.cmd.upgrade's h5py namespace, nixio.util.create_id / now_int for one invocation; `k`: None (no
    interruption), a step index (interrupt before that step's mode-"a" open), or [k, c] (interrupt inside step k,
    at its (c+1)-th create_property call -- outside the property's quantifier, correspondence only)"""
    nix, U = _nix()
    info = info if info is not None else {}
    info.update({"opens": 0, "exc": None, "tasks": None, "creates": 0})
    inside = None
    if isinstance(k, (list, tuple)):
        inside = (k[0], k[1])
        k = None

    def hook():
        if k is not None and info["opens"] == k:
            if kill:
                os._exit(17)
            raise _Interrupt("interrupted before step %d" % k)
        info["opens"] += 1
        info["creates"] = 0
    real_h5, real_id, real_now = U.h5py, nix.util.create_id, nix.util.now_int
    real_pt, real_ct, real_cp = U.process_tasks, U.collect_tasks, U.create_property

    def create_property(*a, **kw):
        if inside is not None and info["opens"] == inside[0] + 1 and info["creates"] == inside[1]:
            raise _Interrupt("interrupted inside step %d at create_property call %d" % inside)
        info["creates"] += 1
        return real_cp(*a, **kw)

    def create_id():
        i = real_id()
        runs.ids[str(i)] = run
        return i

    def now_int():
        return fake_time(run)

    def process_tasks(fname, tasklist, quiet=True):
        try:
            return real_pt(fname, tasklist, quiet=quiet)
        except BaseException as e:
            info["exc"] = e
            raise

    def collect_tasks(fname):
        r = real_ct(fname)
        info["tasks"] = describe_tasks(r[0])
        return r
    runs.stamps[_txt(nix.util.time_to_str(fake_time(run)))] = run
    U.h5py = _H5Proxy(real_h5, hook)
    nix.util.create_id, nix.util.now_int = create_id, now_int
    U.process_tasks, U.collect_tasks = process_tasks, collect_tasks
    if inside is not None:
        U.create_property = create_property
    try:
        yield info
    finally:
        U.h5py = real_h5
        nix.util.create_id, nix.util.now_int = real_id, real_now
        U.process_tasks, U.collect_tasks, U.create_property = real_pt, real_ct, real_cp


def describe_tasks(tasks):
    """flatten the closures returned by collect_tasks into the model's step list"""
    import inspect
    out = []
    for t in tasks:
        nm = getattr(t, "__name__", "?")
        try:
            nl = inspect.getclosurevars(t).nonlocals
        except Exception:
            nl = {}
        if nm == "add_id":
            out.append(["id"])
        elif nm == "update_props" and "props" in nl:
            for p in nl["props"]:
                out.append(["prop", p[len("/metadata/"):].split("/") if p.startswith("/metadata/") else [p]])
        elif nm == "update_alias_dims" and "dims" in nl:
            for d in nl["dims"]:
                a, _, n = d.rpartition("/dimensions/")
                out.append(["dim", a, n])
        elif nm == "update_ver":
            out.append(["bump"])
        else:
            out.append(["unknown", nm])
    return out


ERRNAMES = [(KeyError, "KeyError"), (IndexError, "IndexError"), (ValueError, "ValueError"), (TypeError, "TypeError"),
            (AttributeError, "AttributeError"), (RuntimeError, "RuntimeError")]


def errname(e):
    if e is None or isinstance(e, _Interrupt):
        return None
    for cls, nm in ERRNAMES:
        if isinstance(e, cls):
            return nm
    return type(e).__name__


def invoke(path, run, k, runs):
    """one invocation of nixio.file_upgrade; returns (returned value, info)"""
    nix, _ = _nix()
    info = {}
    with instrumented(run, k, runs, info=info):
        with contextlib.redirect_stdout(io.StringIO()):
            ret = nix.file_upgrade(path)
    return ret, info


def invoke_killed(path, run, k):
    """the same in a child process that dies (os._exit) before the k-th step; returns the exit status"""
    pid = os.fork()
    if pid == 0:
        code = 0
        try:
            nix, _ = _nix()
            with instrumented(run, k, Runs(), kill=True):
                with contextlib.redirect_stdout(io.StringIO()):
                    code = 0 if nix.file_upgrade(path) else 3
        except BaseException:
            code = 4
        finally:
            os._exit(code)
    _, st = os.waitpid(pid, 0)
    return os.waitstatus_to_exitcode(st)


def impl_history(ctx, base, ks, tag):
    """run a history of (possibly interrupted) invocations on a copy of the crafted file `base`"""
    path = ctx.tmpfile("h-%s.nix" % tag)
    shutil.copy(base, path)
    runs = Runs()
    init = None
    out = []
    for i, k in enumerate(ks, 1):
        ret, info = invoke(path, i, k, runs)
        st = abstract(path, runs)
        interrupted = isinstance(info["exc"], _Interrupt)
        out.append({"steps": info["tasks"], "file": st, "err": errname(info["exc"]),
                    "ret": bool(ret), "interrupted": interrupted})
    os.unlink(path)
    return init, out


def impl_stale(ctx, base, k, tag):
    """collect_tasks twice up front, process the first list (interrupted before step k / completely), then the
    stale second list completely (nixio.cmd.upgrade.main does this for a file named twice under two spellings)"""
    _, U = _nix()
    path = ctx.tmpfile("s-%s.nix" % tag)
    shutil.copy(base, path)
    runs = Runs()
    ta = U.collect_tasks(path)[0]
    tb = U.collect_tasks(path)[0]
    out = []
    for run, tasks, kk in ((1, ta, k), (2, tb, None)):
        exc = None
        with instrumented(run, kk, runs):
            try:
                with contextlib.redirect_stdout(io.StringIO()):
                    U.process_tasks(path, tasks)
            except Exception as e:
                exc = e
        out.append({"file": abstract(path, runs), "err": errname(exc)})
    os.unlink(path)
    return out


def compare_stale(model, impl):
    if "ok" not in model:
        return "model: %s" % json.dumps(model)[:200]
    for i, (a, b) in enumerate(zip(model["ok"], impl)):
        if a["err"] != b["err"]:
            return "list %d: error model=%s impl=%s" % (i + 1, a["err"], b["err"])
        ca, cb = canon_state(a["file"]), canon_state(b["file"])
        for key in ("version", "id", "other", "arrays", "props"):
            if ca[key] != cb[key]:
                return "list %d: state differs in %s: model=%s impl=%s" % (
                    i + 1, key, json.dumps(ca[key], sort_keys=True)[:400], json.dumps(cb[key], sort_keys=True)[:400])
    return None


# ---------------------------------------------------------------------------------------
# generators

NAMECH = list("abcXYZ019") + ["_", "-", ".", " ", "~", "A", "z", "é", "µ", "(", "+", "μ", "e\u0301", "\u00a0", "  ", "mu"]
UNITS = [None, None, "mV", "s", "Hz", "", "kg/m^3"]
DEFS = [None, None, "a definition", "", "δ"]
# Texts as files of other / older writers hold them, which nixio's own setters would rewrite or refuse (Property.unit,
# DataArray.unit and the dimension units go through units.sanitizer / the SI test; names, types, definitions and
# labels are stored as given): blanks inside and around, micro sign / Greek mu / the letters "mu", composed and
# decomposed accents, no-break space, tabs and line breaks, letter case, non-SI words, long texts.  The upgrade has to
# carry whatever the old file holds ("reads as before").
RAW_UNITS = ["\u00b5V", "\u03bcm", "spikes / s", "deg C", "mumol/l", " mV", "mV ", "m V", "mu", "\u00b5", "\u03a9",
             "\u00b0C", "a.u.", "%", "1 / s", "mV/\u221aHz", "MV", "Mv", "\tms", "ms\n", "k\u03a9\u00b7cm", "mV^2 / Hz",
             "muS/cm", "\u00b5mol / l", "arb. unit", "\u00c5", "A\u030a", "m\u00a0V", "pixel", "mus", "\u03bcs ",
             "MU" * 150]
RAW_TEXTS = [" lead", "trail ", "two  blanks", "line\nbreak", "tab\there", "micro \u00b5 and mu \u03bc", "mumble",
             "\u65e5\u672c\u8a9e", "\u1e9e", "cafe\u0301", "caf\u00e9", "\u00a0nbsp\u00a0", "None", "0", "False", " ", "  ",
             "\n", "a/b", "{x}", "%s %d", "\\n", "'quoted\"", "\u2603", "long text, " * 180]


def _unit_text(rng, plain=None):
    if rng.random() < 0.6:
        return rng.choice(plain if plain is not None else UNITS)
    return rng.choice(RAW_UNITS)


def _free_text(rng, plain):
    if rng.random() < 0.6:
        return rng.choice(plain)
    return rng.choice(RAW_TEXTS)


def _uid(rng):
    return str(uuid.UUID(int=rng.getrandbits(128), version=4))


def odd_ids(rng, u):
    """header id texts in the corners of `uuid.UUID(text)`: 32 characters (after `urn:` / `uuid:`, braces and hyphens
    are gone) that `int(text, 16)` accepts or just does not accept"""
    h = u.replace("-", "")
    fw = "".join(chr(0xff10 + int(c)) if c.isdigit() else c for c in h)       # full-width digits
    return [" " + h[1:], h[:-1] + " ", "\t" + h[2:] + "\n", "+" + h[1:], "-" + h[1:], "0x" + h[2:], "0X_" + h[3:],
            h[:15] + "_" + h[16:], h[:15] + "__" + h[17:], "_" + h[1:], h[:-1] + "_", "urn:uuid:" + u, "uuid:urn:" + u,
            "{{" + u + "}}", "}" + u + "{", u.upper(), fw, h[:10] + "\u0663" + h[11:], h[:10] + "\u00a0" + h[11:],
            "\u00a0" + h[1:], h[:31] + "g", h[:8] + " " + h[9:], "+ " + h[2:], "0x" + h, "ur" + "urn:" + "n:" + u,
            h[:12] + "-" * 5 + h[12:], u[:-1] + "\u00b2"]


def _name(rng, used, base=None):
    for _ in range(100):
        if base is not None and rng.random() < 0.5:
            n = base + rng.choice(NAMECH)
        else:
            n = "".join(rng.choice(NAMECH) for _ in range(rng.choice([1, 1, 2, 3, 5])))
        if not n.strip():
            n = "n"
        elif rng.random() < 0.7:    # most names without blanks around them
            n = n.strip()
        if n not in used and n not in (".", "..") and not n.startswith("."):
            used.add(n)
            return n
    n = "n%d" % len(used)
    used.add(n)
    return n


def _dyadic(rng):
    return Fraction(rng.randint(-40, 40), rng.choice([1, 1, 2, 4, 8]))


def _fs(x):
    x = Fraction(x)
    return "%d/%d" % (x.numerator, x.denominator)


F_SPECIAL64 = ["nan", "inf", "-inf", "-0", _fs(Fraction(1e-9)), _fs(Fraction(0.1)), _fs(Fraction(1.7976931348623157e308)),
               _fs(Fraction(5e-324)), _fs(Fraction(100.0005)), _fs(Fraction(-1e15) - Fraction(1, 4))]
F_SPECIAL32 = ["nan", "inf", "-inf", "-0", _fs(Fraction(2) ** -126), _fs(Fraction(16777215, 1))]
I_SPECIAL = {"int64": [2 ** 63 - 1, -2 ** 63, 2 ** 53 + 1], "int32": [2 ** 31 - 1, -2 ** 31], "uint8": [0, 255]}


def _gen_value(rng, dtype):
    if dtype == "str":
        return ["s", _free_text(rng, ["", "a", "bb", "x y", "ü", "0", "long text " * 3, " ", "nan"])]
    if dtype == "bool":
        return ["b", rng.random() < 0.5]
    if dtype in I_SPECIAL:
        if rng.random() < 0.12:
            return ["i", rng.choice(I_SPECIAL[dtype])]
        return ["i", rng.randint(0, 255) if dtype == "uint8" else rng.randint(-1000, 1000)]
    if rng.random() < 0.15:
        return ["f", rng.choice(F_SPECIAL32 if dtype == "float32" else F_SPECIAL64)]
    return ["f", _fs(_dyadic(rng))]


UNC_MODES = ["zero", "zero", "same", "many", "negzero", "close_rel", "close_rel", "close_abs", "close_ulp", "nan",
             "inf", "one_nonzero", "last_differs"]
TEXT_MODES = ["none"] * 8 + ["same", "first", "last", "random", "falsy_looking"]
TEXTS = ["r", "ref", "ä", "0", " ", "False", "None", "nan", "[]", "a/b.c", "x" * 40] + RAW_TEXTS[:12] + RAW_UNITS[:6]


def _double(rng):
    """a double that is not on the dyadic grid"""
    return rng.choice([1, -1, 1, 1]) * rng.choice([0.1, 0.3, 2.5e-3, 100.0, 12345.678, 1e6 / 3, 7e-9, 1e-12, 3e12]) \
        * rng.choice([1, 3, 7, 0.37])


def _close(rng, b):
    """a double different from `b` and close to it: relative 1e-6 .. 1e-9, a few ulps, or (tiny values) absolute"""
    for _ in range(20):
        how = rng.choice(["rel", "rel", "ulp", "p2"])
        if how == "rel":
            c = b * (1 + rng.choice([1, -1]) * rng.choice([1e-6, 5e-6, 1e-7, 1e-8, 1e-9]) * rng.choice([1, 2, 0.5]))
        elif how == "ulp":
            c = float(np.nextafter(b, rng.choice([np.inf, -np.inf])))
            if rng.random() < 0.5:
                c = float(np.nextafter(c, rng.choice([np.inf, -np.inf])))
        else:
            c = b * (1 + 2.0 ** -rng.choice([20, 24, 30, 40]))
        if c != b and c == c:
            return c
    return b * 2 + 1


def gen_uncs(rng, n, mode=None):
    """per-value uncertainties (tokens) of an old property with `n` values"""
    mode = mode or rng.choice(UNC_MODES)
    if n == 0:
        return mode, []
    if mode == "zero":
        us = [0.0] * n
    elif mode == "negzero":
        us = [rng.choice([0.0, -0.0]) for _ in range(n)]
        us[rng.randrange(n)] = -0.0
    elif mode == "same":
        v = rng.choice([float(_dyadic(rng)) or 0.5, _double(rng)])
        us = [v] * n
    elif mode == "many":
        us = [float(_dyadic(rng)) if rng.random() < 0.7 else _double(rng) for _ in range(n)]
    elif mode == "close_rel":
        b = rng.choice([abs(float(_dyadic(rng))) or 1.0, abs(_double(rng)), 100.0, 1.0])
        us = [b] + [_close(rng, b) for _ in range(n - 1)]
        if rng.random() < 0.3:
            rng.shuffle(us)
    elif mode == "close_abs":
        sc = rng.choice([1e-9, 1e-9, 1e-10, 1e-12, 1e-15])
        us = [sc * rng.choice([1, 2, 3, 5, 7, 9, 2.5]) * rng.choice([1, 1, 1, -1]) for _ in range(n)]
        if rng.random() < 0.3:
            us[rng.randrange(n)] = 0.0
    elif mode == "close_ulp":
        b = rng.choice([_double(rng), 1.0, 0.5, 1e-300, 4.0])
        us = [b] * n
        for i in range(1, n):
            if rng.random() < 0.6 or i == n - 1:
                us[i] = float(np.nextafter(b, rng.choice([np.inf, -np.inf])))
    elif mode == "nan":
        v = rng.choice([0.0, 0.5, _double(rng)])
        us = [rng.choice([float("nan"), float("nan"), v]) for _ in range(n)]
        us[rng.randrange(n)] = float("nan")
    elif mode == "inf":
        us = [rng.choice([float("inf"), float("inf"), float("-inf"), 0.0, 1.0]) for _ in range(n)]
        us[rng.randrange(n)] = float("inf")
    elif mode == "one_nonzero":
        us = [0.0] * n
        us[rng.choice([0, n - 1, rng.randrange(n)])] = rng.choice([0.5, 1e-9, 5e-324, _double(rng)])
    else:   # last_differs
        v = rng.choice([0.25, _double(rng), 0.0])
        us = [v] * n
        us[-1] = rng.choice([_close(rng, v) if v else 1e-9, v + 1.0])
    out = []
    for u in us:
        out.append("-0" if (u == 0 and np.signbit(u)) else _fr(u))
    return mode, out


def gen_texts(rng, n, mode=None):
    """one per-value text extra (reference / filename / encoder / checksum) of an old property with `n` values"""
    mode = mode or rng.choice(TEXT_MODES)
    if mode == "none" or n == 0:
        return [""] * n
    if mode == "same":
        return [rng.choice(TEXTS)] * n
    if mode == "first":
        return [rng.choice(TEXTS)] + [""] * (n - 1)
    if mode == "last":
        return [""] * (n - 1) + [rng.choice(TEXTS)]
    if mode == "falsy_looking":
        return [rng.choice(["0", " ", "False", "None", "", "\t"]) for _ in range(n)]
    return [rng.choice(TEXTS + ["", "", "ref%d" % i]) for i in range(n)]


NEW_TEXT_ATTRS = ("value_origin", "dependency", "dependency_value")
PROP_DTYPES = ["int64", "int64", "float64", "float64", "str", "str", "bool", "int32", "uint8", "float32"]


def _gen_prop(rng, name, kind, dtype=None, n=None, umode=None, tmodes=None):
    dtype = dtype or rng.choice(PROP_DTYPES)
    n = rng.choice([0, 1, 1, 2, 2, 3, 5, 12]) if n is None else n
    p = {"name": name, "kind": kind, "dtype": dtype, "id": _uid(rng),
         "definition": _free_text(rng, DEFS), "unit": _unit_text(rng)}
    if rng.random() < 0.15:
        p["attr_bytes"] = True      # definition / unit stored as fixed-length byte strings (h5py: np.bytes_)
    if kind == "old":
        _, us = gen_uncs(rng, n, umode)
        cols = [gen_texts(rng, n, (tmodes or {}).get(s)) for s in SUFFIXES[1:]]
        p["rows"] = [[_gen_value(rng, dtype), us[i]] + [c[i] for c in cols] for i in range(n)]
    else:
        p["values"] = [_gen_value(rng, dtype) for _ in range(n)]
        p["uncertainty"] = rng.choice([None, None, _fs(_dyadic(rng)), "nan", _fr(_double(rng))])
        if rng.random() < 0.3:      # text attributes only the new layout has; the upgrade must leave them alone
            p["attrs"] = {k: _free_text(rng, ["origin", "dep"]) for k in NEW_TEXT_ATTRS if rng.random() < 0.6}
    return p


def grid_specs(lib):
    """deterministic coverage of the value-dependent decisions of one property conversion: every value type x
    (1, 2, many values) x every kind of per-value uncertainties / texts, spread over a few files"""
    import random
    rng = random.Random(18)
    umodes = sorted(set(UNC_MODES))
    tmodes = sorted(set(TEXT_MODES))
    dtypes = sorted(set(PROP_DTYPES))
    specs = []
    combos = []
    i = 0
    for um in umodes:
        for n in (1, 2, 5):
            combos.append((dtypes[i % len(dtypes)], n, um, {s: tmodes[(i + j) % len(tmodes)]
                                                             for j, s in enumerate(SUFFIXES[1:])}))
            i += 1
    for dt in dtypes:
        for n in (1, 2, 5):
            combos.append((dt, n, umodes[i % len(umodes)], {s: tmodes[(i + 2 * j) % len(tmodes)]
                                                            for j, s in enumerate(SUFFIXES[1:])}))
            i += 1
    per = 12
    for start in range(0, len(combos), per):
        secs = []
        for k, (dt, n, um, tm) in enumerate(combos[start:start + per]):
            if k % 4 == 0:
                secs.append({"name": "s%d" % (k // 4), "type": "grid", "id": _uid(rng), "props": [], "sections": []})
            secs[-1]["props"].append(_gen_prop(rng, "p%d" % k, "old", dtype=dt, n=n, umode=um, tmodes=tm))
        if len(secs) > 2:
            secs[0]["sections"].append(secs.pop())
        specs.append({"version": [1, 1, 0] if start % 2 == 0 else [1, 0, 0], "id": None, "sections": secs, "blocks": []})
    return specs


def _gen_section(rng, used, depth, budget, oldness, collide):
    name = _name(rng, used)
    s = {"name": name, "type": _free_text(rng, ["t", "meta", "a.b"]), "id": _uid(rng), "props": [], "sections": [],
         "definition": _free_text(rng, DEFS)}
    pused = set()
    npro = rng.choice([0, 1, 2, 3, 3, 4, 5, 6, 10]) if budget[0] > 0 else 0
    last = None
    for _ in range(npro):
        if budget[0] <= 0:
            break
        budget[0] -= 1
        pn = _name(rng, pused, last)
        last = pn
        kind = "old" if rng.random() < oldness else "new"
        s["props"].append(_gen_prop(rng, pn, kind))
    if collide and s["props"]:
        # a property whose name is `<other>.<extra>` (open known finding: extra name collision)
        base = rng.choice(s["props"])
        cn = base["name"] + rng.choice(SUFFIXES)
        if cn not in pused:
            pused.add(cn)
            s["props"].append(_gen_prop(rng, cn, rng.choice(["old", "new"])))
    if depth < 3:
        cused = set()
        for _ in range(rng.choice([0, 0, 1, 2])):
            if budget[0] <= 0:
                break
            s["sections"].append(_gen_section(rng, cused, depth + 1, budget, oldness, collide))
    return s


def _gen_array(rng, used, aliasness):
    name = _name(rng, used)
    a = {"name": name, "type": _free_text(rng, ["t", "nix.sampled"]), "id": _uid(rng), "unit": _unit_text(rng),
         "label": _free_text(rng, [None, "lab", "λ"]), "definition": _free_text(rng, DEFS),
         "data": sorted(_fs(_dyadic(rng)) for _ in range(rng.choice([0, 1, 3, 6]))), "dims": []}
    a["data"] = [_fs(x) for x in sorted(Fraction(x) for x in a["data"])]
    for _ in range(rng.choice([0, 1, 1, 2, 3])):
        r = rng.random()
        if r < aliasness:
            a["dims"].append({"kind": "alias", "unit": _unit_text(rng, [None, "own"]),
                              "label": _free_text(rng, [None, None, "own l"])})
        elif r < aliasness + 0.15:
            a["dims"].append({"kind": "range", "ticks": [_fs(x) for x in sorted(_dyadic(rng) for _ in range(3))],
                              "unit": _unit_text(rng, UNITS[:4]), "label": _free_text(rng, [None, "l"])})
        elif r < aliasness + 0.25:
            a["dims"].append({"kind": rng.choice(["link", "link", "both"]), "link_id": _uid(rng), "unit": None,
                              "label": None})
        elif r < aliasness + 0.3:
            a["dims"].append({"kind": "bare", "unit": _unit_text(rng, [None, "u"]), "label": _free_text(rng, [None, "l"])})
        elif r < aliasness + 0.5:
            a["dims"].append({"kind": "sampled", "interval": _fs(Fraction(rng.randint(1, 9), 4)),
                              "unit": _unit_text(rng, UNITS[:4]), "label": _free_text(rng, [None, "t"])})
        else:
            a["dims"].append({"kind": "set", "labels": rng.choice([[], ["a", "b"], [x for x in rng.sample(RAW_TEXTS, 3)]])})
    return a


OLD_VERSIONS = [[1, 1, 0], [1, 1, 0], [1, 0, 0], [1, 1, 0], [0, 9, 9], [1, 1], [1]]
MID_VERSIONS = [[1, 1, 1], [1, 2, 0], [1, 1, 5]]


def gen_spec(rng, lib, size="small", collide=False, shape=None):
    """a file spec; `shape`: old (compound props), mid (new props, alias dims), mixed, current, newer"""
    shape = shape or rng.choice(["old"] * 6 + ["mid", "mid", "mixed", "mixed", "current", "newer"])
    if shape == "old":
        ver, oldness = rng.choice(OLD_VERSIONS), 1.0
    elif shape == "mid":
        ver, oldness = rng.choice(MID_VERSIONS), 0.0
    elif shape == "mixed":
        ver, oldness = rng.choice(OLD_VERSIONS + MID_VERSIONS), 0.6
    elif shape == "current":
        ver, oldness = list(lib), rng.choice([0.0, 0.0, 0.5])
    else:
        ver = rng.choice([lib[:2] + [lib[2] + 1], [lib[0] + 1, 0, 0], list(lib) + [0], [lib[0], lib[1] + 1]])
        oldness = rng.choice([0.0, 0.5])
    idmode = rng.choice(["none", "none", "valid", "valid", "empty", "junk", "braces", "hex32", "short", "odd"])
    u = _uid(rng)
    fid = {"none": None, "valid": u, "empty": "", "junk": "not-an-id", "braces": "{" + u + "}",
           "hex32": u.replace("-", ""), "short": u[:-1], "odd": rng.choice(odd_ids(rng, u))}[idmode]
    budget = [{"tiny": 4, "small": 12, "large": 30}[size]]
    spec = {"version": ver, "id": fid, "sections": [], "blocks": []}
    sused, bused = set(), set()
    for _ in range(rng.choice([0, 1, 1, 2, 2, 3]) if size != "tiny" else rng.choice([1, 1, 2])):
        spec["sections"].append(_gen_section(rng, sused, 1, budget, oldness, collide))
    aliasness = rng.choice([0.0, 0.4, 0.4, 0.7])
    for _ in range(rng.choice([0, 1, 1, 2])):
        b = {"name": _name(rng, bused), "type": _free_text(rng, ["t", "session"]), "id": _uid(rng), "arrays": [],
             "definition": _free_text(rng, DEFS)}
        aused = set()
        for _ in range(rng.choice([0, 1, 2, 3]) if size != "tiny" else rng.choice([0, 1])):
            b["arrays"].append(_gen_array(rng, aused, aliasness))
        spec["blocks"].append(b)
    return spec


def unc_kind(p):
    """coarse class of the per-value uncertainties of an old property (evidence only)"""
    us = [_tokf(r[1]) for r in p["rows"]]
    if not us:
        return "empty"
    if any(u != u for u in us):
        return "nan"
    if any(u in (float("inf"), float("-inf")) for u in us):
        return "inf"
    if all(u == 0 for u in us):
        return "zero"
    if len(set(us)) == 1:
        return "same"
    if np.allclose(us, us[0]):
        return "distinct-but-close"
    return "distinct"


def iter_props(spec):
    def rec(s, comps):
        for p in s["props"]:
            yield comps + [s["name"], "properties", p["name"]], s, p
        for c in s["sections"]:
            yield from rec(c, comps + [s["name"], "sections"])
    for s in spec["sections"]:
        yield from rec(s, [])


def has_collision(spec):
    """the class of the open known finding: an old property that needs `<name>.<extra>` while a dataset of that
    name already exists in the same section"""
    def rec(s):
        names = {p["name"] for p in s["props"]}
        for p in s["props"]:
            if p["kind"] != "old":
                continue
            for suf in needed_extras(p):
                if p["name"] + suf in names:
                    return True
        return any(rec(c) for c in s["sections"])
    return any(rec(s) for s in spec["sections"])


def needed_extras(p):
    out = []
    us = [_ctok(r[1]) for r in p["rows"]]
    if len({u for u in us if u != "nan"}) + sum(1 for u in us if u == "nan") > 1:
        out.append(".uncertainty")
    for i, suf in enumerate(SUFFIXES[1:], 2):
        if any(r[i] != "" for r in p["rows"]):
            out.append(suf)
    return out


# ---------------------------------------------------------------------------------------
# correspondence


def compare_history(model, impl):
    """first difference between the model's and the implementation's history, or None"""
    if "ok" not in model:
        return "model: %s" % json.dumps(model)[:200]
    m = model["ok"]
    if len(m) != len(impl):
        return "history length"
    for i, (a, b) in enumerate(zip(m, impl)):
        if a["steps"] != b["steps"]:
            return "invocation %d: steps model=%s impl=%s" % (i + 1, json.dumps(a["steps"])[:300],
                                                              json.dumps(b["steps"])[:300])
        if a["err"] != b["err"]:
            return "invocation %d: error model=%s impl=%s" % (i + 1, a["err"], b["err"])
        if b["ret"] != (b["err"] is None and not b["interrupted"]):
            return "invocation %d: file_upgrade returned %s" % (i + 1, b["ret"])
        ca, cb = canon_state(a["file"]), canon_state(b["file"])
        if ca != cb:
            for key in ("version", "id", "other", "arrays", "props"):
                if ca[key] != cb[key]:
                    return "invocation %d: state differs in %s: model=%s impl=%s" % (
                        i + 1, key, json.dumps(ca[key], sort_keys=True)[:400], json.dumps(cb[key], sort_keys=True)[:400])
    return None


def histories_for(rng, n, exhaustive=True, extra=2):
    kss = [[None, None]]
    pts = list(range(n)) if exhaustive else sorted(rng.sample(range(n), min(n, 5)))
    for k in pts:
        kss.append([k, None])
    for _ in range(extra if n > 1 else 0):
        k1 = rng.randrange(n)
        k2 = rng.randrange(max(1, n - k1))
        kss.append([k1, k2, None, None])
    return kss


def run_cases(ctx, cases):
    """correspondence on a batch of cases {"spec", "lib", "ks"?}: three driver calls for the whole batch.
    returns per case (evaluations, differences, info)"""
    files, inits = [], []
    for idx, c in enumerate(cases):
        path = ctx.tmpfile("c-%d.nix" % idx)
        build_file(path, c["spec"])
        files.append(path)
        inits.append(abstract(path))
    try:
        col = core.run_driver(PROP, [["collect", c["lib"], i] for c, i in zip(cases, inits)])
        res = [[0, [], {}] for _ in cases]
        hist_cases, owner = [], []
        for idx, (c, i, st) in enumerate(zip(cases, inits, col)):
            if "ok" not in st:
                res[idx][1].append("model rejects the abstracted file: %s" % json.dumps(st)[:200])
                continue
            n = len(st["ok"])
            kss = c.get("ks")
            if not kss:
                kss = histories_for(ctx.rng, n, exhaustive=(n <= 12 or not ctx.quick()))
                # cuts inside a property conversion (model: interruptInside), then a re-run; and two cuts in a row
                psteps = [j for j, s in enumerate(st["ok"]) if s[0] == "prop"]
                pick = ctx.rng.sample(psteps, min(len(psteps), 2))
                for j in pick:
                    for cc in ctx.rng.sample(range(0, 6), 2):
                        kss.append([[j, cc], None])
                if len(psteps) > 1:
                    kss.append([[psteps[0], ctx.rng.randrange(3)], [0, ctx.rng.randrange(3)], None, None])
            res[idx][2] = {"steps": n, "histories": len(kss), "states": 0, "kinds": sorted({s[0] for s in st["ok"]})}
            for ks in kss:
                hist_cases.append(["history", c["lib"], i, ks])
                owner.append(idx)
            for k in ([None] + ([ctx.rng.randrange(n)] if n else []) if n else []):
                hist_cases.append(["stale", c["lib"], i, k])
                owner.append(idx)
        outs = core.run_driver(PROP, hist_cases)
        view_cases, view_owner = [], []
        for j, (hc, mo) in enumerate(zip(hist_cases, outs)):
            idx = owner[j]
            if hc[0] == "stale":
                d = compare_stale(mo, impl_stale(ctx, files[idx], hc[3], "%d-%d" % (idx, j)))
                res[idx][0] += 1
                res[idx][2]["states"] += 2
                res[idx][2]["stale"] = res[idx][2].get("stale", 0) + 1
                if d:
                    res[idx][1].append("stale task list, first list cut at %s: %s" % (json.dumps(hc[3]), d))
                continue
            _, impl = impl_history(ctx, files[idx], hc[3], "%d-%d" % (idx, j))
            if any(x["err"] for x in impl):
                res[idx][2]["errors"] = res[idx][2].get("errors", 0) + 1
            d = compare_history(mo, impl)
            if any(isinstance(k, list) for k in hc[3]):
                res[idx][2]["inside"] = res[idx][2].get("inside", 0) + 1
            res[idx][0] += 1
            res[idx][2]["states"] += len(impl)
            if d:
                res[idx][1].append("history %s: %s" % (json.dumps(hc[3]), d))
        # reader side: the model's views against the nixio API, before and after an uninterrupted run
        pend = []
        for idx, (c, i) in enumerate(zip(cases, inits)):
            pend.append(prepare_views(ctx, c["spec"], c["lib"], i, idx, files[idx]))
        flat = [q for p in pend for q in p["queries"]]
        answers = core.run_driver(PROP, flat) if flat else []
        pos = 0
        for idx, p in enumerate(pend):
            n = len(p["queries"])
            res[idx][1] += finish_views(p, answers[pos:pos + n])
            res[idx][0] += n
            pos += n
        return [tuple(r) for r in res]
    finally:
        for f in files:
            if os.path.exists(f):
                os.unlink(f)


def api_views(path, mode):
    """properties / range dimensions as the nixio API reads them"""
    nix, _ = _nix()
    f = nix.File.open(path, mode)
    try:
        props, dims = [], []

        def rec(s, comps):
            for p in s.props:
                props.append({"path": comps + [s.name, "properties", p.name],
                              "values": [_val(v) for v in p.values],
                              "definition": p.definition or None, "unit": p.unit or None})
            for c in s.sections:
                rec(c, comps + [s.name, "sections"])
        for s in f.sections:
            rec(s, [])
        for b in f.blocks:
            for a in b.data_arrays:
                for i, d in enumerate(a.dimensions, 1):
                    if d.dimension_type == nix.DimensionType.Range:
                        dims.append({"array": a._h5group.group.name, "name": str(i), "ticks": _nums(d.ticks),
                                     "unit": d.unit, "label": d.label})
        return {"props": sorted(props, key=lambda p: p["path"]), "dims": dims}
    finally:
        f.close()


def api_readvals(path):
    """`Property.values` of every property as nixio reads it (the reader is chosen by the header version): the values,
    "raises" (IndexError / TypeError from indexing a plain element by field name) or "records" (whole compound rows);
    None when nixio does not open the file"""
    nix, _ = _nix()
    try:
        f = nix.File.open(path, nix.FileMode.ReadOnly)
    except Exception:       # not opened: version of another length / major, no valid id where one is required
        return None
    try:
        out = []

        def rec(s, comps):
            for p in s.props:
                try:
                    vs = p.values
                    got = "records" if any(isinstance(v, np.void) for v in vs) else [_val(v) for v in vs]
                except (IndexError, TypeError):
                    got = "raises"
                out.append({"path": comps + [s.name, "properties", p.name], "out": got})
            for c in s.sections:
                rec(c, comps + [s.name, "sections"])
        for s in f.sections:
            rec(s, [])
        return sorted(out, key=lambda e: e["path"])
    finally:
        f.close()


def _views_of(v, state):
    types = {(a["path"], d["name"]): d["type"] for a in state["arrays"] for d in a["dims"]}
    return {"props": sorted(({"path": p["path"], "values": p["values"], "definition": p["definition"],
                              "unit": p["unit"]} for p in v["props"]), key=lambda p: p["path"]),
            "dims": [d for d in v["dims"] if types[(d["array"], d["name"])] == "range"]}


def prepare_views(ctx, spec, lib, init, idx, base):
    """run the API side now, return the model queries to be answered in one batch"""
    nix, _ = _nix()
    out = {"queries": [], "expect": []}
    path = ctx.tmpfile("v-%d.nix" % idx)
    shutil.copy(base, path)
    ver = tuple(spec["version"])
    kinds = {p["kind"] for _, _, p in iter_props(spec)}
    readable = len(ver) == 3 and ver[0] == lib[0] and lib[1] >= ver[1] and (ver < (1, 2, 0) or _valid_id(spec))
    consistent = (kinds <= {"old"} and ver < (1, 1, 1)) or (kinds <= {"new"} and ver >= (1, 1, 1))
    try:
        if readable and consistent:
            try:
                av = api_views(path, nix.FileMode.ReadOnly)
            except Exception as e:
                av = "%s: %s" % (type(e).__name__, e)
            out["queries"].append(["view", init])
            out["expect"].append(("views before the upgrade", init, av))
        # the version-switched reader of property values on the file as it is and on what an interruption leaves
        # (plain datasets under an old version, compound ones under a new version included)
        for cut in (None, ctx.rng.randrange(1, 9)):
            if cut is not None:
                invoke(path, 1, cut, Runs())
            rv = api_readvals(path)
            if rv is not None:
                out["queries"].append(["readvals", abstract(path)])
                out["expect"].append(("Property.values by header version%s" % ("" if cut is None else
                                                                               " after a cut before step %d" % cut),
                                      "readvals", rv))
            if cut is not None:
                shutil.copy(base, path)
        runs = Runs()
        ret, info = invoke(path, 1, None, runs)
        after = abstract(path, runs) if ret else None
        if ret and not any("old" in e for e in after["props"]):
            opened = {"ok": None}
            try:
                nix.File.open(path, nix.FileMode.ReadWrite).close()
            except RuntimeError:
                opened = {"err": "RuntimeError"}
            av = None
            if "ok" in opened:
                try:
                    av = api_views(path, nix.FileMode.ReadWrite)
                except Exception as e:
                    av = "reading raised %s: %s" % (type(e).__name__, e)
            out["queries"].append(["openrw", lib, after])
            out["expect"].append(("open for writing after the upgrade", None, opened))
            if av is not None:
                out["queries"].append(["view", after])
                out["expect"].append(("views after the upgrade", after, av))
    finally:
        if os.path.exists(path):
            os.unlink(path)
    return out


def finish_views(p, answers):
    diffs = []
    for (what, state, want), ans in zip(p["expect"], answers):
        if state is None:
            got = ans
        elif state == "readvals":
            got = sorted(ans["ok"], key=lambda e: e["path"]) if "ok" in ans else ans
        else:
            got = _views_of(ans["ok"], state) if "ok" in ans else ans
        if got != want:
            diffs.append("%s: model=%s impl=%s" % (what, json.dumps(got)[:300], json.dumps(want)[:300]))
    return diffs


def _valid_id(spec):
    nix, _ = _nix()
    return bool(spec.get("id")) and nix.util.is_uuid(spec["id"])


def gen_cases(ctx):
    rng = ctx.rng
    lib = lib_version()
    cases = []
    n_small, n_large, n_tiny = ctx.budget((34, 3, 14), (240, 32, 100))
    for _ in range(n_tiny):
        cases.append({"spec": gen_spec(rng, lib, "tiny", shape=rng.choice(["old", "old", "mixed", "mid", None])),
                      "lib": lib})
    for _ in range(n_small):
        cases.append({"spec": gen_spec(rng, lib, "small", collide=(rng.random() < 0.08)), "lib": lib})
    for _ in range(n_large):
        cases.append({"spec": gen_spec(rng, lib, "large", shape=rng.choice(["old", "old", "mixed"])), "lib": lib})
    return cases


def uuid_cases(ctx):
    rng = ctx.rng
    out = []
    for _ in range(ctx.budget(300, 3000)):
        u = _uid(rng)
        t = rng.choice([u, u.replace("-", ""), "{" + u + "}", "urn:uuid:" + u, u[:-1], u + "0", u.upper(),
                        u.replace("a", "g"), "", "x", u[:8] + u[9:], "{{" + u, u[:13] + "-" + u[13:],
                        "".join(rng.choice("0123456789abcdefABCDEF-{}gz") for _ in range(rng.choice([31, 32, 33, 36])))]
                       + odd_ids(rng, u))
        out.append(["is_uuid", t])
    return out


def correspondence(ctx):
    nix, _ = _nix()
    corpus = core.load_corpus(PROP)
    cases = [dict(c, lib=lib_version()) for c in corpus if isinstance(c, dict)] + gen_cases(ctx)
    disagreements = []
    evaluations = 0
    dist = {"steps": {}, "shape": {}, "step_kinds": {}, "histories": 0, "states": 0, "errors": 0}
    seen = set()
    samples = []
    results = []
    for start in range(0, len(cases), 40):
        results += run_cases(ctx, cases[start:start + 40])
    for c, (n, diffs, info) in zip(cases, results):
        evaluations += n
        for d in diffs[:1]:
            disagreements.append(Disagreement({"spec": c["spec"], "lib": c["lib"]}, d.split(" impl=")[0][:600],
                                              d[:1200]))
        b = min(info.get("steps", 0), 40) // 5 * 5
        dist["steps"]["%d-%d" % (b, b + 4)] = dist["steps"].get("%d-%d" % (b, b + 4), 0) + 1
        for kd in info.get("kinds", []):
            dist["step_kinds"][kd] = dist["step_kinds"].get(kd, 0) + 1
        dist["histories"] += info.get("histories", 0)
        dist["states"] += info.get("states", 0)
        dist["errors"] += info.get("errors", 0)
        dist["stale_lists"] = dist.get("stale_lists", 0) + info.get("stale", 0)
        dist["inside_cuts"] = dist.get("inside_cuts", 0) + info.get("inside", 0)
        v = ".".join(map(str, c["spec"]["version"]))
        dist["shape"][v] = dist["shape"].get(v, 0) + 1
        for _, _, pp in iter_props(c["spec"]):
            if pp["kind"] == "old":
                uk = dist.setdefault("uncertainty_kinds", {})
                uk[unc_kind(pp)] = uk.get(unc_kind(pp), 0) + 1
                nv = dist.setdefault("values_per_old_property", {})
                key = str(min(len(pp["rows"]), 3)) + ("+" if len(pp["rows"]) >= 3 else "")
                nv[key] = nv.get(key, 0) + 1
        if info.get("steps", 0) > 1:
            seen.add(core.sha(core.canon(c["spec"])))
        if len(samples) < 3 and info.get("steps", 0) in (3, 4, 5):
            samples.append({"case": {"version": c["spec"]["version"], "id": c["spec"]["id"],
                                     "props": ["/".join(p) for p, _, _ in iter_props(c["spec"])]}, "model": info})
    ucs = uuid_cases(ctx)
    for c, m in zip(ucs, core.run_driver(PROP, ucs)):
        evaluations += 1
        if m != {"ok": bool(nix.util.is_uuid(c[1]))}:
            disagreements.append(Disagreement(c, m, {"ok": bool(nix.util.is_uuid(c[1]))}))
    dist["is_uuid"] = len(ucs)
    return {"evaluations": evaluations, "distinct_nontrivial": len(seen),
            "rule": "h5py-crafted files (tiny/small/large; shapes old=compound properties of every value type with "
                    "per-value extras, mid=new properties + alias range dimensions, mixed, current, newer; ids "
                    "absent/valid/empty/junk/braced/hex32/short); per file the uninterrupted run twice, an "
                    "interrupted run + re-run for every step index k (sampled when > 14 steps in quick), and "
                    "double-interruption histories, cuts inside a property conversion (at its c-th create_property call) "
                    "followed by a re-run, and two task lists collected up front with the stale one processed after "
                    "the (interrupted / complete) first; every state abstracted with h5py and compared with the model "
                    "(steps, error class, return value, version, id, properties per group in container order, "
                    "arrays/dimensions/links, digest of everything else); model views vs nixio API before (old-layout "
                    "readers) and after; Property.values of every dataset as the header version makes nixio read it "
                    "(values / raises / whole records) on the file as crafted and after a random cut; is_uuid texts. "
                    "non-trivial = file with more than one step",
            "samples": samples, "distribution": dist, "disagreements": disagreements, "exhaustive": False}


# ---------------------------------------------------------------------------------------
# property oracle on the implementation (spec + nixio API only; independent of the model)


def expected_content(spec):
    """what the file must read as, from the spec alone"""
    secs = {}
    for comps, s, p in iter_props(spec):
        pass

    def rec(s, path):
        here = path + "/" + s["name"]
        props = {}
        for p in s["props"]:
            if p["kind"] == "old":
                vals = [r[0] for r in p["rows"]]
                extras = {"uncertainty": [_ctok(r[1]) for r in p["rows"]]}
                for i, suf in enumerate(SUFFIXES[1:], 2):
                    extras[suf[1:]] = [r[i] for r in p["rows"]]
            else:
                vals = p["values"]
                extras = None
            vals = [["f", _ctok(v[1])] if v[0] == "f" else v for v in vals]
            props[p["name"]] = {"values": vals, "dtype": p["dtype"], "unit": p.get("unit") or None,
                                "definition": p.get("definition") or None, "extras": extras,
                                "attrs": {k: v for k, v in (p.get("attrs") or {}).items() if v}}
        secs[here] = {"id": s["id"], "type": s["type"], "props": props, "children": [c["name"] for c in s["sections"]],
                      "definition": s.get("definition") or None}
        for c in s["sections"]:
            rec(c, here)
    for s in spec["sections"]:
        rec(s, "")
    blocks = []
    for b in spec["blocks"]:
        arrs = []
        for a in b["arrays"]:
            dims = []
            for d in a["dims"]:
                if d["kind"] in ("alias", "link", "both"):
                    dims.append({"type": "range", "ticks": list(a["data"]), "unit": a.get("unit"),
                                 "label": a.get("label")})
                elif d["kind"] == "range":
                    dims.append({"type": "range", "ticks": list(d["ticks"]), "unit": d.get("unit"),
                                 "label": d.get("label")})
                elif d["kind"] == "bare":
                    dims.append({"type": "range", "ticks": [], "unit": d.get("unit"), "label": d.get("label")})
                elif d["kind"] == "sampled":
                    dims.append({"type": "sample", "interval": d["interval"], "unit": d.get("unit"),
                                 "label": d.get("label")})
                else:
                    dims.append({"type": "set", "labels": list(d.get("labels") or [])})
            arrs.append({"name": a["name"], "id": a["id"], "type": a["type"], "data": list(a["data"]),
                         "unit": a.get("unit"), "label": a.get("label"), "dims": dims,
                         "definition": a.get("definition") or None})
        blocks.append({"name": b["name"], "id": b["id"], "type": b["type"], "arrays": arrs,
                       "definition": b.get("definition") or None})
    return {"sections": secs, "top": [s["name"] for s in spec["sections"]], "blocks": blocks}


def api_walk(path, mode, extras=True):
    """content through the nixio API (properties as a dict: order-insensitive); `extras=False`: do not touch the
    per-value extras (the old-layout `uncertainty` reader indexes row 0, which an empty property does not have)"""
    nix, _ = _nix()
    f = nix.File.open(path, mode)
    try:
        secs = {}

        def rec(s, p):
            here = p + "/" + s.name
            props = {}
            for q in s.props:
                props[q.name] = {"values": [_val(v) for v in q.values], "unit": q.unit or None,
                                 "definition": q.definition or None,
                                 "uncertainty": ((None if q.uncertainty is None else _fr(q.uncertainty))
                                                 if extras else None),
                                 "dtype": _dtag(np.dtype(q.data_type)) if not isinstance(q.data_type, list) else "?",
                                 "attrs": {k: getattr(q, k) for k in NEW_TEXT_ATTRS if getattr(q, k)}}
            secs[here] = {"id": s.id, "type": s.type, "props": props, "children": [c.name for c in s.sections],
                          "definition": s.definition or None}
            for c in s.sections:
                rec(c, here)
        for s in f.sections:
            rec(s, "")
        blocks = []
        for b in f.blocks:
            arrs = []
            for a in b.data_arrays:
                dims = []
                for d in a.dimensions:
                    if d.dimension_type == nix.DimensionType.Range:
                        dims.append({"type": "range", "ticks": [_fr(x) for x in d.ticks], "unit": d.unit,
                                     "label": d.label})
                    elif d.dimension_type == nix.DimensionType.Sample:
                        dims.append({"type": "sample", "interval": _fr(d.sampling_interval), "unit": d.unit,
                                     "label": d.label})
                    else:
                        dims.append({"type": "set", "labels": list(d.labels)})
                arrs.append({"name": a.name, "id": a.id, "type": a.type, "data": [_fr(x) for x in a[:]] if len(a) else [],
                             "unit": a.unit, "label": a.label, "dims": dims, "definition": a.definition or None})
            blocks.append({"name": b.name, "id": b.id, "type": b.type, "arrays": arrs,
                           "definition": b.definition or None})
        return {"sections": secs, "top": [s.name for s in f.sections], "blocks": blocks,
                "version": [int(v) for v in f.version]}
    finally:
        f.close()


def content_diff(exp, got, after):
    """first way in which the API walk `got` does not show the content `exp`; `after`: extras must be retrievable
    through the uncertainty attribute or `<name>.<extra>` properties, which are additional properties"""
    if exp["top"] != got["top"]:
        return "top-level sections %s != %s" % (got["top"], exp["top"])
    if exp["blocks"] != got["blocks"]:
        for eb, gb in zip(exp["blocks"], got["blocks"]):
            if eb != gb:
                return "block %s reads %s, expected %s" % (eb["name"], json.dumps(gb)[:300], json.dumps(eb)[:300])
        return "blocks differ"
    if set(exp["sections"]) != set(got["sections"]):
        return "sections %s != %s" % (sorted(got["sections"]), sorted(exp["sections"]))
    for sp, es in exp["sections"].items():
        gs = got["sections"][sp]
        for k in ("id", "type", "children", "definition"):
            if es[k] != gs[k]:
                return "section %s: %s reads %r, expected %r" % (sp, k, gs[k], es[k])
        allowed = set(es["props"])
        for pn, ep in es["props"].items():
            gp = gs["props"].get(pn)
            if gp is None:
                return "section %s: property %r is gone" % (sp, pn)
            for k in ("values", "unit", "definition", "attrs"):
                if gp[k] != ep[k]:
                    return "section %s property %r: %s reads %s, expected %s" % (sp, pn, k, json.dumps(gp[k])[:200],
                                                                                json.dumps(ep[k])[:200])
            if after and ep["extras"] is not None:
                n = len(ep["values"])
                q = gs["props"].get(pn + ".uncertainty")
                if q is not None and pn + ".uncertainty" not in es["props"]:
                    allowed.add(pn + ".uncertainty")
                    gu = [v[1] if v[0] == "f" else None for v in q["values"]]
                else:
                    gu = [gp["uncertainty"] or "0/1"] * n
                if gu != list(ep["extras"]["uncertainty"]):
                    return "section %s property %r: per-value uncertainties not retrievable: %s, expected %s" % (
                        sp, pn, [_show(x) for x in gu], [_show(x) for x in ep["extras"]["uncertainty"]])
                for suf in SUFFIXES[1:]:
                    q = gs["props"].get(pn + suf)
                    if q is not None and pn + suf not in es["props"]:
                        allowed.add(pn + suf)
                        gt = [v[1] if v[0] == "s" else None for v in q["values"]]
                    else:
                        gt = [""] * n
                    if gt != ep["extras"][suf[1:]]:
                        return "section %s property %r: per-value %s not retrievable: %s, expected %s" % (
                            sp, pn, suf[1:], gt, ep["extras"][suf[1:]])
        surplus = set(gs["props"]) - allowed
        if surplus:
            return "section %s: unexpected properties %s" % (sp, sorted(surplus))
    return None


def lost_after_failure(spec, path):
    """first property of the spec that the file no longer holds completely (h5py level), or None"""
    st = abstract(path)
    have = {"/".join(e["path"]): e for e in st["props"]}
    names = {"/".join(c) for c, _, _ in iter_props(spec)}
    for comps, _, p in iter_props(spec):
        key = "/".join(comps)
        e = have.get(key)
        if e is None:
            return "property %s is gone" % key
        if p["kind"] != "old":
            continue
        want_vals = [["f", _ctok(r[0][1])] if r[0][0] == "f" else r[0] for r in p["rows"]]
        want_unc = [_ctok(r[1]) for r in p["rows"]]
        if "old" in e:
            got = e["old"]["rows"]
            if [g[0] for g in got] != want_vals or [g[1] for g in got] != want_unc or \
                    [g[2:] for g in got] != [r[2:] for r in p["rows"]]:
                return "compound property %s changed" % key
            continue
        n = e["new"]
        if n["values"] != want_vals:
            return "property %s: values %s, expected %s" % (key, json.dumps(n["values"])[:200], json.dumps(want_vals)[:200])
        q = have.get(key + ".uncertainty")
        if q is not None and key + ".uncertainty" not in names and "new" in q:
            gu = [v[1] for v in q["new"]["values"]]
        else:
            gu = [n["uncertainty"] or "0/1"] * len(want_vals)
        if gu != want_unc:
            return "property %s: per-value uncertainties lost (%s, expected %s)" % (key, gu, want_unc)
        for i, suf in enumerate(SUFFIXES[1:], 2):
            q = have.get(key + suf)
            if q is not None and key + suf not in names and "new" in q:
                gt = [v[1] for v in q["new"]["values"]]
            else:
                gt = [""] * len(want_vals)
            if gt != [r[i] for r in p["rows"]]:
                return "property %s: per-value %s lost (%s, expected %s)" % (key, suf[1:], gt, [r[i] for r in p["rows"]])
    return None


def _show(t):
    """a double token for a message: the token and its decimal reading"""
    try:
        return "%s (%r)" % (t, _tokf(t))
    except Exception:
        return repr(t)


def _sha_file(path):
    return hashlib.sha256(open(path, "rb").read()).hexdigest()


def _raw_version(path):
    with h5py.File(path, "r") as h:
        return [int(v) for v in h.attrs["version"]]


def check_spec(ctx, spec, lib, points="all", kill_points=(), tag="o"):
    """the property on one file: returns a list of Failures (empty = holds)"""
    nix, U = _nix()
    fails = []
    inp = {"spec": spec, "lib": lib}

    def fail(what, observed, required, k=None, mode=None):
        i = dict(inp)
        if k is not None:
            i["k"], i["mode"] = k, mode
        fails.append(Failure(what, i, observed, required, "nixio/cmd/upgrade.py"))
    base = ctx.tmpfile("%s-base.nix" % tag)
    work = ctx.tmpfile("%s-work.nix" % tag)
    try:
        build_file(base, spec)
        exp = expected_content(spec)
        ver = tuple(spec["version"])
        old = ver < tuple(lib)
        # readers for the old layout (only where the library promises to read the file)
        kinds = {p["kind"] for _, _, p in iter_props(spec)}
        if (len(ver) == 3 and ver[0] == lib[0] and lib[1] >= ver[1] and (ver < (1, 2, 0) or _valid_id(spec))
                and ((kinds <= {"old"} and ver < (1, 1, 1)) or (kinds <= {"new"} and ver >= (1, 1, 1)))):
            try:
                d = content_diff(exp, api_walk(base, nix.FileMode.ReadOnly, extras=False), after=False)
            except Exception as e:
                d = "reading raised %s: %s" % (type(e).__name__, e)
            if d:
                fail("old-format file does not read as written (before the upgrade)", d, "content of the spec")
        if not old:
            h0 = _sha_file(base)
            shutil.copy(base, work)
            with contextlib.redirect_stdout(io.StringIO()):
                ret = nix.file_upgrade(work)
            if ret is not True or _sha_file(work) != h0:
                fail("upgrading an up-to-date file changed it", {"returned": ret, "same_bytes": _sha_file(work) == h0},
                     "returns True, file untouched")
            return fails
        # uninterrupted run
        shutil.copy(base, work)
        runs = Runs()
        ret, info = invoke(work, 1, None, runs)
        nsteps = info["opens"]
        if not ret:
            fail("upgrade of an old file failed", "file_upgrade returned %r (%s: %s)" % (
                ret, type(info["exc"]).__name__, info["exc"]), "True")
            # what is left must still be recognised as old
            if _raw_version(work) != list(spec["version"]):
                fail("failed upgrade raised the version", _raw_version(work), list(spec["version"]))
            # ... and nothing may have been lost: every property is still stored, in the old layout as it was or
            # converted with every per-value extra (read with h5py: nixio refuses the file)
            lost = lost_after_failure(spec, work)
            if lost:
                fail("content lost by an upgrade that failed", lost, "every property and per-value extra still stored")
            # a second attempt fails the same way and changes nothing
            before = abstract(work)
            ret2, _ = invoke(work, 2, None, Runs())
            if ret2 or abstract(work) != before:
                fail("second attempt after a failed upgrade", {"returned": ret2, "same_file": abstract(work) == before},
                     "fails again, file unchanged")
            return fails
        try:
            full = api_walk(work, nix.FileMode.ReadWrite)
        except Exception as e:
            fail("upgraded file cannot be opened for writing and read", "%s: %s" % (type(e).__name__, e), "opens")
            return fails
        if full["version"] != list(lib):
            fail("version after the upgrade", full["version"], list(lib))
        d = content_diff(exp, full, after=True)
        if d:
            fail("content changed by the upgrade", d, "content of the spec")
        left = U.collect_tasks(work)[0]
        if left:
            fail("tasks left after the upgrade", [t.__doc__ for t in left], [])
        h1 = _sha_file(work)
        with contextlib.redirect_stdout(io.StringIO()):
            ret2 = nix.file_upgrade(work)
        if ret2 is not True or _sha_file(work) != h1:
            fail("upgrading the upgraded file changed it", {"returned": ret2}, "returns True, file untouched")
        # "safe to repeat": the same file named twice (two spellings) in one `nixio upgrade` call -- both task lists
        # are collected before either is processed, so the second one is stale
        import argparse
        shutil.copy(base, work)
        alt = os.path.join(os.path.dirname(work), ".", os.path.basename(work))
        try:
            with contextlib.redirect_stdout(io.StringIO()):
                U.main(argparse.Namespace(file=[work, alt], force=True))
            twice = api_walk(work, nix.FileMode.ReadWrite)
            if twice != full:
                fail("file submitted twice to one upgrade call: result differs from a single upgrade",
                     content_diff(exp, twice, after=True) or "differs from the single upgrade", "same content")
        except Exception as e:
            fail("file submitted twice to one upgrade call: the second (stale) task list is not safe to repeat",
                 "%s: %s" % (type(e).__name__, e), "second pass changes nothing")
        # every interruption point followed by a re-run
        ks = list(range(nsteps)) if points == "all" else [k for k in points if k < nsteps]
        for k in ks:
            for mode in (["raise"] + (["kill"] if k in kill_points else [])):
                shutil.copy(base, work)
                if mode == "raise":
                    ret, info = invoke(work, 1, k, Runs())
                    if ret is not False or not isinstance(info["exc"], _Interrupt):
                        fail("interrupted upgrade did not report failure", ret, False, k, mode)
                else:
                    st = invoke_killed(work, 1, k)
                    if st != 17:
                        fail("child was not killed at the interruption point", st, 17, k, mode)
                v = _raw_version(work)
                if v != list(spec["version"]):
                    fail("version raised although the upgrade was interrupted before step %d of %d" % (k, nsteps),
                         v, list(spec["version"]), k, mode)
                    continue
                try:
                    nix.File.open(work, nix.FileMode.ReadWrite).close()
                    fail("interrupted file opens for writing", "opened", "refused (still old)", k, mode)
                except Exception:
                    pass
                ret, info = invoke(work, 2, None, Runs())
                if not ret:
                    fail("re-run after an interruption before step %d of %d failed" % (k, nsteps),
                         "%s: %s" % (type(info["exc"]).__name__, info["exc"]), True, k, mode)
                    continue
                try:
                    again = api_walk(work, nix.FileMode.ReadWrite)
                except Exception as e:
                    fail("file re-run after an interruption cannot be opened for writing",
                         "%s: %s" % (type(e).__name__, e), "opens", k, mode)
                    continue
                if again != full:
                    d = content_diff(exp, again, after=True) or "differs from the uninterrupted result"
                    fail("re-run after an interruption before step %d of %d gives another result" % (k, nsteps),
                         d, "same content as the uninterrupted run", k, mode)
                elif U.collect_tasks(work)[0]:
                    fail("tasks left after the re-run", k, [], k, mode)
        return fails
    finally:
        for p in (base, work):
            if os.path.exists(p):
                os.unlink(p)


FIXED_CASES = []


def oracle(ctx, broken, hints):
    rng = ctx.rng
    lib = lib_version()
    specs = []
    for h in hints[:20]:
        if isinstance(h, dict) and "spec" in h:
            specs.append((h["spec"], "all"))
    for c in core.load_corpus(PROP):
        if isinstance(c, dict) and "spec" in c:
            specs.append((c["spec"], "all"))
    # the value-dependent decisions of one conversion, deterministically (uninterrupted + two interruption points)
    for g in grid_specs(lib):
        specs.append((g, "few"))
    n_tiny, n_small, n_large = (50, 50, 10) if (broken or not ctx.quick()) else (10, 8, 1)
    for _ in range(n_tiny):
        specs.append((gen_spec(rng, lib, "tiny", shape=rng.choice(["old", "old", "mid", "mixed"])), "all"))
    for _ in range(n_small):
        specs.append((gen_spec(rng, lib, "small"), "all"))
    for _ in range(n_large):
        specs.append((gen_spec(rng, lib, "large", shape="old"), "all" if not ctx.quick() else "sample"))
    failures = []
    evals = 0
    kills = 0
    for i, (spec, pts) in enumerate(specs):
        points = "all"
        if pts == "sample":
            points = sorted(rng.sample(range(40), 6))
        elif pts == "few":
            points = sorted(rng.sample(range(14), 2)) if ctx.quick() else sorted(rng.sample(range(14), 6))
        kp = set()
        if not ctx.quick() or i % 4 == 0:
            kp = set(range(40)) if not ctx.quick() else {rng.randrange(6), rng.randrange(12)}
        fs = check_spec(ctx, spec, lib, points=points, kill_points=kp, tag="o%d" % i)
        evals += 1
        kills += len(kp)
        failures.extend(fs[:3])
        if len(failures) >= 12:
            break
    failures.sort(key=lambda f: len(core.canon(f.input)))
    return {"evaluations": evals, "failures": failures, "kill_points_requested": kills}


def matches_known(entry, failure):
    if entry.get("class") == "extra-name-collision":
        # only the refusal itself: an upgrade (or the re-run after an interruption) that fails on such a file;
        # lost content, a raised version or a changed file after the refusal are violations
        spec = failure.input.get("spec") if isinstance(failure.input, dict) else None
        refusal = failure.what == "upgrade of an old file failed" or (
            failure.what.startswith("re-run after an interruption") and failure.what.endswith("failed"))
        return bool(spec) and refusal and has_collision(spec)
    return False


def reproduces(ctx, entry):
    inp = entry.get("input") or {}
    if "spec" not in inp:
        return True
    return bool(check_spec(ctx, inp["spec"], lib_version(), points=[], tag="kf"))


def replay_failure(ctx, fj):
    inp = fj["input"]
    pts = "all" if "k" not in inp else [inp["k"]]
    kp = set(pts) if inp.get("mode") == "kill" else set()
    fs = check_spec(ctx, inp["spec"], inp.get("lib") or lib_version(), points=pts, kill_points=kp, tag="rp")
    return fs[0] if fs else None
