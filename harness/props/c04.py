"""C04 — deleting an entity removes it, what it owns and every link to it — nothing else (structural model).

(T) harness/extract/delshape.py renders the statement lists of the deletion code (Container / SectionContainer /
SourceContainer / LinkContainer.__delitem__, the visitor of H5Group.delete_all, the parameters of H5Group.delete, every
container constructor call, the metadata / link / extents deleters, the statements of util/find.py's finders) as
NixModel/Generated/DeleteShape.lean; Store/DelShape.lean interprets them and Props/C04 proves that their meaning is the
hand-written model (`*_follows_source`, `source_delete_gone`), so an edit of that code breaks a named theorem or no
longer translates.

correspondence: deletion-heavy operation histories over link topologies (one target linked from several groups /
tags / multi-tags / features / role links, nested sources and sections, names reused in different parents, deletion
by name, id, index, negative index and object; data frames in group lists / as feature data / with metadata; range
dimensions linked to arrays and frames), executed in lockstep on real nixio and on the Lean graph model; the
HDF5-level dump of the whole file is compared after every mutation.

oracle (implementation alone, no model): canonical walk of the public API before and after every deletion /
unlinking / role-link clearing; the after-walk must equal the before-walk minus exactly the deleted entity, what it
owns (path prefix) and every link-list entry / role link to one of those; everything else identical and in order.
"""
import copy
import json
import os
import random

import h5py
import nixio

from ..extract import delshape as _ex
from ..lib import core, storegen, walk as W
from ..lib.core import Failure, Disagreement
from ..lib.storeimpl import Impl, BadOp

PROP = "C04"
LEAN_MODULE = "NixModel.Props.C04"
THEOREMS = [
    "Nix.C04.deleteObjs_gone",
    "Nix.C04.deleteObjs_frame",
    "Nix.C04.deleteObjs_order",
    "Nix.C04.deleteObjs_untouched",
    "Nix.C04.delete_is_deleteObjs",
    "Nix.C04.delete_refused",
    "Nix.C04.delete_keys_self",
    "Nix.C04.subtree_complete",
    "Nix.C04.subtree_complete_of_done",
    "Nix.C04.subtree_finite_of_growing",
    "Nix.C04.subtree_sound",
    "Nix.C04.delete_gone",
    "Nix.C04.delete_owned_unreachable",
    "Nix.C04.delete_others_stay",
    "Nix.C04.frame_full",
    "Nix.C04.delete_frame",
    "Nix.C04.delete_exact",
    "Nix.C04.frame_counterexample_before_fix",
    "Nix.C04.unlink_keeps_target",
    "Nix.C04.role_clear_keeps_target",
    "Nix.C04.history_delete",
    "Nix.C04.history_frame",
    "Nix.C04.history_delete_exact",
    "Nix.C04.delitem_follows_source",
    "Nix.C04.deleteObjs_follows_source",
    "Nix.C04.h5Delete_follows_source",
    "Nix.C04.containerInfo_follows_source",
    "Nix.C04.containerInfo_only_source",
    "Nix.C04.role_clear_follows_source",
    "Nix.C04.find_follows_source",
    "Nix.C04.subtree_follows_source",
    "Nix.C04.source_delete_gone",
    "Nix.C04.delete_step_gone",
    "Nix.C04.history4_delete",
    "Nix.C04.dimLink_after_delete",
    "Nix.C04.delete_by_object",
    "Nix.C04.source_delete_by_object",
    "Nix.C04.delete_by_object_any_container",
    "Nix.C04.delete_by_object_wrong_class",
    "Nix.C04.delete_by_object_others_stay",
    "Nix.C04.delete_by_object_subtree_others_stay",
    "Nix.C04.delete_by_key_member",
    "Nix.C04.delete_by_name_member",
    "Nix.C04.delete_gone_contains",
    "Nix.C04.unlink_by_object",
    "Nix.C04.unlink_by_object_not_linked",
    "Nix.C04.history5_delete",
    "Nix.C04.history5_delete_exact",
]
ASSUMPTIONS = [
    "every reference nixio keeps to an entity is an HDF5 hard link (owning container entry, link-list entry, role "
    "link); h5py's visititems reaches every group reachable from '/' (modelled: delete_all filters every link list)",
    "subtree_complete: the section / source hierarchy below the deleted entity is a finite forest of at most "
    "|nodes|^2+1 entities (the breadth-first collection of the model is fuel-based; API-built files satisfy it); "
    "subtree_complete_of_done replaces it by the decidable 'the collection ended with an empty queue', which the "
    "model driver evaluates (op fuel_ok) before every section / source deletion of the correspondence runs; "
    "subtree_finite_of_growing proves the finite-forest half of the hypothesis (and that the visited-set-free "
    "collection loop ends, complete) from the decidable condition that every child key exceeds its parent's "
    "(GrowingKids over the sections / sources themselves: objects are keyed in creation order; the model driver "
    "evaluates it, op growing_ok, before every section / source deletion of the correspondence runs) - the bound on "
    "the count remains a hypothesis",
    "deletion is by HDF5 object (fix 'deleting an entity also deleted every same-id copy file-wide'): h5py's `==` / "
    "`in` on Group / Dataset objects is object identity in the file (same file number and address) - modelled as "
    "equality of node keys; the frame at full strength (frame_full, delete_frame, delete_exact) is proved for "
    "every graph, whatever ids its objects carry; frame_counterexample_before_fix is a statement about "
    "Graph.deleteAll (deletion by entity_id), which no operation of the model uses any more",
    "that HDF5 frees what became unreachable is not observable through the API and not modelled",
    "uuid4 ids are drawn from an abstract fresh supply",
    "(T) the translator harness/extract/delshape.py accepts only the statement forms listed in its docstring "
    "(anything else: broken tie); isinstance(item, Entity) is read as 'an entity object that is not a Feature', "
    "isinstance(item, self._itemclass) as 'an object of the container's item kind'; the body of H5Group.delete, "
    "H5Group.__delitem__ / __contains__ and the wrappers find_sections / find_sources (defaults filtr=lambda _: True, "
    "limit=None -> sys.maxsize) are compared with templates (only the default of delete_if_empty and the depth bound "
    "are parameters); util/find.py is translated statement by statement (Store/FindProg.lean interprets fifo / result / "
    "level / child, `limit=None` is read as 'no depth reaches sys.maxsize'; a statement form not listed in the "
    "translator's docstring - a seen-set, `continue`, pop() from the back - is a broken tie); the construction of `targets` in delete_all (the .group / .dataset of every handle passed) and "
    "the single assignment `self.h5obj = self.group` / `self.dataset` at the end of H5Group / H5DataSet.__init__ are "
    "compared with templates; h5py's visititems is taken to run the visitor on every group reachable from the file root",
    "the error class of a refused `del container[<entity object>]` is compared as 'refused' only (a Feature whose "
    "data is gone raises RuntimeError from its __str__ inside util.is_uuid, the shared model says TypeError; the "
    "file is unchanged either way)",
    "data frames and dimension links (Store/C04Ext, Op4): the gone / unreachable / frame theorems hold for every "
    "graph and hence for Op4 histories (history4_delete, delete_frame)",
    "copies in the correspondence histories use the copy model of Store/Copy.lean (C20's subject) within one file; "
    "SourceLinkContainer.append asks for the object of the block's source tree (Store/Api.contAppend: same id and "
    "same node, fix a440b8d) - after an id-keeping array copy the copy links a detached duplicate of each source, "
    "which is refused; which error a refused copy raises is not compared here",
]
TRUSTED_EXTRA = ["harness/lib/storeimpl.py + storegen.py (path addressing by iteration, HDF5-level dump with h5py)",
                 "harness/lib/walk.py (canonical walk of the public API used by the oracle)"]
READY = True
MANIFEST = {
    "level_text": "Kernel-checked theorems over the Lean model of the HDF5 object graph under a NIX file and of "
                  "nixio's deletion paths (Container/SectionContainer/SourceContainer/LinkContainer.__delitem__, "
                  "H5Group.delete_all / delete, the metadata / link / extents deleters): for every graph, container "
                  "and key form, after a successful delete no container lookup, iteration or role link yields the "
                  "entity (or, for sections / sources, anything in its subtree), everything reachable only through "
                  "it is unreachable from the root, every other link list keeps its remaining entries in order and "
                  "all attributes - in particular an id-keeping copy of the deleted entity keeps every link to it "
                  "(deletion is by HDF5 object, frame_full / delete_frame / delete_exact for every graph); an entity object "
                  "handed to a container that does not hold it is deleted itself (or refused, wrong class) and the "
                  "container's namesake stays, a name / id / position addresses a member only (delete_by_object*, "
                  "delete_by_key_member); the same after every history incl. copies within the file (Op5); unlinking / "
                  "clearing a role link removes one link only. Tied to the code (T) by an ast translator that renders the statement lists of "
                  "the deletion code (the __delitem__ variants, the delete_all visitor, H5Group.delete, the container "
                  "constructor table, the role-link deleters, the bodies of util/find.py's _find_sections / "
                  "_find_sources statement by statement) into Generated/DeleteShape.lean, with "
                  "kernel-checked theorems that the meaning of these statement lists is the model (the finders, run "
                  "as written, return the model's breadth-first collection for every graph, filter and fuel), (C) by "
                  "differential execution of deletion-heavy histories incl. data frames, dimension links and "
                  "(mostly id-keeping) copies followed by deletions on either side "
                  "(HDF5-level dump compared after every mutation) and by an implementation-side walk-difference "
                  "oracle.",
    "level_note": "Partial: subtree completeness assumes a "
                  "finite forest within the model's fuel (decidable form evaluated by the driver for every section / "
                  "source deletion of the runs; soundness of the collection needs no assumption); HDF5 space "
                  "reclamation is not modelled. Trusted: Lean kernel, "
                  "standard axioms, the translator's reading of isinstance / visititems / h5py object equality, the "
                  "correspondence harness, h5py/HDF5 link semantics.",
    "technique": "Lean 4 proof (graph-level lemmas about delete_all for every graph, soundness and completeness of "
                 "the breadth-first subtree collection, refinement of the source's own statement lists - rendered "
                 "by an ast translator - to the hand-written model) with differential correspondence (HDF5-level dump "
                 "after every mutation) and a walk-difference oracle on the implementation",
}



def extract(repo):
    """(T) statement lists of the deletion code -> NixModel/Generated/DeleteShape.lean"""
    return _ex.extract(repo)


QUERIES = ("get", "has", "len", "list", "role", "dump", "noop", "reset", "fuel_ok", "growing_ok")


# =======================================================================================
# generator: link topologies + deletion-heavy churn (store protocol, runs in lockstep with the real file)

LINK_OWNERS = {"data_array": [("group", "data_arrays"), ("tag", "references"), ("multi_tag", "references")],
               "data_frame": [("group", "data_frames")],
               "tag": [("group", "tags")],
               "multi_tag": [("group", "multi_tags")],
               "source": [("group", "sources"), ("data_array", "sources"), ("tag", "sources"),
                          ("multi_tag", "sources")]}
DEL_KIND_WEIGHTS = [("data_array", 24), ("data_frame", 10), ("source", 16), ("section", 16), ("tag", 8),
                    ("multi_tag", 8), ("group", 5), ("block", 2), ("feature", 12), ("property", 9)]
# storegen's tables plus the data-frame containers (Block.data_frames, Group.data_frames)
CONTAINERS4 = dict(storegen.CONTAINERS)
CONTAINERS4["block"] = storegen.CONTAINERS["block"] + ["data_frames"]
CONTAINERS4["group"] = storegen.CONTAINERS["group"] + ["data_frames"]
LINK_CONTS4 = set(storegen.LINK_CONTS) | {("group", "data_frames")}
INDEXED4 = set(storegen.INDEXED) | {("group", "data_frames")}


COPY_NAMES = ["copy", "c2", "k", "a", "z1"]
# the containers that can OWN an entity of a kind: (owner kind, container name). `del container[obj]` takes any object
# of the container's item class, member or not - the histories hand objects to containers that do not hold them
OWNED_IN = {"data_array": [("block", "data_arrays")], "data_frame": [("block", "data_frames")],
            "tag": [("block", "tags")], "multi_tag": [("block", "multi_tags")], "group": [("block", "groups")],
            "source": [("block", "sources"), ("source", "sources")],
            "section": [("file", "metadata"), ("section", "sections")],
            "property": [("section", "properties")],
            "feature": [("tag", "features"), ("multi_tag", "features")]}
FOREIGN_KIND_WEIGHTS = [("data_array", 22), ("data_frame", 8), ("source", 20), ("section", 20), ("tag", 7),
                        ("multi_tag", 7), ("group", 5), ("feature", 5), ("property", 6)]


def real_uuid_name(nm):
    return storegen.real_uuid(nm)


def inventory4(impl):
    """storegen.inventory plus the data frames of every block"""
    ents = storegen.inventory(impl)
    for bi, b in enumerate(impl.f.blocks):
        bsel = bi if storegen.real_uuid(b.name) else b.name
        for i, df in enumerate(b.data_frames):
            ents.append(storegen.Ent("data_frame", ["data", bsel, "data_frames",
                                                    i if storegen.real_uuid(df.name) else df.name], df.name, b.name))
    return ents


class DelGen(storegen.Gen):
    """builds a dense link topology, then mostly deletes / unlinks / clears role links"""

    def __init__(self, rng, impl, build_steps, after=None):
        super().__init__(rng, impl, "links")
        self.n = 0
        self.build_steps = build_steps
        self.after = after          # callback(op, out) after each recorded op (the oracle hooks in here)
        self.tally = {}

    def count(self, what):
        self.tally[what] = self.tally.get(what, 0) + 1

    # names: mostly plain, so that the same names recur in different parents
    def name(self, existing=()):
        r = self.rng.random()
        if r < 0.04:
            return self.rng.choice(storegen.NAMES_BAD)
        if r < 0.14:
            return self.rng.choice(storegen.NAMES_UUIDISH)
        return self.rng.choice(storegen.NAMES_PLAIN[:9])

    def step(self):
        self.n += 1
        ents = inventory4(self.impl)
        blocks = [e for e in ents if e.kind == "block"]
        if len(blocks) < 2 and self.n <= 4:
            self.do(["create_block", self.name([b.name for b in blocks]), "t"])
            return
        if not blocks:
            self.do(["create_block", self.name(), "t"])
            return
        if self.n <= self.build_steps:
            r = self.rng.random()
            if r < 0.36:
                self.create(ents)
            elif r < 0.47:
                self.frames_and_dims(ents)
            elif r < 0.74:
                self.fan_in(ents)
            elif r < 0.90:
                self.role_fan(ents)
            else:
                self.copies(ents, then_delete=0.15)
            return
        r = self.rng.random()
        if r < 0.25:
            self.delete(ents)
        elif r < 0.30:
            self.deep_subtree(ents)
        elif r < 0.36:
            self.delete_foreign(ents)
        elif r < 0.46:
            self.copies(ents, then_delete=0.6)
        elif r < 0.60:
            self.unlink(ents)
        elif r < 0.71:
            self.role_clear(ents)
        elif r < 0.78:
            self.create(ents)
        elif r < 0.82:
            self.frames_and_dims(ents)
        elif r < 0.90:
            self.fan_in(ents)
        elif r < 0.95:
            self.role_fan(ents)
        else:
            self.bad(ents)

    def frames_and_dims(self, ents):
        """a data frame in some block / a range dimension of an array linked to an array or frame (one more hard
        link to the target, from `array/dimensions/<n>/link`)"""
        rng = self.rng
        if rng.random() < 0.5:
            blk = self.pick(ents, "block")
            if blk is None:
                return
            sib = [e.name for e in ents if e.kind == "data_frame" and e.block == blk.name]
            r = rng.random()
            name = rng.choice(sib) if sib and r < 0.1 else rng.choice(storegen.NAMES_PLAIN[:9] + ["", "a/b"])
            self.do(["create_df", blk.path, name])
            self.do(["list", blk.path, "data_frames"])
            self.count("create data_frame")
            return
        arr = self.pick(ents, "data_array")
        if arr is None:
            return
        tgt = self.pick(ents, rng.choice(["data_array", "data_array", "data_frame"]),
                        block=arr.block if rng.random() < 0.9 else None)
        if tgt is None:
            return
        self.do(["dim_link", arr.path, tgt.path])
        self.do(["dump"])
        self.count("dimension link to %s" % tgt.kind)

    # -- topology -------------------------------------------------------------------------
    def fan_in(self, ents):
        """one target appended to several link lists"""
        rng = self.rng
        kind = rng.choice(["data_array", "data_array", "data_frame", "source", "source", "tag", "multi_tag"])
        tgt = self.pick(ents, kind)
        if tgt is None:
            return
        owners = []
        for okind, cname in LINK_OWNERS[kind]:
            owners += [(o, cname) for o in ents if o.kind == okind and o.block == tgt.block and o.path != tgt.path]
        if rng.random() < 0.1:      # a foreign owner now and then (refused)
            owners += [(o, c) for k2, c in LINK_OWNERS[kind] for o in ents if o.kind == k2 and o.block != tgt.block][:2]
        rng.shuffle(owners)
        for o, cname in owners[:rng.randint(2, 4)]:
            self.do(["append", o.path, cname, {"o": tgt.path} if rng.random() < 0.85 else {"id": tgt.path}])
            self.do(["list", o.path, cname])
            self.count("link")

    def role_fan(self, ents):
        """one section as metadata of several entities / one array as positions, extents, feature data of several"""
        rng = self.rng
        r = rng.random()
        if r < 0.45:
            sec = self.pick(ents, "section")
            if sec is None:
                return
            owners = [e for e in ents if e.kind in ("block", "group", "data_array", "data_frame", "tag", "multi_tag",
                                                    "source")]
            rng.shuffle(owners)
            for o in owners[:rng.randint(2, 4)]:
                self.do(["set_role", o.path, "metadata", sec.path])
                self.do(["role", o.path, "metadata"])
                self.count("role")
        elif r < 0.6:
            s1, s2 = self.pick(ents, "section"), self.pick(ents, "section")
            if s1 is not None:
                self.do(["set_role", s1.path, "link", s2.path])
                self.do(["role", s1.path, "link"])
                self.count("role")
        elif r < 0.72:
            da = self.pick(ents, "data_array")
            if da is None:
                return
            mts = [e for e in ents if e.kind == "multi_tag" and e.block == da.block]
            rng.shuffle(mts)
            for mt in mts[:3]:
                role = rng.choice(["positions", "extents", "extents"])
                self.do(["set_role", mt.path, role, da.path])
                self.do(["role", mt.path, role])
                self.count("role")
        else:
            da = self.pick(ents, "data_array" if rng.random() < 0.7 else "data_frame")
            if da is None:
                return
            tags = [e for e in ents if e.kind in ("tag", "multi_tag") and e.block == da.block]
            rng.shuffle(tags)
            for tg in tags[:3]:
                self.do(["create_feature", tg.path, da.path, rng.choice(["tagged", "untagged", "indexed"])])
                self.do(["list", tg.path, "features"])
                self.count("feature")

    # -- deletion -------------------------------------------------------------------------
    def after_probe(self, block):
        """every link list and role link of a sample of the survivors, then the whole-file dump"""
        ents = inventory4(self.impl)
        owners = [e for e in ents if e.kind in ("group", "tag", "multi_tag", "data_array", "data_frame")
                  and (block is None or e.block == block)]
        self.rng.shuffle(owners)
        for o in owners[:6]:
            for cname in CONTAINERS4.get(o.kind, []):
                if (o.kind, cname) in INDEXED4:
                    self.do(["list", o.path, cname])
            if o.kind == "multi_tag":
                self.do(["role", o.path, "positions"])
                self.do(["role", o.path, "extents"])
            self.do(["role", o.path, "metadata"])
        feats = [e for e in ents if e.kind == "feature"]
        self.rng.shuffle(feats)
        for ft in feats[:3]:
            self.do(["role", ft.path, "data"])
        self.do(["dump"])

    # -- copies (mostly id-keeping: two objects then carry one entity_id), then deletions on either side -------
    def copies(self, ents, then_delete):
        rng = self.rng
        kind = rng.choice(["data_array"] * 5 + ["tag", "multi_tag", "section", "section", "section", "property",
                                                "property", "block"])
        src = self.pick(ents, kind)
        if src is None:
            return
        keep = rng.random() < 0.85
        name = rng.choice(COPY_NAMES) if rng.random() < 0.8 else ""
        if kind == "block":
            if len([e for e in ents if e.kind == "block"]) >= 3 or len(ents) > 60:
                return
            out = self.do(["copy_block", src.path, name, keep])
            dest_owner, cname = [], "data"
        elif kind in ("data_array", "tag", "multi_tag"):
            blk = self.pick(ents, "block", block=src.block if rng.random() < 0.7 else None)
            if blk is None:
                return
            cname = {"data_array": "data_arrays", "tag": "tags", "multi_tag": "multi_tags"}[kind]
            out = self.do(["copy_into", blk.path, kind, src.path, name, keep])
            dest_owner = blk.path
        elif kind == "section":
            children = rng.random() < 0.7
            r = rng.random()
            if r < 0.3 and len(src.path) > 2:
                # beside the original, below the same parent: one subtree then holds two sections with one id
                dest = next((x for x in ents if x.kind == "section" and x.path == src.path[:-2]), None)
            else:
                dest = self.pick(ents, "section") if r < 0.65 else None
            if dest is not None and (dest.path == src.path or dest.path[:len(src.path)] == src.path):
                dest = None         # not into its own subtree
            out = self.do(["copy_section", dest.path if dest else None, src.path, children, keep, name])
            dest_owner, cname = (dest.path, "sections") if dest else ([], "metadata")
        else:
            dest = self.pick(ents, "section")
            if dest is None:
                return
            out = self.do(["copy_property", dest.path, src.path, name, keep])
            dest_owner, cname = dest.path, "properties"
        self.count("copy %s %s" % (kind, "keeping ids" if keep else "with new ids"))
        self.do(["list", dest_owner, cname])
        self.do(["dump"])
        new_name = name or src.name
        if "ok" in out and kind == "section" and rng.random() < 0.6 and not real_uuid_name(new_name) \
                and new_name not in storegen.NAMES_BAD:
            # a link from outside to the copy (the original may be linked already): metadata of some entity
            o = self.pick(ents, rng.choice(["data_array", "group", "tag", "block", "source", "data_frame"]))
            if o is not None:
                self.do(["set_role", o.path, "metadata", dest_owner + [cname, new_name]])
                self.do(["role", o.path, "metadata"])
                self.count("metadata link to a section copy")
        if "ok" not in out or rng.random() >= then_delete:
            return
        # delete on either side right away: the original, or the copy (found by its name in the destination)
        ents2 = inventory4(self.impl)
        cp = [e for e in ents2 if e.kind == kind and e.path[:-2] == dest_owner and e.path[-2] == cname
              and e.name == new_name]
        orig = [e for e in ents2 if e.kind == kind and e.path == src.path]
        side = rng.choice(["original", "copy"])
        pool = orig if side == "original" else cp
        if kind == "section" and dest_owner and src.path[:len(dest_owner)] == dest_owner and rng.random() < 0.5:
            # original and copy lie below one section: delete that one (its subtree holds two sections with one id)
            side = "common ancestor of original and copy"
            pool = [e for e in ents2 if e.kind == "section" and e.path == dest_owner]
        if not pool or real_uuid_name(new_name):
            return
        self.count("delete the %s right after an %s copy" % (side, "id-keeping" if keep else "id-regenerating"))
        self.delete_ent(pool[0])

    def deep_subtree(self, ents):
        """a fresh chain of sections / sources (3-5 levels, a side branch now and then) whose root and whose members
        one level down are linked from NOWHERE, while members two or more levels down are the targets of metadata
        links / Section.link / sources-list entries from outside; then the root is deleted (any key form). Every one
        of those links has to go although nothing near the root hints at them."""
        rng = self.rng
        kind = rng.choice(["section", "source"])
        if kind == "section":
            hosts = [e for e in ents if e.kind == "section" and len(e.path) <= 4]
            host = rng.choice(hosts) if hosts and rng.random() < 0.5 else None
            owner_path, cname, block = (host.path, "sections", None) if host else ([], "metadata", None)
        else:
            hosts = [e for e in ents if e.kind == "source" and len(e.path) <= 6]
            host = rng.choice(hosts) if hosts and rng.random() < 0.5 else self.pick(ents, "block")
            if host is None:
                return
            owner_path, cname = host.path, "sources"
            block = host.block if host.kind == "source" else host.name
        taken = [e.name for e in ents if e.kind == kind and e.path[:-2] == owner_path and e.path[-2] == cname]
        free = [n for n in storegen.NAMES_PLAIN[:11] if n not in taken]
        if not free:
            return

        def make(parent, name):
            if kind == "section":
                return self.do(["create_section", parent, name, "t"])
            return self.do(["create", parent, "source", name, "t", None])

        root_name = rng.choice(free)
        if "ok" not in make(owner_path, root_name):
            return
        sub = "sections" if kind == "section" else "sources"
        chain = [owner_path + [cname, root_name]]
        for _ in range(rng.randint(2, 4)):
            nm = rng.choice(storegen.NAMES_PLAIN[:9])
            if "ok" not in make(chain[-1], nm):
                return
            if rng.random() < 0.3:
                make(chain[-1], nm + "'")       # a sibling branch without links
            chain.append(chain[-1] + [sub, nm])
        deep = chain[2:]
        if rng.random() < 0.25 and kind == "section":
            self.do(["create_property", deep[-1], "p"])
        linked = 0
        if kind == "section":
            owners = [e for e in ents if e.kind in ("block", "group", "data_array", "data_frame", "tag", "multi_tag",
                                                    "source")]
            rng.shuffle(owners)
            for o in owners[:rng.randint(0, 3)]:
                linked += "ok" in self.do(["set_role", o.path, "metadata", rng.choice(deep)])
                self.do(["role", o.path, "metadata"])
            outside = [e for e in ents if e.kind == "section"]
            rng.shuffle(outside)
            for o in outside[:rng.randint(0 if linked else 1, 2)]:
                linked += "ok" in self.do(["set_role", o.path, "link", rng.choice(deep)])
                self.do(["role", o.path, "link"])
        else:
            owners = [(o, c) for k2, c in LINK_OWNERS["source"] for o in ents if o.kind == k2 and o.block == block]
            rng.shuffle(owners)
            for o, c in owners[:rng.randint(1, 4)]:
                for t in rng.sample(deep, rng.randint(1, len(deep))):
                    linked += "ok" in self.do(["append", o.path, c, {"o": t}])
                self.do(["list", o.path, c])
        self.count("%s subtree with %s only two or more levels below its root" %
                   (kind, "links from outside" if linked else "no link from outside,"))
        self.do(["dump"])
        self.delete_ent(storegen.Ent(kind, chain[0], root_name, block))

    def delete(self, ents):
        rng = self.rng
        kinds = [k for k, w in DEL_KIND_WEIGHTS for _ in range(w)]
        e = None
        for _ in range(6):
            e = self.pick(ents, rng.choice(kinds))
            if e is not None:
                break
        if e is None:
            return
        self.delete_ent(e)

    def delete_ent(self, e):
        rng = self.rng
        owner_path, cname, sel = e.path[:-2], e.path[-2], e.path[-1]
        out = self.do(["list", owner_path, cname])
        items = out.get("ok") or []
        if isinstance(sel, int):
            if sel >= len(items):
                return
            pos = sel
        else:
            pos = next((i for i, it in enumerate(items) if it[0] == sel), 0)
        r = rng.random()
        if r < 0.25 and e.name is not None:
            key = storegen.skey(e.name, e.path)
            how = "name"
        elif r < 0.5:
            key, how = {"id": e.path}, "id"
        elif r < 0.62:
            key, how = {"p": pos}, "index"
        elif r < 0.74:
            key, how = {"p": pos - len(items)}, "negative index"
        else:
            key, how = {"o": e.path}, "object"
        self.count("delete %s by %s" % (e.kind, how))
        if e.kind in ("section", "source"):
            # model-only question: does the breadth-first id collection finish within the model's fuel? (hypothesis
            # of Nix.C04.subtree_complete_of_done; on the implementation find_sections/find_sources simply terminate)
            self.ops.append(["fuel_ok", owner_path, cname, key])
            self.outs.append({"ok": True})
            # ... and is the hierarchy of the model's graph a finite forest by the decidable criterion of
            # Nix.C04.subtree_finite_of_growing (every child section / source keyed above its parent, below the next key)?
            self.ops.append(["growing_ok"])
            self.outs.append({"ok": True})
        self.do(["del", owner_path, cname, key])
        self.do(["list", owner_path, cname])
        if e.name is not None and not storegen.real_uuid(e.name):
            self.do(["has", owner_path, cname, {"s": e.name}])
        self.after_probe(e.block)

    def delete_foreign(self, ents):
        """`del container[obj]` where the entity object is NOT a member of the container it is handed to: the list of
        another block, of another parent section / source, the file's top-level sections, another tag's features, a
        link list that does not link it - preferably a container that holds an entity of the same name (names are
        reused in different parents) or, after an id-keeping copy, of the same id. The property: either refused and
        nothing changes, or exactly the entity handed over is deleted - never its namesake."""
        rng = self.rng
        kinds = [k for k, w in FOREIGN_KIND_WEIGHTS for _ in range(w)]
        e = None
        for _ in range(6):
            e = self.pick(ents, rng.choice(kinds))
            if e is not None:
                break
        if e is None:
            return
        home = (e.path[:-2], e.path[-2])
        if rng.random() < 0.2 and e.kind in LINK_OWNERS:
            # a link list of some owner (any block): the entry is looked up by the object's id
            cands = [(o.path, cname) for okind, cname in LINK_OWNERS[e.kind] for o in ents if o.kind == okind]
            flavour = "link list"
        else:
            cands = [([], cname) for okind, cname in OWNED_IN[e.kind] if okind == "file"]
            cands += [(o.path, cname) for okind, cname in OWNED_IN[e.kind] for o in ents if o.kind == okind]
            cands = [c for c in cands if c != home]
            flavour = "container"
        if not cands:
            return
        same = [c for c in cands if e.name is not None and
                any(x.kind == e.kind and x.name == e.name and (x.path[:-2], x.path[-2]) == c for x in ents)]
        if same and rng.random() < 0.65:
            owner_path, cname = rng.choice(same)
            what = "holding a namesake"
        else:
            owner_path, cname = rng.choice(cands)
            what = "holding a namesake" if (owner_path, cname) in same else "without a namesake"
            if what == "without a namesake" and flavour == "container" and rng.random() < 0.6 \
                    and self.make_namesake(ents, e, owner_path, cname):
                what = "holding a namesake"
        self.count("delete %s by object through another %s %s" % (e.kind, flavour, what))
        key = {"o": e.path}
        if e.kind in ("section", "source") and flavour == "container":
            self.ops.append(["fuel_ok", owner_path, cname, key])
            self.outs.append({"ok": True})
        self.do(["del", owner_path, cname, key])
        self.do(["list", owner_path, cname])
        self.do(["list", home[0], home[1]])
        self.after_probe(e.block)

    def make_namesake(self, ents, e, owner_path, cname):
        """an entity of e's kind and name in the container of `owner_path` (the same name reused in another parent),
        linked from somewhere now and then; False if the kind / name does not allow it"""
        rng = self.rng
        if e.name is None or real_uuid_name(e.name) or e.name in storegen.NAMES_BAD:
            return False
        if e.kind in ("data_array", "tag", "group", "source"):
            out = self.do(["create", owner_path, e.kind, e.name, "t", None])
        elif e.kind == "multi_tag":
            pos = [x for x in ents if x.kind == "data_array" and x.path[:2] == owner_path[:2]]
            if not pos:
                return False
            out = self.do(["create", owner_path, "multi_tag", e.name, "t", rng.choice(pos).path])
        elif e.kind == "data_frame":
            out = self.do(["create_df", owner_path, e.name])
        elif e.kind == "section":
            out = self.do(["create_section", owner_path, e.name, "t"])
        elif e.kind == "property":
            out = self.do(["create_property", owner_path, e.name])
        else:
            return False
        if "ok" not in out:
            return False
        self.count("namesake created in another parent")
        twin = owner_path + [cname, e.name]
        if rng.random() < 0.6:
            if e.kind == "section":
                o = self.pick(ents, rng.choice(["data_array", "group", "tag", "block", "source"]))
                if o is not None:
                    self.do(["set_role", o.path, "metadata", twin])
            elif e.kind in LINK_OWNERS:
                okind, cn = rng.choice(LINK_OWNERS[e.kind])
                o = self.pick([x for x in ents if x.path[:2] == owner_path[:2]], okind)
                if o is not None:
                    self.do(["append", o.path, cn, {"o": twin}])
        return True

    def unlink(self, ents):
        rng = self.rng
        cands = []
        for o in ents:
            for cname in CONTAINERS4.get(o.kind, []):
                if (o.kind, cname) in LINK_CONTS4:
                    cands.append((o, cname))
        rng.shuffle(cands)
        # link lists that have entries first (looked at without recording an op), so that an unlink step unlinks
        def filled(oc):
            try:
                return len(self.impl.container(self.impl.nav(oc[0].path), oc[1])) > 0
            except Exception:
                return False
        cands = [oc for oc in cands if filled(oc)][:6] + cands[:2]
        for o, cname in cands[:8]:
            out = self.do(["list", o.path, cname])
            items = out.get("ok") or []
            if not items:
                continue
            i = rng.randrange(len(items))
            key = self.key_for(o.path + [cname, i], items[i][0], i, len(items))
            self.count("unlink")
            self.do(["del", o.path, cname, key])
            self.do(["list", o.path, cname])
            self.after_probe(o.block)
            return

    def role_clear(self, ents):
        rng = self.rng
        r = rng.random()
        if r < 0.5:
            o = self.pick(ents, rng.choice(["block", "group", "data_array", "data_frame", "tag", "multi_tag",
                                            "source"]))
            role = "metadata"
        elif r < 0.75:
            o, role = self.pick(ents, "multi_tag"), "extents"
        else:
            o, role = self.pick(ents, "section"), "link"
        if o is None:
            return
        self.count("clear %s" % role)
        self.do(["set_role", o.path, role, None])
        self.do(["role", o.path, role])
        if len(o.path) >= 2:
            self.do(["list", o.path[:-2], o.path[-2]])
        self.do(["dump"])

    def do(self, op):
        out = super().do(op)
        if self.after is not None:
            self.after(op, out)
        return out


def run_history(ctx, rng, steps, build_steps, tag, reopen_prob=0.0):
    path = ctx.tmpfile("c04-%s.nix" % tag)
    impl = Impl4(path, literal_uuid_names=(storegen.LIT_UUID,))
    gen = DelGen(rng, impl, build_steps)
    try:
        for _ in range(steps):
            gen.step()
            if reopen_prob and rng.random() < reopen_prob:
                impl.reopen("a")
                gen.ops.append(["noop"])
                gen.outs.append({"ok": None})
        gen.do(["dump"])
    finally:
        impl.close()
        try:
            os.remove(path)
        except OSError:
            pass
    return gen.ops, gen.outs, gen.tally


def run_script(ctx, ops, tag):
    """a fixed list of store-protocol ops on a fresh file"""
    path = ctx.tmpfile("c04-%s.nix" % tag)
    impl = Impl4(path, literal_uuid_names=(storegen.LIT_UUID,))
    try:
        return [impl.run(op) for op in ops]
    finally:
        impl.close()
        try:
            os.remove(path)
        except OSError:
            pass


def canon_dump(nodes):
    """re-canonicalise an HDF5-level dump: the order of the children of an *entity* group (its container groups,
    role links, datasets) and of the root is not observable through the API and may differ after a refused create
    that left an empty container group behind (dropped from the dump, but it took its place in the creation
    order); the order inside container groups — which is the order of the entities — is kept"""
    if not isinstance(nodes, list):
        return nodes
    byn = {n["n"]: n for n in nodes}
    order = {}

    def visit(k):
        if k in order or k not in byn:
            return
        order[k] = len(order)
        nd = byn[k]
        links = nd["links"]
        if k == 0 or "entity_id" in nd["attrs"]:
            links = sorted(links, key=lambda l: l[0])
        for _, t in links:
            visit(t)

    visit(0)
    out = []
    for k in sorted(order, key=lambda x: order[x]):
        nd = byn[k]
        links = nd["links"]
        if k == 0 or "entity_id" in nd["attrs"]:
            links = sorted(links, key=lambda l: l[0])
        out.append({"n": order[k], "kind": nd["kind"], "attrs": nd["attrs"],
                    "links": [[nm, order.get(t, -1)] for nm, t in links]})
    return out


def compare(ops, outs, model):
    """storegen.compare on outputs whose dumps are re-canonicalised; the error class of a refused append /
    create_feature is not this property's subject (only refused / accepted is compared there; a tagged feature on a
    data frame raises UnsupportedLinkType, which the shared model files under ValueError)"""
    def prep(o, op):
        if op[0] == "dump" and isinstance(o, dict) and isinstance(o.get("ok"), list):
            return {"ok": canon_dump(o["ok"])}
        if op[0] in ("append", "create_feature") and isinstance(o, dict) and "err" in o:
            return {"err": "refused"}
        if op[0].startswith("copy_") and isinstance(o, dict) and "err" in o:
            return {"err": "refused"}       # which error a refused copy raises is C20's subject
        if op[0] == "del" and isinstance(o, dict) and "err" in o and isinstance(op[3], dict) and "o" in op[3]:
            # an entity object of the wrong class as key: refused on both sides; the class of the error is TypeError
            # except for a Feature whose data was deleted (its __str__, called by util.is_uuid, raises RuntimeError)
            return {"err": "refused"}
        return o
    outs2 = [prep(o, op) for o, op in zip(outs, ops)]
    model2 = [prep(o, op) for o, op in zip(model, ops)]
    return storegen.compare(ops, outs2, model2)


def correspondence(ctx):
    n_hist = ctx.budget(14, 120)
    steps = ctx.budget(75, 110)
    build = ctx.budget(30, 40)
    disagreements = []
    total = 0
    dist, errs, tally = {}, {}, {}
    seen = set()
    samples = []
    # corpus first: fixed scripts (minimised past defects / representative topologies)
    for ci, case in enumerate(core.load_corpus(PROP)):
        ops = case["ops"]
        outs = run_script(ctx, ops, "corpus%d" % ci)
        model = core.run_driver(PROP, [["reset"]] + ops)[1:]
        for k, op, m, i in compare(ops, outs, model):
            disagreements.append(Disagreement({"corpus": case.get("name", ci), "index": k, "op": op,
                                               "prefix": ops[:k + 1]}, m, i))
        total += len(ops)
    for h in range(n_hist):
        rng = random.Random("%s/%d/%d" % (PROP, ctx.seed, h))
        ops, outs, tl = run_history(ctx, rng, steps, build, "h%d" % h, reopen_prob=0.03)
        model = core.run_driver(PROP, [["reset"]] + ops)[1:]
        for k, op, m, i in compare(ops, outs, model):
            muts = [o for o in ops[:k + 1] if o[0] not in QUERIES]
            disagreements.append(Disagreement({"history": h, "index": k, "op": op,
                                               "prefix": muts + ([op] if op[0] in ("dump", "list", "role") else [])},
                                              m, i))
        total += len(ops)
        for k, v in tl.items():
            tally[k] = tally.get(k, 0) + v
        for op, o in zip(ops, outs):
            dist[op[0]] = dist.get(op[0], 0) + 1
            if "err" in o:
                errs[o["err"]] = errs.get(o["err"], 0) + 1
            if op[0] not in ("noop",) and ("err" in o or o.get("ok") not in (None, [], 0, False)):
                seen.add(core.canon(op))
        if h < 2:
            dels = [(op, o) for op, o in zip(ops, outs) if op[0] == "del"][:4]
            samples.append({"history": h, "ops": len(ops), "first_deletes": dels})
    return {"evaluations": total, "distinct_nontrivial": len(seen),
            "rule": "corpus scripts, then adaptive histories: ~30 build steps (create in every container kind incl. nested "
                    "sources / sections, one target appended to 2-4 link lists, one section as metadata of 2-4 entities, "
                    "one array as positions / extents / feature data of up to 3 tags, 10% copies within the file - array, "
                    "tag, multi-tag, section with / without children, property, block; 85% keeping ids, so that two "
                    "objects carry one entity_id) followed by churn (36% delete an "
                    "owned entity by name / id / index / negative index / object, 10% copy and, in 60% of these, "
                    "delete the original or the copy right away, 14% unlink, 11% clear metadata / "
                    "extents / link, rest create / link / malformed); link lists and role links of up to 6 survivors "
                    "and the HDF5-level dump of the whole file compared after every mutation; reopen at random. "
                    "non-trivial = distinct op (canonical JSON) whose result is an error or a non-empty value",
            "samples": samples, "distribution": {"ops": dist, "impl_errors": errs, "actions": tally},
            "disagreements": disagreements, "exhaustive": False}


# =======================================================================================
# oracle: walk difference on the implementation alone

CONT_PREFIX = {"data": "b:", "data_arrays": "/da:", "data_frames": "/df:", "groups": "/g:", "tags": "/t:",
               "multi_tags": "/mt:", "sources": "/src:", "metadata": "s:", "sections": "/s:", "properties": "/p:"}
OWN_FIELD = {"data": "blocks", "metadata": "sections", "properties": "props"}      # record field listing child names
ROLE_FIELDS = ("metadata", "positions", "extents", "data", "link")
LIST_FIELDS = ("data_arrays", "data_frames", "tags", "multi_tags", "sources", "references")
DIM_LINK_FIELDS = ("link", "ticks", "label", "unit", "labels")
DANGLING = "dangling"


class Impl4(Impl):
    """store protocol + two implementation-only ops used by the oracle's fixed cases"""

    def _run(self, op):
        if op[0].startswith("copy_"):   # copies within the file (protocol of Driver/C04.lean)
            try:
                return self._copy(op)
            except NameError:
                raise nixio.exceptions.DuplicateName("copy")
        if op[0] == "create_df":        # ["create_df", block path, name]
            self.nav(op[1]).create_data_frame(op[2], "t", col_dict={"x": int, "y": float})
            return None
        if op[0] == "dim_link":         # ["dim_link", array path, target array path]: range dimension linked to target
            da = self.nav(op[1])
            tgt = self.nav(op[2])
            if not isinstance(da, nixio.DataArray) or not isinstance(tgt, (nixio.DataArray, nixio.DataFrame)):
                raise BadOp("dim_link needs an array and an array / frame")
            rd = da.append_range_dimension()
            if isinstance(tgt, nixio.DataFrame):
                rd.link_data_frame(tgt, 0)
            else:
                rd.link_data_array(tgt, [-1])
            return None
        return super()._run(op)


def _impl4_copy(self, op):
    kind = op[0]
    if kind == "copy_block":            # ["copy_block", source block path, name, keep_id]
        _, sp, name, keep = op
        self.f.create_block(name=name, copy_from=self.nav(sp), keep_copy_id=keep)
        return None
    if kind == "copy_into":             # ["copy_into", dest block path, what, source path, name, keep_id]
        _, dp, what, sp, name, keep = op
        blk, src = self.nav(dp), self.nav(sp)
        if not isinstance(blk, nixio.Block):
            raise AttributeError("not a block")
        make = {"data_array": "create_data_array", "tag": "create_tag", "multi_tag": "create_multi_tag"}.get(what)
        if make is None:
            raise AttributeError(what)
        getattr(blk, make)(name=name, copy_from=src, keep_copy_id=keep)
        return None
    if kind == "copy_section":          # ["copy_section", dest section path | None, source path, children, keep, name]
        _, dp, sp, children, keep, name = op
        owner = self.f if dp is None else self.nav(dp)
        if not hasattr(owner, "copy_section"):
            raise AttributeError("copy_section")
        owner.copy_section(self.nav(sp), children=children, keep_id=keep, name=name)
        return None
    if kind == "copy_property":         # ["copy_property", dest section path, source property path, name, keep_id]
        _, dp, sp, name, keep = op
        sec = self.nav(dp)
        if not isinstance(sec, nixio.Section):
            raise AttributeError("not a section")
        sec.create_property(name=name, copy_from=self.nav(sp), keep_copy_id=keep)
        return None
    raise BadOp("unknown copy op")


Impl4._copy = _impl4_copy


def wpath(impl, spath):
    """walk path (DESIGN appendix A) of the entity at a store path"""
    out = ""
    i = 0
    while i < len(spath):
        cname, sel = spath[i], spath[i + 1]
        if cname == "features":
            out += "/f#%d" % (int(sel) + 1)
        else:
            ent = impl.nav(spath[:i + 2])
            out += CONT_PREFIX[cname] + json.dumps(ent.name, ensure_ascii=True)
        i += 2
    return out


def _addr(ent):
    """identity of the HDF5 object behind an entity (file-wide: all objects of a walk live in one file)"""
    try:
        h = ent._h5group
        obj = getattr(h, "group", None)
        if obj is None:
            obj = getattr(h, "dataset", None)
        if obj is None:
            return None
        return _h5addr(obj)
    except Exception:
        return None


def _h5addr(obj):
    info = h5py.h5o.get_info(obj.id)
    tok = getattr(info, "token", None)
    return bytes(tok).hex() if tok is not None else int(info.addr)


def addr_records(f):
    """for every record of `W.walk(f)`, in the same order: the identity of the entity's HDF5 object (`self`) and of
    the targets of its link lists / role links. Entities are told apart by what they *are*: after an id-keeping copy
    two of them carry the same id (and, in different parents, the same name)."""
    out = []

    def lst(o, attr):
        try:
            return [_addr(e) for e in getattr(o, attr)]
        except Exception:
            return None

    def role(o, attr):
        try:
            t = getattr(o, attr)
        except Exception:
            return None
        return None if t is None else _addr(t)

    def kids(o, attr):
        try:
            return list(getattr(o, attr))
        except Exception:
            return []

    def features(t):
        for ft in kids(t, "features"):
            out.append({"self": _addr(ft), "data": role(ft, "data")})

    def sources(o):
        for s_ in kids(o, "sources"):
            out.append({"self": _addr(s_), "metadata": role(s_, "metadata")})
            sources(s_)

    def sections(o, attr):
        for s_ in kids(o, attr):
            out.append({"self": _addr(s_), "link": role(s_, "link")})
            for p_ in kids(s_, "props"):
                out.append({"self": _addr(p_)})
            sections(s_, "sections")

    out.append({"self": None})
    for b in kids(f, "blocks"):
        out.append({"self": _addr(b), "metadata": role(b, "metadata")})
        for da in kids(b, "data_arrays"):
            out.append({"self": _addr(da), "sources": lst(da, "sources"), "metadata": role(da, "metadata")})
            for _ in kids(da, "dimensions"):
                out.append({"self": None})
        for df in kids(b, "data_frames"):
            out.append({"self": _addr(df), "metadata": role(df, "metadata")})
        for g in kids(b, "groups"):
            a = {"self": _addr(g), "metadata": role(g, "metadata")}
            for fld in ("data_arrays", "data_frames", "tags", "multi_tags", "sources"):
                a[fld] = lst(g, fld)
            out.append(a)
        for t in kids(b, "tags"):
            out.append({"self": _addr(t), "references": lst(t, "references"), "sources": lst(t, "sources"),
                        "metadata": role(t, "metadata")})
            features(t)
        for mt in kids(b, "multi_tags"):
            out.append({"self": _addr(mt), "references": lst(mt, "references"), "sources": lst(mt, "sources"),
                        "metadata": role(mt, "metadata"), "positions": role(mt, "positions"),
                        "extents": role(mt, "extents")})
            features(mt)
        sources(b)
    sections(f, "sections")
    return out


ADDR = "~a"


def the_walk(impl):
    """canonical walk + the target object of every dimension link (read from the HDF5 link, not through the
    accessor) + the object identities of `addr_records` under the key `~a` (bookkeeping only, never compared)"""
    recs = W.walk(impl.f)
    byp = {r["path"]: r for r in recs}
    try:
        for b in impl.f.blocks:
            for da in b.data_arrays:
                for i, d in enumerate(da.dimensions, 1):
                    p = "b:%s/da:%s/dim#%d" % (json.dumps(b.name), json.dumps(da.name), i)
                    tid = None
                    try:
                        if d.has_link:
                            grp = d.dimension_link._h5group.group
                            for nm in grp:
                                tid = _h5addr(grp[nm])
                    except Exception:
                        tid = None
                    if p in byp:
                        byp[p]["~link_target"] = tid
    except Exception:
        pass
    try:
        ann = addr_records(impl.f)
    except Exception:
        ann = None
    if ann is not None and len(ann) == len(recs):
        for r, a in zip(recs, ann):
            r[ADDR] = a
    return recs


def norm(recs):
    """role links that raise are `dangling` whatever the exception class"""
    out = []
    for r in recs:
        r = dict(r)
        for fld in ROLE_FIELDS:
            v = r.get(fld)
            if isinstance(v, dict) and "!" in v:
                r[fld] = DANGLING
        if r.get("kind") == "dimension":
            for fld in DIM_LINK_FIELDS:
                v = r.get(fld)
                if isinstance(v, dict) and "!" in v:
                    r[fld] = DANGLING
        out.append(r)
    return out


def same(exp, act):
    """record equality where an expected `dangling` also accepts None (the bookkeeping key `~a` is not compared)"""
    if set(exp) - {ADDR} != set(act) - {ADDR}:
        return False
    for k in exp:
        if k == ADDR or exp[k] == act[k]:
            continue
        if exp[k] == DANGLING and act[k] in (None, DANGLING):
            continue
        return False
    return True


def closure(w0, roots):
    """records at or below the given walk paths (ownership = path prefix)"""
    return [r for r in w0 if any(r["path"] == p or r["path"].startswith(p + "/") for p in roots)]


KIND_FIELD = {"b": "blocks", "da": "data_arrays", "df": "data_frames", "g": "groups", "t": "tags",
              "mt": "multi_tags", "src": "sources", "s": "sections", "p": "props"}


def parent_field(p):
    """(walk path of the owner, field of the owner's record that lists the entity, listed name)"""
    par, last = p.rsplit("/", 1) if "/" in p else ("/", p)
    if last.startswith("f#"):
        return par, "n_features", None
    pre, nm = last.split(":", 1)
    return par, KIND_FIELD[pre], json.loads(nm)


def expect_delete(w0, tpath, extra_roots=()):
    """the walk the property requires after deleting the entity at walk path `tpath`: the before-walk minus the
    entity and what it owns (path prefix), minus every link-list entry to one of those, role links to them dangling"""
    roots = [tpath] + list(extra_roots)
    D = closure(w0, roots)
    dpaths = {r["path"] for r in D}
    ids = {r["id"] for r in D if isinstance(r.get("id"), str)}
    # which links lead to a deleted entity is decided by object identity; by id only if the identities are missing
    by_obj = all(ADDR in r for r in w0)
    objs = {r[ADDR]["self"] for r in D if by_obj and r[ADDR].get("self") is not None}

    def hits(r, fld, ref, i=None):
        if by_obj:
            a = r[ADDR].get(fld)
            if i is not None:
                a = a[i] if isinstance(a, list) and i < len(a) else None
            return a is not None and a in objs
        return ref[0] in ids
    owners = [parent_field(p) for p in roots]
    feat_prefix, gone_no = None, 0
    if owners[0][1] == "n_features":
        feat_prefix = owners[0][0] + "/f#"
        gone_no = int(tpath[len(feat_prefix):])
    out = []
    for r in w0:
        if r["path"] in dpaths:
            continue
        r = copy.deepcopy(r)
        if feat_prefix and r["path"].startswith(feat_prefix):
            no = int(r["path"][len(feat_prefix):])
            if no > gone_no:
                r["path"] = "%s%d" % (feat_prefix, no - 1)
        for par, fld, nm in owners:
            if r["path"] == par:
                if fld == "n_features":
                    if isinstance(r.get(fld), int):
                        r[fld] -= 1
                elif isinstance(r.get(fld), list):
                    r[fld] = [x for x in r[fld] if x != nm]
        for fld in LIST_FIELDS:
            v = r.get(fld)
            if isinstance(v, list) and v and isinstance(v[0], list):
                r[fld] = [x for i, x in enumerate(v) if not hits(r, fld, x, i)]
        for fld in ROLE_FIELDS:
            v = r.get(fld)
            if isinstance(v, list) and len(v) == 2 and hits(r, fld, v):
                r[fld] = DANGLING
        if r.get("kind") == "dimension" and r.get("~link_target") is not None and r.get("~link_target") in objs:
            for fld in DIM_LINK_FIELDS:
                if fld in r:
                    r[fld] = DANGLING
            r["~link_target"] = None
        out.append(r)
    return out, ids, dpaths


def first_diff(exp, act):
    ea = {r["path"]: r for r in exp}
    aa = {r["path"]: r for r in act}
    for p in [r["path"] for r in exp] + [r["path"] for r in act if r["path"] not in ea]:
        e, a = ea.get(p), aa.get(p)
        if e is None:
            return {"path": p, "what": "entity still present / unexpected", "observed": _brief(a), "required": None}
        if a is None:
            return {"path": p, "what": "entity disappeared", "observed": None, "required": _brief(e)}
        if not same(e, a):
            flds = sorted(k for k in (set(e) | set(a)) - {ADDR} if e.get(k) != a.get(k)
                          and not (e.get(k) == DANGLING and a.get(k) in (None, DANGLING)))
            return {"path": p, "what": "fields differ: %s" % ",".join(flds),
                    "observed": {k: a.get(k) for k in flds[:4]}, "required": {k: e.get(k) for k in flds[:4]}}
    if [r["path"] for r in exp] != [r["path"] for r in act]:
        return {"path": "<order>", "what": "order of entities changed", "observed": [r["path"] for r in act][:12],
                "required": [r["path"] for r in exp][:12]}
    return None


def _brief(r):
    return {k: r[k] for k in ("path", "kind", "id", "name") if k in r}


def walks_equal(exp, act):
    return len(exp) == len(act) and all(e["path"] == a["path"] and same(e, a) for e, a in zip(exp, act))


class Checker:
    """executes store-protocol ops on the implementation; around every deletion / unlink / role clearing it takes
    the canonical walk before and after and compares with the walk the property requires"""

    def __init__(self, impl):
        self.impl = impl
        self.log = []
        self.failures = []
        self.checked = 0
        self.kinds = {}
        self.incomplete = None      # the op a fixed script could not address (script / navigation problem)

    def fail(self, what, d, site):
        self.failures.append(Failure(what + (": " + d["what"] + " at " + d["path"] if d else ""), list(self.log),
                                     d.get("observed") if d else None, d.get("required") if d else None, site))

    def target(self, op):
        """(entity, position) addressed by the key of a del op, found by iteration only; None if it addresses nothing"""
        cont = self.impl.container(self.impl.nav(op[1]), op[2])
        items = list(cont)
        k = op[3]
        if "p" in k:
            i = int(k["p"])
            if i < 0:
                i += len(items)
            return (items[i], i) if 0 <= i < len(items) else None
        if "o" in k:                # the entity object itself: found by what it is (a same-id copy is another one)
            ent = self.impl.nav(k["o"])
            a = _addr(ent)
            for i, it in enumerate(items):
                if a is not None and _addr(it) == a:
                    return it, i
            return None
        if "id" in k:               # the id as text: the first entry that carries it
            ent = self.impl.nav(k["id"])
            for i, it in enumerate(items):
                if it.id == ent.id:
                    return it, i
            return None
        nm = k["s"] if "s" in k else self.impl.nav(k["nameof"]).name
        by_name = [(it, i) for i, it in enumerate(items) if getattr(it, "name", None) == nm]
        by_id = [(it, i) for i, it in enumerate(items) if it.id == nm]      # an id given as text
        if by_name and by_id and by_name[0][1] != by_id[0][1]:
            return None     # the text names one entry and is the id of another: which one is addressed is C03's
        #                     subject (open finding name-equals-sibling-id), not fixed by this property
        if by_name:
            return by_name[0]
        if by_id:
            return by_id[0]
        return None

    def run(self, op):
        impl = self.impl
        kind = op[0]
        self.log.append(op)
        if kind == "reopen":
            impl.reopen("a")
            return {"ok": None}
        if kind == "del":
            return self.run_del(op)
        if kind == "set_role" and op[3] is None:
            return self.run_clear(op)
        return impl.run(op)

    def run_clear(self, op):
        impl = self.impl
        try:
            owner = impl.nav(op[1])
            opath = wpath(impl, op[1])
        except Exception:
            return impl.run(op)
        w0 = norm(the_walk(impl))
        out = impl.run(op)
        if "ok" not in out:
            return out
        w1 = norm(the_walk(impl))
        self.checked += 1
        self.kinds["clear " + op[2]] = self.kinds.get("clear " + op[2], 0) + 1
        exp = copy.deepcopy(w0)
        now = {r["path"]: r.get("updated_at") for r in w1}
        for r in exp:
            if r["path"] == opath and op[2] in r:
                r[op[2]] = None
                # the setter legitimately touches the owner's updated_at (C19's subject)
                if isinstance(now.get(opath), int) and isinstance(r.get("updated_at"), int) \
                        and now[opath] >= r["updated_at"]:
                    r["updated_at"] = now[opath]
        if not walks_equal(exp, w1):
            self.fail("clearing the %s link of %s changed more than that link" % (op[2], type(owner).__name__),
                      first_diff(exp, w1), "role-clear")
        return out

    def run_del(self, op):
        impl = self.impl
        foreign = False             # an entity object handed to a container that does not hold it
        try:
            owner = impl.nav(op[1])
            t = self.target(op)
            okind = "file" if isinstance(owner, nixio.File) else type(owner).__name__
            linkc = (not isinstance(owner, nixio.File)) and op[2] in ("data_arrays", "data_frames", "tags", "multi_tags",
                                                                     "sources", "references") \
                and not (isinstance(owner, nixio.Block)) and not (isinstance(owner, nixio.Source))
            opath = wpath(impl, op[1]) if op[1] else "/"
            tinfo = None
            by_obj = isinstance(op[3], dict) and "o" in op[3]
            if t is not None:
                ent, pos = t
                if linkc:
                    tinfo = (ent.id, getattr(ent, "name", None))
                else:
                    tinfo = wpath(impl, op[1] + [op[2], pos if op[2] == "features" else ent.name])
            elif by_obj:
                # the object is not a member. If the call is accepted, the entity deleted must be the one handed
                # over (wherever it lives) - not a member that happens to carry its name; a link list is keyed by
                # id: the entry carrying the object's id (an id-keeping copy of it), if there is one
                foreign = True
                ent = impl.nav(op[3]["o"])
                if linkc:
                    held = [it for it in impl.container(owner, op[2]) if it.id == ent.id]
                    tinfo = (ent.id, getattr(ent, "name", None)) if held else None
                else:
                    tinfo = wpath(impl, op[3]["o"])
        except BadOp:
            return impl.run(op)
        except Exception:
            return impl.run(op)
        w0 = norm(the_walk(impl))
        out = impl.run(op)
        if by_obj and "err" in out:
            # refused (wrong class, not linked here, ...): then nothing may have been deleted
            w1 = norm(the_walk(impl))
            self.checked += 1
            self.kinds["refused by object"] = self.kinds.get("refused by object", 0) + 1
            if not walks_equal(w0, w1):
                self.fail("del %s.%s[<entity object>] was refused (%s) but the file changed" % (okind, op[2], out["err"]),
                          first_diff(w0, w1), "refused-delete")
            return out
        if "ok" not in out or (t is None and not foreign):
            # a refused deletion by name / id / index is C12's subject; a key that addresses nothing here
            return out
        if foreign:
            self.kinds["by object, not a member"] = self.kinds.get("by object, not a member", 0) + 1
            if tinfo is None:       # accepted although the link list has no entry with that id: nothing to remove
                w1 = norm(the_walk(impl))
                self.checked += 1
                if not walks_equal(w0, w1):
                    self.fail("del %s.%s[<entity object not linked there>] was accepted and changed the file"
                              % (okind, op[2]), first_diff(w0, w1), "unlink")
                return out
        w1 = norm(the_walk(impl))
        self.checked += 1
        if linkc:
            self.kinds["unlink"] = self.kinds.get("unlink", 0) + 1
            exp = copy.deepcopy(w0)
            for r in exp:
                if r["path"] == opath and isinstance(r.get(op[2]), list):
                    r[op[2]] = [x for x in r[op[2]] if x[0] != tinfo[0]]
            if not walks_equal(exp, w1):
                self.fail("removing an entry from %s.%s changed more than that entry" % (okind, op[2]),
                          first_diff(exp, w1), "unlink")
            return out
        self.kinds["delete"] = self.kinds.get("delete", 0) + 1
        exp, ids, dpaths = expect_delete(w0, tinfo)
        if walks_equal(exp, w1):
            return out
        # say so when the difference is exactly "every object sharing an id with a deleted one went too" (the defect
        # repaired by `fix: deleting an entity also deleted every same-id copy file-wide`: a regression)
        twins = [r["path"] for r in w0 if r["path"] not in dpaths and r.get("id") in ids]
        if twins:
            exp2, _, _ = expect_delete(w0, tinfo, extra_roots=twins)
            if walks_equal(exp2, w1):
                self.fail("deleting %s also deleted the object(s) %s that carry the same entity_id (id-keeping copy)"
                          % (tinfo, twins), first_diff(exp, w1), "delete")
                return out
        self.fail("after deleting %s from %s.%s the file is not 'before minus the entity, what it owns and the links "
                  "to those'" % (tinfo, okind, op[2]), first_diff(exp, w1), "delete")
        return out


# -- fixed cases ------------------------------------------------------------------------------------------

B = ["data", "blk"]
B2 = ["data", "other"]


def _topology():
    a = B + ["data_arrays", "a"]
    keep = B + ["data_arrays", "keep"]
    ops = [["create_block", "blk", "t"], ["create_block", "other", "t"],
           ["create", B, "data_array", "a", "t", None], ["create", B, "data_array", "keep", "t", None],
           ["create", B2, "data_array", "a", "t", None],                     # same name in another block
           ["create", B, "group", "g", "t", None], ["create", B, "group", "g2", "t", None],
           ["create", B2, "group", "g", "t", None],
           ["create", B, "tag", "tg", "t", None], ["create", B, "multi_tag", "mt", "t", a],
           ["create", B, "multi_tag", "mt2", "t", keep],
           ["append", B + ["groups", "g"], "data_arrays", {"o": a}],
           ["append", B + ["groups", "g"], "data_arrays", {"o": keep}],
           ["append", B + ["groups", "g2"], "data_arrays", {"o": a}],
           ["append", B2 + ["groups", "g"], "data_arrays", {"o": B2 + ["data_arrays", "a"]}],
           ["append", B + ["tags", "tg"], "references", {"o": a}],
           ["append", B + ["multi_tags", "mt"], "references", {"o": a}],
           ["append", B + ["multi_tags", "mt2"], "references", {"o": keep}],
           ["set_role", B + ["multi_tags", "mt"], "extents", a],
           ["set_role", B + ["multi_tags", "mt2"], "extents", a],
           ["create_feature", B + ["tags", "tg"], keep, "tagged"],
           ["create_feature", B + ["tags", "tg"], a, "untagged"],
           ["create_feature", B + ["multi_tags", "mt2"], a, "indexed"],
           ["append", B + ["groups", "g"], "tags", {"o": B + ["tags", "tg"]}],
           ["append", B + ["groups", "g"], "multi_tags", {"o": B + ["multi_tags", "mt"]}],
           ["create_section", [], "sec", "t"], ["create_section", ["metadata", "sec"], "sub", "t"],
           ["create_section", ["metadata", "sec", "sections", "sub"], "leaf", "t"],
           ["create_section", [], "sub", "t"],                                 # same name at top level
           ["create_property", ["metadata", "sec", "sections", "sub"], "p"],
           ["create_property", ["metadata", "sec", "sections", "sub", "sections", "leaf"], "p"],
           ["set_role", a, "metadata", ["metadata", "sec", "sections", "sub"]],
           ["set_role", B, "metadata", ["metadata", "sec", "sections", "sub", "sections", "leaf"]],
           ["set_role", B2, "metadata", ["metadata", "sec"]],
           ["set_role", B2 + ["groups", "g"], "metadata", ["metadata", "sec", "sections", "sub"]],
           ["set_role", ["metadata", "sub"], "link", ["metadata", "sec", "sections", "sub", "sections", "leaf"]],
           ["create", B, "source", "src", "t", None], ["create", B + ["sources", "src"], "source", "deep", "t", None],
           ["create", B + ["sources", "src", "sources", "deep"], "source", "deeper", "t", None],
           ["create", B, "source", "deep", "t", None],                         # same name at top level
           ["append", a, "sources", {"o": B + ["sources", "src", "sources", "deep"]}],
           ["append", keep, "sources", {"o": B + ["sources", "src", "sources", "deep", "sources", "deeper"]}],
           ["append", keep, "sources", {"o": B + ["sources", "deep"]}],
           ["append", B + ["groups", "g"], "sources", {"o": B + ["sources", "src"]}],
           ["append", B + ["tags", "tg"], "sources", {"o": B + ["sources", "src", "sources", "deep", "sources", "deeper"]}],
           ["dim_link", keep, a],
           ["create_df", B, "frame"], ["create_df", B, "a"],                  # a frame named like the array
           ["append", B + ["groups", "g"], "data_frames", {"o": B + ["data_frames", "frame"]}],
           ["append", B + ["groups", "g2"], "data_frames", {"o": B + ["data_frames", "frame"]}],
           ["append", B + ["groups", "g"], "data_frames", {"o": B + ["data_frames", "a"]}],
           ["create_feature", B + ["tags", "tg"], B + ["data_frames", "frame"], "untagged"],
           ["set_role", B + ["data_frames", "frame"], "metadata", ["metadata", "sec", "sections", "sub"]]]
    return ops


def deep_cases():
    """subtree deletion where ONLY deep descendants (two or more levels below the deleted root; neither the root nor
    one of its direct children) are link targets: metadata links, Section.link, entries of sources lists. Every
    link into the subtree has to go with it, by every key form, for top-level and nested roots."""
    da, da2 = B + ["data_arrays", "da"], B2 + ["data_arrays", "da"]
    tg, grp, mt = B + ["tags", "tg"], B + ["groups", "grp"], B + ["multi_tags", "mt"]
    base = [["create_block", "blk", "t"], ["create_block", "other", "t"],
            ["create", B, "data_array", "da", "t", None], ["create", B2, "data_array", "da", "t", None],
            ["create", B, "tag", "tg", "t", None], ["create", B, "group", "grp", "t", None],
            ["create", B, "multi_tag", "mt", "t", da]]
    top, host = ["metadata", "top"], ["metadata", "host"]
    cases = []
    for root_owner, root_cont, how_root in (([], "metadata", "top-level"), (host, "sections", "nested")):
        root = root_owner + [root_cont, "top"]
        mid = root + ["sections", "mid"]
        leaf = mid + ["sections", "leaf"]
        tip = leaf + ["sections", "tip"]
        secs = base + [["create_section", [], "keep", "t"], ["create_section", [], "host", "t"],
                       ["create_section", root_owner, "top", "t"], ["create_section", root, "mid", "t"],
                       ["create_section", root, "mid2", "t"], ["create_section", mid, "leaf", "t"],
                       ["create_section", leaf, "tip", "t"], ["create_property", leaf, "p"],
                       ["create_section", [], "side", "t"], ["set_role", da2, "metadata", ["metadata", "keep"]]]
        links = (("metadata link to a grandchild", [["set_role", da, "metadata", leaf]]),
                 ("Section.link to a grandchild", [["set_role", ["metadata", "side"], "link", leaf]]),
                 ("metadata links and a Section.link to a grandchild and a great-grandchild",
                  [["set_role", da, "metadata", leaf], ["set_role", tg, "metadata", tip], ["set_role", B, "metadata", tip],
                   ["set_role", ["metadata", "side"], "link", tip],
                   ["set_role", ["metadata", "keep"], "link", leaf]]))
        keys = (({"s": "top"}, "name"), ({"id": root}, "id"), ({"p": -1 if root_cont == "sections" else 2}, "index"),
                ({"o": root}, "object"))
        for li, (lname, lops) in enumerate(links):
            for ki, (key, how) in enumerate(keys):
                if li < 2 and ki != (li + (0 if root_owner else 2)) % 4:
                    continue        # the single-link variants once per root position, with differing key forms
                cases.append(("%s section deleted by %s, its only links from outside: %s" % (how_root, how, lname),
                              secs + lops + [["del", root_owner, root_cont, key]]))
    for root_owner, how_root in ((B, "top-level"), (B + ["sources", "host"], "nested")):
        s0 = root_owner + ["sources", "s0"]
        s1 = s0 + ["sources", "s1"]
        s2 = s1 + ["sources", "s2"]
        s3 = s2 + ["sources", "s3"]
        skeep = B + ["sources", "skeep"]
        srcs = base + [["create", B, "source", "host", "t", None], ["create", B, "source", "skeep", "t", None],
                       ["create", root_owner, "source", "s0", "t", None], ["create", s0, "source", "s1", "t", None],
                       ["create", s0, "source", "s1b", "t", None], ["create", s1, "source", "s2", "t", None],
                       ["create", s2, "source", "s3", "t", None],
                       ["append", grp, "sources", {"o": skeep}]]
        links = (("one array's sources list holds a grandchild", [["append", da, "sources", {"o": s2}]]),
                 ("sources lists of an array, a tag, a multi-tag and a group hold a grandchild / great-grandchild",
                  [["append", da, "sources", {"o": s2}], ["append", da, "sources", {"o": skeep}],
                   ["append", tg, "sources", {"o": s2}], ["append", mt, "sources", {"o": s3}],
                   ["append", grp, "sources", {"o": s3}], ["append", grp, "sources", {"o": s2}]]))
        keys = (({"s": "s0"}, "name"), ({"id": s0}, "id"), ({"p": -1}, "index"), ({"o": s0}, "object"))
        for li, (lname, lops) in enumerate(links):
            for ki, (key, how) in enumerate(keys):
                if li == 0 and ki != (1 if root_owner == B else 3):
                    continue
                cases.append(("%s source deleted by %s: %s" % (how_root, how, lname),
                              srcs + lops + [["del", root_owner, "sources", key]]))
    return cases


def fixed_cases():
    a = B + ["data_arrays", "a"]
    topo = _topology()
    cases = deep_cases()
    for key, how in (({"s": "a"}, "name"), ({"id": a}, "id"), ({"p": 0}, "index"), ({"p": -2}, "negative index"),
                     ({"o": a}, "object")):
        cases.append(("shared array deleted by %s" % how, topo + [["del", B, "data_arrays", key]]))
    cases.append(("nested source subtree", topo + [["del", B, "sources", {"s": "src"}]]))
    cases.append(("inner source by object", topo + [["del", B + ["sources", "src"], "sources",
                                                     {"o": B + ["sources", "src", "sources", "deep"]}]]))
    cases.append(("section subtree with metadata links from two blocks",
                  topo + [["del", ["metadata", "sec"], "sections", {"s": "sub"}]]))
    cases.append(("top-level section by id", topo + [["del", [], "metadata", {"id": ["metadata", "sec"]}]]))
    cases.append(("block", topo + [["del", [], "data", {"s": "blk"}]]))
    cases.append(("tag with features", topo + [["del", B, "tags", {"p": 0}]]))
    cases.append(("multi-tag", topo + [["del", B, "multi_tags", {"o": B + ["multi_tags", "mt"]}]]))
    cases.append(("first feature of a tag", topo + [["del", B + ["tags", "tg"], "features", {"p": 0}]]))
    cases.append(("property", topo + [["del", ["metadata", "sec", "sections", "sub"], "properties", {"s": "p"}]]))
    cases.append(("group", topo + [["del", B, "groups", {"s": "g"}]]))
    cases.append(("data frame linked from two groups and a feature",
                  topo + [["del", B, "data_frames", {"s": "frame"}],
                          ["del", B + ["groups", "g"], "data_frames", {"p": 0}]]))
    cases.append(("unlink from group / tag / array sources",
                  topo + [["del", B + ["groups", "g"], "data_arrays", {"s": "a"}],
                          ["del", B + ["tags", "tg"], "references", {"p": 0}],
                          ["del", a, "sources", {"p": -1}],
                          ["del", B + ["groups", "g2"], "data_arrays", {"o": a}]]))
    # repaired defects (fix: 6067787, 2f88a3b): reproducers stay
    cases.append(("del metadata of an entity without other children (fixed 6067787)",
                  [["create_block", "blk", "t"], ["create", B, "group", "g", "t", None],
                   ["create_section", [], "s", "t"], ["set_role", B + ["groups", "g"], "metadata", ["metadata", "s"]],
                   ["set_role", B + ["groups", "g"], "metadata", None],
                   ["create", B, "source", "src", "t", None],
                   ["set_role", B + ["sources", "src"], "metadata", ["metadata", "s"]],
                   ["set_role", B + ["sources", "src"], "metadata", None],
                   ["set_role", B, "metadata", ["metadata", "s"]], ["set_role", B, "metadata", None]]))
    cases.append(("Section.link = None on a section whose only child is the link (fixed 2f88a3b)",
                  [["create_section", [], "s", "t"], ["create_section", [], "s2", "t"],
                   ["create_section", ["metadata", "s"], "inner", "t"],
                   ["set_role", ["metadata", "s", "sections", "inner"], "link", ["metadata", "s2"]],
                   ["set_role", ["metadata", "s", "sections", "inner"], "link", None],
                   ["set_role", ["metadata", "s2"], "link", ["metadata", "s"]],
                   ["set_role", ["metadata", "s2"], "link", None], ["set_role", ["metadata", "s2"], "link", None]]))
    cases.append(("extents cleared", topo + [["set_role", B + ["multi_tags", "mt"], "extents", None],
                                             ["set_role", B + ["multi_tags", "mt"], "extents", None]]))
    cases += foreign_cases(topo)
    cases += copy_cases(topo)
    return cases


def foreign_cases(topo):
    """`del container[obj]` with an entity object that is not a member of that container, which holds an entity of
    the same name (names reused in different parents): refused and nothing changes, or exactly the object handed
    over is deleted - its namesake, and every link to the namesake, stay"""
    a = B + ["data_arrays", "a"]
    sec = ["metadata", "sec"]
    sub = sec + ["sections", "sub"]
    deep = B + ["sources", "src", "sources", "deep"]
    cases = [
        ("array handed to the list of another block that holds a namesake",
         topo + [["del", B2, "data_arrays", {"o": a}]]),
        ("array of the other block handed to this block's list (namesake linked from groups, tags, features)",
         topo + [["del", B, "data_arrays", {"o": B2 + ["data_arrays", "a"]}]]),
        ("nested section handed to the file's section list that holds a namesake",
         topo + [["del", [], "metadata", {"o": sub}]]),
        ("top-level section handed to a nested section list that holds a namesake",
         topo + [["del", sec, "sections", {"o": ["metadata", "sub"]}]]),
        ("nested source handed to the block's source list that holds a namesake",
         topo + [["del", B, "sources", {"o": deep}]]),
        ("top-level source handed to a nested source list that holds a namesake",
         topo + [["del", B + ["sources", "src"], "sources", {"o": B + ["sources", "deep"]}]]),
        ("source handed to its own child list", topo + [["del", deep, "sources", {"o": deep}]]),
        ("property handed to the property list of another section that holds a namesake",
         topo + [["del", sub, "properties", {"o": sub + ["sections", "leaf", "properties", "p"]}]]),
        ("feature of a multi-tag handed to the feature list of a tag",
         topo + [["del", B + ["tags", "tg"], "features", {"o": B + ["multi_tags", "mt2", "features", 0]}]]),
        ("group handed to the group list of another block that holds a namesake",
         topo + [["del", B2, "groups", {"o": B + ["groups", "g"]}]]),
        ("array handed to link lists that do not link it, frame handed to the array list (refused)",
         topo + [["del", B2 + ["groups", "g"], "data_arrays", {"o": a}],
                 ["del", B + ["multi_tags", "mt2"], "references", {"o": a}],
                 ["del", B + ["groups", "g2"], "sources", {"o": B + ["sources", "deep"]}],
                 ["del", B, "data_arrays", {"o": B + ["data_frames", "a"]}],
                 ["del", B, "data_frames", {"o": a}]]),
        ("id-keeping copy under the same name in another block: the original handed to the copy's list",
         topo + [["copy_into", B2, "data_array", B + ["data_arrays", "keep"], "", True],
                 ["append", B2 + ["groups", "g"], "data_arrays", {"o": B2 + ["data_arrays", "keep"]}],
                 ["del", B2, "data_arrays", {"o": B + ["data_arrays", "keep"]}]]),
        ("id-keeping copy linked from a group of the other block: the original handed to that link list",
         topo + [["copy_into", B2, "data_array", B + ["data_arrays", "keep"], "", True],
                 ["append", B2 + ["groups", "g"], "data_arrays", {"o": B2 + ["data_arrays", "keep"]}],
                 ["del", B2 + ["groups", "g"], "data_arrays", {"o": B + ["data_arrays", "keep"]}]]),
    ]
    return cases


def copy_cases(topo):
    """repaired defect (fix: deleting an entity also deleted every same-id copy file-wide - delete_all matched
    entity_id; DESIGN D13): after an id-keeping copy, deleting on one side leaves the other side and every link to
    it alone. A regression is a VIOLATION again."""
    a = B + ["data_arrays", "a"]
    a2 = B + ["data_arrays", "a-copy"]
    sec = ["metadata", "sec"]
    sub = sec + ["sections", "sub"]
    cp_arr = topo + [["copy_into", B, "data_array", a, "a-copy", True],
                     ["create", B, "group", "g3", "t", None], ["create", B, "tag", "tg3", "t", None],
                     ["append", B + ["groups", "g3"], "data_arrays", {"o": a2}],
                     ["append", B + ["tags", "tg3"], "references", {"o": a2}],
                     ["create_feature", B + ["tags", "tg3"], a2, "untagged"],
                     ["set_role", B + ["multi_tags", "mt2"], "positions", a2]]
    cp_blk = topo + [["copy_block", B, "blk2", True]]
    cp_sec = topo + [["copy_section", None, sec, True, True, "sec-copy"],
                     ["set_role", B2 + ["data_arrays", "a"], "metadata", ["metadata", "sec-copy", "sections", "sub"]],
                     ["set_role", ["metadata", "sub"], "link", ["metadata", "sec-copy", "sections", "sub",
                                                                "sections", "leaf"]]]
    cases = [known_case()]
    for key, how in (({"s": "a"}, "name"), ({"o": a}, "object"), ({"p": 0}, "index"), ({"id": a}, "id")):
        cases.append(("id-keeping array copy linked from a group / tag / feature / positions, original deleted by %s"
                      % how, cp_arr + [["del", B, "data_arrays", key]]))
    for key, how in (({"s": "a-copy"}, "name"), ({"o": a2}, "object")):
        cases.append(("id-keeping array copy, the copy deleted by %s" % how, cp_arr + [["del", B, "data_arrays", key]]))
    cases.append(("id-keeping array copy in another block, original deleted",
                  topo + [["copy_into", B2, "data_array", a, "a-from-blk", True],
                          ["append", B2 + ["groups", "g"], "data_arrays", {"o": B2 + ["data_arrays", "a-from-blk"]}],
                          ["del", B, "data_arrays", {"o": a}]]))
    cases.append(("id-keeping block copy, an array / a tag / a source subtree / a group of the original deleted",
                  cp_blk + [["del", B, "data_arrays", {"s": "a"}], ["del", B, "tags", {"s": "tg"}],
                            ["del", B, "sources", {"s": "src"}], ["del", B, "groups", {"p": 0}]]))
    cases.append(("id-keeping block copy, entities of the copy deleted, then the copy",
                  cp_blk + [["del", ["data", "blk2"], "data_arrays", {"o": ["data", "blk2", "data_arrays", "a"]}],
                            ["del", ["data", "blk2"], "sources", {"s": "src"}],
                            ["del", ["data", "blk2"], "multi_tags", {"s": "mt"}],
                            ["del", [], "data", {"s": "blk2"}]]))
    cases.append(("id-keeping block copy, the original block deleted", cp_blk + [["del", [], "data", {"o": B}]]))
    cases.append(("id-keeping section copy with metadata links to both subtrees, original subtree deleted",
                  cp_sec + [["del", [], "metadata", {"s": "sec"}]]))
    cases.append(("id-keeping section copy, inner section of the original, then the copy deleted",
                  cp_sec + [["del", sec, "sections", {"o": sub}], ["del", [], "metadata", {"s": "sec-copy"}]]))
    # two sections with one id inside ONE subtree (copy beside the original), each linked from outside; the common
    # ancestor is deleted: the whole subtree and every link into it must go
    twin = sec + ["sections", "sub-twin"]
    cp_in = topo + [["copy_section", sec, sub, True, True, "sub-twin"],
                    ["set_role", B2 + ["data_arrays", "a"], "metadata", twin],
                    ["set_role", B + ["data_arrays", "keep"], "metadata", twin + ["sections", "leaf"]],
                    ["set_role", ["metadata", "sub"], "link", twin]]
    cases.append(("id-keeping section copy beside the original, both linked from outside, their parent deleted",
                  cp_in + [["del", [], "metadata", {"s": "sec"}]]))
    cases.append(("id-keeping section copy beside the original, the copy / the original deleted",
                  cp_in + [["del", sec, "sections", {"s": "sub-twin"}], ["del", sec, "sections", {"o": sub}]]))
    cases.append(("id-keeping property copy, original then copy deleted",
                  topo + [["copy_property", sub, sub + ["properties", "p"], "p2", True],
                          ["del", sub, "properties", {"s": "p"}],
                          ["copy_property", sec, sub + ["properties", "p2"], "p3", True],
                          ["del", sec, "properties", {"o": sec + ["properties", "p3"]}]]))
    return cases


def known_case():
    """the reproducer of the former known finding C04-delete-hits-same-id-copy (DESIGN D13: the id-keeping copy
    disappeared together with the original), now a fixed regression case"""
    return ("id-keeping copy of an array in the same block, original deleted (was C04-delete-hits-same-id-copy)",
            [["create_block", "blk", "t"], ["create", B, "data_array", "a", "t", None],
             ["create", B, "group", "g", "t", None],
             ["copy_into", B, "data_array", B + ["data_arrays", "a"], "a-copy", True],
             ["del", B, "data_arrays", {"s": "a"}]])


def check_script(ctx, ops, tag):
    path = ctx.tmpfile("c04-o-%s.nix" % tag)
    impl = Impl4(path, literal_uuid_names=(storegen.LIT_UUID,))
    ck = Checker(impl)
    try:
        for op in ops:
            if op[0] in QUERIES:
                continue
            out = ck.run(op)
            if "bad" in out:
                ck.incomplete = [op, out["bad"]]
                break
            if ck.failures:
                break
    finally:
        impl.close()
        try:
            os.remove(path)
        except OSError:
            pass
    return ck


def check_random(ctx, rng, steps, build, tag):
    path = ctx.tmpfile("c04-o-%s.nix" % tag)
    impl = Impl4(path, literal_uuid_names=(storegen.LIT_UUID,))
    ck = Checker(impl)
    gen = DelGen(rng, impl, build)

    # the generator drives the checker: every op goes through ck.run (queries pass straight through)
    class Via:
        def run(self_inner, op):
            if op[0] in ("get", "has", "len", "list", "role", "dump"):
                return Impl.run(impl, op)
            return ck.run(op)

        def __getattr__(self_inner, a):
            return getattr(impl, a)
    gen.impl = Via()
    try:
        for _ in range(steps):
            gen.step()
            if len(ck.failures) > 2:
                break
            if rng.random() < 0.04:
                impl.reopen("a")
                ck.log.append(["reopen"])
    finally:
        impl.close()
        try:
            os.remove(path)
        except OSError:
            pass
    return ck


def shrink(ctx, f, budget=150):
    """greedy one-op-at-a-time reduction of a failing script (same failure site must reproduce)"""
    ops = list(f.input)
    best = f
    runs = 0
    i = len(ops) - 2            # the last op is the failing call
    while i >= 0 and runs < budget:
        trial = ops[:i] + ops[i + 1:]
        ck = check_script(ctx, trial, "shrink")
        runs += 1
        hit = [x for x in ck.failures if x.site == f.site]
        if hit and len(hit[0].input) <= len(trial):
            ops = list(hit[0].input)
            best = hit[0]
            i = min(i, len(ops) - 1)
        i -= 1
    return best


def _dedup(failures):
    best = {}
    for f in failures:
        key = (f.what.split(":")[0][:60], f.site)
        if key not in best or len(core.canon(f.input)) < len(core.canon(best[key].input)):
            best[key] = f
    return list(best.values())


def oracle(ctx, broken, hints):
    failures = []
    evals = 0
    kinds = {}

    def take(ck):
        nonlocal evals
        evals += ck.checked
        for k, v in ck.kinds.items():
            kinds[k] = kinds.get(k, 0) + v
        failures.extend(ck.failures)

    incomplete = []
    for i, (name, ops) in enumerate(fixed_cases()):
        ck = check_script(ctx, ops, "f%d" % i)
        take(ck)
        if ck.incomplete:
            incomplete.append([name] + ck.incomplete)
    for i, h in enumerate(hints[:8]):
        if isinstance(h, dict) and h.get("prefix"):
            take(check_script(ctx, h["prefix"], "hint%d" % i))
    n = ctx.budget(8, 60) * (4 if broken else 1)
    steps = ctx.budget(70, 100)
    for k in range(n):
        rng = random.Random("C04-oracle/%d/%d" % (ctx.seed, k))
        take(check_random(ctx, rng, steps, ctx.budget(30, 40), "r%d" % k))
        if len(failures) > 8:
            break
    out = _dedup(failures)
    fresh = list(out)
    if fresh:       # minimise the first new failure: it becomes the replay file
        small = shrink(ctx, fresh[0])
        out = [small] + [f for f in out if f is not fresh[0]]
    return {"evaluations": evals, "failures": out, "scenarios": n, "checked": kinds,
            "fixed_cases": len(fixed_cases()), "fixed_cases_incomplete": incomplete}


def matches_known(entry, failure):
    # no open finding of this property has a class the oracle reports (C04-delete-hits-same-id-copy is fixed)
    return False


def reproduces(ctx, entry):
    return True


def replay_failure(ctx, fj):
    ops = fj.get("input")
    if not isinstance(ops, list):
        return None
    ck = check_script(ctx, ops, "replay")
    for f in ck.failures:
        if f.site == fj.get("site"):
            return f
    return ck.failures[0] if ck.failures else None
