"""C12 — dimension links: model (Pure/LinkWrite.lean run on the step lists of Generated/LinkOrder.lean) vs. nixio.

A case is one call of `link_data_array` / `link_data_frame` (on a set or a range dimension that holds labels / ticks
or is already linked) or of `append_range_dimension_using_self`, with the index in one of many spellings.  The
harness abstracts the offered index the way the model sees it - what the container can do and, per entry, what the
validations ask of it - by *probing the Python object* (len(), iter(), hasattr count, isinstance Sequence; per
entry isinstance / == -1 / < 0 / NumPy's dtype), runs the real call on a real file and compares: refused or not,
what the descriptor holds afterwards (ticks, the link: fresh or the previous one, complete or half-built, length
of the stored index / stored column), the number of descriptors, whether the array's updated_at moved.

`storable` of an entry is the storability of the whole list (NumPy gives `list(index)` a numeric element type),
which is what both the source and the model ask about.
"""
import array
import collections
import collections.abc
import decimal
import fractions

import h5py
import numpy as np
import nixio

from . import c12_respell as RS

FUNCTIONS = ["Dimension.link_data_array", "RangeDimension.link_data_array", "Dimension.link_data_frame",
             "RangeDimension.link_data_frame", "DataArray.append_range_dimension_using_self"]

ENTRY_POOL = [
    ("-1", lambda: -1), ("0", lambda: 0), ("1", lambda: 1), ("2", lambda: 2), ("-2", lambda: -2),
    ("-1.0", lambda: -1.0), ("0.5", lambda: 0.5), ("-0.5", lambda: -0.5), ("np.int64(-1)", lambda: np.int64(-1)),
    ("np.int8(0)", lambda: np.int8(0)), ("np.float32(-1)", lambda: np.float32(-1)), ("np.float64(1)", lambda: np.float64(1)),
    ("True", lambda: True), ("False", lambda: False), ("np.bool_(True)", lambda: np.bool_(True)),
    ("Fraction(-1)", lambda: fractions.Fraction(-1)), ("Fraction(0)", lambda: fractions.Fraction(0)),
    ("Decimal(-1)", lambda: decimal.Decimal(-1)), ("Decimal(1)", lambda: decimal.Decimal(1)),
    ("'-1'", lambda: "-1"), ("'a'", lambda: "a"), ("None", lambda: None), ("1j", lambda: 1j),
    ("complex(-1,0)", lambda: complex(-1, 0)), ("np.array(-1)", lambda: np.array(-1)), ("object()", lambda: object()),
    ("[-1]", lambda: [-1]), ("b'x'", lambda: b"x"), ("2**70", lambda: 2 ** 70), ("-2**70", lambda: -2 ** 70),
    ("nan", lambda: float("nan")), ("-inf", lambda: float("-inf")),
    ("IntSub(-1)", lambda: RS._IntSub(-1)), ("Indexable(-1)", lambda: RS._Indexable(-1)),
]
ENTRY_INDEX = dict(ENTRY_POOL)
# mostly well-formed content: exactly one -1, the rest small non-negative numbers
GOOD = ["-1", "0", "1", "2", "np.int64(-1)", "np.int8(0)", "-1.0", "np.float64(1)", "True", "False"]

CONTAINERS = ["list", "tuple", "ndarray", "ndarray-object", "deque", "array.array", "sequence-class", "iterable-class",
              "duck-class", "list-subclass", "generator", "iterator", "set", "dict-keys", "dict", "memoryview", "masked-array",
              "bytes", "str", "range", "none", "scalar", "np-scalar", "0-d"]


def build_container(kind, entries):
    """the entries in the container `kind`; None when that container cannot hold them"""
    try:
        if kind == "list":
            return list(entries)
        if kind == "tuple":
            return tuple(entries)
        if kind == "ndarray":
            a = np.array(entries)
            return a if a.ndim == 1 else None
        if kind == "ndarray-object":
            a = np.empty(len(entries), dtype=object)
            a[:] = entries
            return a
        if kind == "deque":
            return collections.deque(entries)
        if kind == "array.array":
            return array.array("d" if any(isinstance(e, float) for e in entries) else "q", entries)
        if kind == "sequence-class":
            return RS._Seq(entries)
        if kind == "iterable-class":
            return RS._IterOnly(entries)
        if kind == "duck-class":
            return RS._Duck(entries)
        if kind == "list-subclass":
            return RS._ListSub(entries)
        if kind == "generator":
            return (e for e in entries)
        if kind == "iterator":
            return iter(list(entries))
        if kind == "set":
            return set(entries)
        if kind == "dict-keys":
            return dict.fromkeys(entries).keys()
        if kind == "dict":
            return dict.fromkeys(entries)
        if kind == "memoryview":
            return memoryview(np.array(entries))
        if kind == "masked-array":
            return np.ma.masked_array(np.array(entries))
        if kind == "bytes":
            return bytes(entries)
        if kind == "str":
            return "".join(str(e) for e in entries)
        if kind == "range":
            ints = [int(e) for e in entries]
            return range(ints[0], ints[0] + len(ints)) if ints == list(range(ints[0], ints[0] + len(ints))) else None
        if kind == "none":
            return None
        if kind == "scalar":
            return entries[0]
        if kind == "np-scalar":
            return np.int64(entries[0])
        if kind == "0-d":
            return np.array(entries[0])
    except Exception:       # noqa
        return None
    return None


COLUMN_POOL = [("0", lambda: 0), ("1", lambda: 1), ("2", lambda: 2), ("5", lambda: 5), ("-1", lambda: -1),
               ("True", lambda: True), ("1.0", lambda: 1.0), ("np.int64(1)", lambda: np.int64(1)), ("'1'", lambda: "1"),
               ("None", lambda: None), ("[1]", lambda: [1]), ("Fraction(1)", lambda: fractions.Fraction(1)),
               ("IntSub(1)", lambda: RS._IntSub(1)), ("2**70", lambda: 2 ** 70), ("np.array(1)", lambda: np.array(1)),
               ("np.array([0])", lambda: np.array([0])), ("Indexable(1)", lambda: RS._Indexable(1)), ("(0,)", lambda: (0,))]
COLUMN_INDEX = dict(COLUMN_POOL)


def gen_case(rng):
    fn = rng.choice(FUNCTIONS)
    case = {"fn": fn, "state": None if fn.startswith("DataArray") else [rng.random() < 0.5, rng.random() < 0.5]}
    if "data_frame" in fn:
        case["column"] = rng.choice(COLUMN_POOL)[0] if rng.random() < 0.6 else rng.choice(["0", "1", "1", "2", "-1"])
        case["other_file"] = rng.random() < 0.15       # the frame offered lives in ANOTHER open file
        return case
    rank = rng.choice([1, 1, 2, 2, 3])
    case["rank"] = rank
    r = rng.random()
    n = rank if r < 0.8 else rng.choice([0, 1, 2, 3, 4])
    if r < 0.55:
        # well-formed content: one -1 (in some spelling), the rest non-negative
        ents = [rng.choice(["0", "1", "2", "np.int8(0)", "np.float64(1)", "True", "False"]) for _ in range(n)]
        if n:
            ents[rng.randrange(n)] = rng.choice(["-1", "-1", "np.int64(-1)", "-1.0", "np.float32(-1)", "Fraction(-1)",
                                                 "Decimal(-1)", "IntSub(-1)", "complex(-1,0)"])
    elif r < 0.8:
        ents = [rng.choice(GOOD) for _ in range(n)]
    else:
        ents = [rng.choice(ENTRY_POOL)[0] for _ in range(n)]
    case["entries"] = ents
    case["container"] = rng.choice(CONTAINERS) if rng.random() < 0.7 else rng.choice(["list", "tuple", "ndarray", "duck-class"])
    if not fn.startswith("DataArray"):
        case["other_file"] = rng.random() < 0.15       # the array offered lives in ANOTHER open file
    return case


def _entry_abs(e):
    plain = isinstance(e, (int, float, np.integer, np.floating))
    try:
        m1 = bool(e == -1)
    except Exception:       # noqa
        m1 = False
    try:
        neg, cmp_ok = bool(e < 0), True
    except Exception:       # noqa
        neg, cmp_ok = False, False
    try:
        storable = np.asarray([e]).dtype.kind in "iufcb" and np.asarray([e]).ndim == 1
        if storable and isinstance(e, int) and not isinstance(e, bool):
            np.asarray([e], dtype=np.int64)         # an integer beyond 64 bit has no HDF5 type
    except Exception:       # noqa
        storable = False
    return [plain, m1, neg, cmp_ok, bool(storable)]


def abstract_index(v):
    """([hasLen, iterable, hasCount, isSeq], [entry, ...]) of a Python value, by probing it"""
    try:
        len(v)
        has_len = True
    except Exception:       # noqa
        has_len = False
    try:
        entries = list(iter(v)) if not isinstance(v, (collections.abc.Iterator,)) else None
        iterable = True
    except Exception:       # noqa
        entries, iterable = [], False
    if entries is None:
        # a generator / iterator: probing it would exhaust it; the harness knows what it put in
        entries = []
    has_count = callable(getattr(v, "count", None))
    is_seq = isinstance(v, collections.abc.Sequence)
    return [has_len, iterable, has_count, is_seq], entries


def _value(case):
    """(the Python value offered, the entries the harness put into it)"""
    ents = [ENTRY_INDEX[k]() for k in case["entries"]]
    v = build_container(case["container"], ents)
    if v is None and case["fn"].startswith("DataArray"):
        # append_range_dimension_using_self(None): the default index, a list built before anything else
        ents = [-1] + [0] * (case["rank"] - 1)
        v = list(ents)
    return v, ents


def _list_storable(entries):
    try:
        return np.asarray(list(entries)).dtype.kind in "iufb"
    except Exception:       # noqa
        return False


def model_op(case):
    if "column" in case:
        v = COLUMN_INDEX[case["column"]]()
        is_int = isinstance(v, int)
        return ["link_run", case["fn"], [False, False, False, False], [], [is_int, int(v) if is_int else 0], 0, 2, case["state"],
                bool(case.get("other_file"))]
    v, ents = _value(case)
    caps, probed = abstract_index(v)
    if isinstance(v, collections.abc.Iterator):
        probed = ents
    st = _list_storable(probed)
    return ["link_run", case["fn"], caps, [_entry_abs(e)[:4] + [st] for e in probed], [False, 0], case["rank"], 0, case["state"],
            bool(case.get("other_file"))]


def applicable(case):
    if "column" in case:
        return True
    ents = [ENTRY_INDEX[k]() for k in case["entries"]]
    if case["container"] in ("scalar", "np-scalar", "0-d") and not ents:
        return False
    v = build_container(case["container"], ents)
    return v is not None or case["container"] == "none"


class Scene:
    """one file (and a second open file holding arrays / a frame of the same shapes, offered by the cases that say
    `other_file`); every case gets a fresh array with the descriptor in the state the case asks for"""

    def __init__(self, path):
        self.path = path
        self.f = nixio.File.open(path, nixio.FileMode.Overwrite)
        self.b = self.f.create_block("b", "t")
        self.targets = {1: self.b.create_data_array("t1", "t", data=[1.0, 2.0, 3.0]),
                        2: self.b.create_data_array("t2", "t", data=np.arange(6.0).reshape(2, 3)),
                        3: self.b.create_data_array("t3", "t", data=np.arange(8.0).reshape(2, 2, 2))}
        self.old = self.b.create_data_array("old", "t", data=[5.0, 6.0])
        self.df = self.b.create_data_frame("df", "t", col_dict={"a": int, "s": str}, data=[(1, "u"), (2, "v")])
        self.f2 = nixio.File.open(path + ".other.nix", nixio.FileMode.Overwrite)
        b2 = self.f2.create_block("b", "t")
        self.otargets = {1: b2.create_data_array("t1", "t", data=[1.0, 2.0, 3.0]),
                         2: b2.create_data_array("t2", "t", data=np.arange(6.0).reshape(2, 3)),
                         3: b2.create_data_array("t3", "t", data=np.arange(8.0).reshape(2, 2, 2))}
        self.odf = b2.create_data_frame("df", "t", col_dict={"a": int, "s": str}, data=[(1, "u"), (2, "v")])
        self.n = 0

    def close(self):
        for f in (self.f, self.f2):
            try:
                f.close()
            except Exception:       # noqa
                pass

    def _observe_dim(self, grp, old_id):
        """what the descriptor group holds, read with h5py"""
        out = {"ticks": "ticks" in grp, "link": None}
        if "link" in grp:
            lg = grp["link"]
            lid = lg.attrs.get("entity_id")
            lid = lid.decode() if isinstance(lid, bytes) else lid
            fresh = lid != old_id
            idx = lg.attrs.get("index")
            dot = lg.attrs.get("data_object_type")
            dot = dot.decode() if isinstance(dot, bytes) else dot
            complete = all(k in lg.attrs for k in ("entity_id", "data_object_type", "index", "created_at", "updated_at")) \
                and len(lg) == 1
            out["link"] = {"fresh": fresh, "complete": bool(complete)}
            if fresh:
                out["link"]["index"] = None if idx is None or dot != "DataArray" else int(np.size(idx))
                out["link"]["column"] = None if idx is None or dot != "DataFrame" else int(idx)
        return out

    def run(self, case):
        self.n += 1
        fn = case["fn"]
        if "column" in case:
            value = COLUMN_INDEX[case["column"]]()
        else:
            value = build_container(case["container"], [ENTRY_INDEX[k]() for k in case["entries"]])
        rank = case.get("rank", 1)
        name = "a%d" % self.n
        if fn.startswith("DataArray"):
            shape = {1: (3,), 2: (2, 3), 3: (2, 2, 2)}[rank]
            arr = self.b.create_data_array(name, "t", data=np.arange(float(np.prod(shape))).reshape(shape))
            arr.append_set_dimension(["x", "y"])
            call = lambda: arr.append_range_dimension_using_self(value)      # noqa
            dim_idx, old_id = 2, None
        else:
            arr = self.b.create_data_array(name, "t", data=np.arange(6.0).reshape(2, 3))
            arr.append_set_dimension(["x", "y"])
            ticks, linked = case["state"]
            if fn.startswith("RangeDimension"):
                dim = arr.append_range_dimension([1.0, 2.0, 3.0] if ticks else None)
            else:
                dim = arr.append_set_dimension(["p", "q", "r"] if ticks else None)
            old_id = None
            if linked:
                Base = nixio.dimensions.Dimension
                Base.link_data_array(dim, self.old, [-1])       # the base function: ticks / labels stay
                old_id = dim.dimension_link.id
            if "data_array" in fn:
                target = (self.otargets if case.get("other_file") else self.targets)[rank]
                call = lambda: dim.link_data_array(target, value)       # noqa
            else:
                frame = self.odf if case.get("other_file") else self.df
                call = lambda: dim.link_data_frame(frame, value)      # noqa
            dim_idx = 2
        h5arr = self.f._h5file["data/b/data_arrays/" + name]
        ndims0 = len(h5arr["dimensions"])
        stamp0 = h5arr.attrs.get("updated_at")
        ticks0 = "ticks" in h5arr["dimensions/2"] if not fn.startswith("DataArray") else None
        err = None
        try:
            call()
        except Exception as e:      # noqa
            err = "%s: %s" % (type(e).__name__, str(e)[:120])
        dims = h5arr["dimensions"]
        ndims1 = len(dims)
        if fn.startswith("DataArray"):
            dim_obs = self._observe_dim(dims["2"], None) if "2" in dims else None
        else:
            dim_obs = self._observe_dim(dims["2"], old_id)
            # set dimensions keep their labels whatever happens: the model's `ticks` is the range dimension's dataset
            if not fn.startswith("RangeDimension"):
                dim_obs["ticks"] = None
        out = {"refused": err is not None, "error": err, "dim": dim_obs, "ndims": ndims1 - ndims0,
               "touched": h5arr.attrs.get("updated_at") != stamp0, "ticks_before": ticks0}
        del self.b.data_arrays[name]
        return out


def canon_model(m, case):
    if "ok" not in m:
        return {"bad": m}
    r = m["ok"]
    dim = r["dim"]
    if dim is not None:
        dim = dict(dim)
        if not case["fn"].startswith(("RangeDimension", "DataArray")):
            dim["ticks"] = None
        if dim["link"] is not None and not dim["link"]["fresh"]:
            dim["link"] = {"fresh": False, "complete": dim["link"]["complete"]}
    base = 1 if case["state"] is None else 2
    return {"refused": r["err"] is not None, "dim": dim, "ndims": r["ndims"] - base, "touched": r["touched"]}


def canon_impl(i):
    return {"refused": i["refused"], "dim": i["dim"], "ndims": i["ndims"], "touched": i["touched"]}
