"""C12 — Section.create_property / Section[key] = values: model (Pure/PropCreate.lean run on
Generated/PropCreateOrder.lean) vs. nixio.

A case is a name from NAMES and values from VALUES.  The classes of the values (does the typing block accept them,
does `_make_h5_dtype` know the type, can the values be stored) are the harness table VALUES - chosen so that every
combination the code distinguishes occurs; the classes of the name are probed (isinstance, membership in the
section's property group read with h5py, nixio's own `check_entity_name`).  Compared: refused or not, the number of
properties of the section, the old property untouched, and for a new one: name / id / time stamps / values written.
"""
import numpy as np
import nixio
from nixio.util import util as nixutil

from . import c12_respell as RS

NAMES = [("'pnew'", lambda: "pnew"), ("'taken'", lambda: "taken"), ("''", lambda: ""), ("'a/b'", lambda: "a/b"),
         ("'a\\x00b'", lambda: "a\x00b"), ("'a\\udc80'", lambda: "a\udc80"), ("np.str_('pn2')", lambda: np.str_("pn2")),
         ("StrSub('pn3')", lambda: RS._StrSub("pn3")), ("5", lambda: 5), ("None", lambda: None), ("['x']", lambda: ["x"]),
         ("np.str_('taken')", lambda: np.str_("taken")), ("'caf\\xe9'", lambda: "caf\xe9")]
NAME_INDEX = dict(NAMES)
# label -> (factory, valuesOk, dtypeOk, valuesStorable)
VALUES = [
    ("[1, 2]", lambda: [1, 2], True, True, True), ("[1.5]", lambda: [1.5], True, True, True),
    ("'text'", lambda: "text", True, True, True), ("True", lambda: True, True, True, True), ("3", lambda: 3, True, True, True),
    ("['a', 'b']", lambda: ["a", "b"], True, True, True), ("DataType.Int64", lambda: nixio.DataType.Int64, True, True, True),
    ("DataType.String", lambda: nixio.DataType.String, True, True, True),
    ("[2**63]", lambda: [2 ** 63], True, True, False), ("[1, 2**70]", lambda: [1, 2 ** 70], True, True, False),
    ("['a\\x00b']", lambda: ["a\x00b"], True, True, False), ("['ok', 'a\\udc80']", lambda: ["ok", "a\udc80"], True, True, False),
    ("[]", lambda: [], False, True, True), ("None", lambda: None, False, True, True), ("[1, 'a']", lambda: [1, "a"], False, True, True),
    ("object()", lambda: object(), False, True, True), ("[None]", lambda: [None], False, True, True),
    ("np.array([1, 2], dtype=int32)", lambda: np.array([1, 2], dtype=np.int32), False, True, True),
    ("[1.0, 2]", lambda: [1.0, 2], False, True, True), ("{}", lambda: {}, False, True, True),
    ("(1, 2)", lambda: (1, 2), True, True, True), ("np.array([1.5, 2.5])", lambda: np.array([1.5, 2.5]), True, True, True),
]
VALUE_INDEX = {v[0]: v for v in VALUES}


def gen_case(rng):
    r = rng.random()
    return {"name": rng.choice(NAMES)[0] if r < 0.6 else rng.choice(["'pnew'", "'pnew'", "'taken'"]),
            "values": rng.choice(VALUES)[0], "via": rng.choice(["create_property", "create_property", "setitem"])}


class Scene:
    def __init__(self, path):
        self.f = nixio.File.open(path, nixio.FileMode.Overwrite)
        self.s = self.f.create_section("s", "t")
        self.s.create_property("taken", [7, 8])
        self.grp = self.f._h5file["metadata/s/properties"]
        self.old = self._attrs("taken")

    def close(self):
        try:
            self.f.close()
        except Exception:       # noqa
            pass

    def _attrs(self, key):
        d = self.grp[key]
        return (sorted((k, str(v)) for k, v in d.attrs.items()), d.shape, [int(x[0]) if hasattr(x, "__len__") else int(x)
                                                                          for x in d[...]] if key == "taken" else None)

    def _member(self, name):
        """(`name in <h5py group>` is defined, its answer)"""
        try:
            return True, bool(name in self.grp)
        except Exception:       # noqa
            return False, False

    def abstract(self, case):
        name = NAME_INDEX[case["name"]]()
        member_ok, taken = self._member(name)
        try:
            nixutil.check_entity_name(name)
            name_valid = True
        except Exception:       # noqa
            name_valid = False
        _, _, vok, dok, sok = VALUE_INDEX[case["values"]]
        return [member_ok, taken, name_valid, vok, dok, sok]

    def applicable(self, case):
        """Section[key] = v takes another path for an existing key (values assignment) and wraps non-lists"""
        if case["via"] == "setitem":
            name = NAME_INDEX[case["name"]]()
            if not isinstance(name, str) or self._member(name) != (True, False):
                return False
            v = VALUE_INDEX[case["values"]][1]()
            if not isinstance(v, list) or isinstance(v, nixio.DataType):
                return False
        return True

    def run(self, case):
        name = NAME_INDEX[case["name"]]()
        vals = VALUE_INDEX[case["values"]][1]()
        before = sorted(self.grp.keys())
        err = None
        try:
            if case["via"] == "setitem":
                self.s[name] = vals
            else:
                self.s.create_property(name, vals)
        except Exception as e:      # noqa
            err = "%s: %s" % (type(e).__name__, str(e)[:120])
        after = sorted(self.grp.keys())
        new = [k for k in after if k not in before]
        last = None
        if new:
            d = self.grp[new[0]]
            last = {"named": "name" in d.attrs, "id": "entity_id" in d.attrs,
                    "stamps": "created_at" in d.attrs and "updated_at" in d.attrs}
            for k in new:
                del self.grp[k]
        return {"refused": err is not None, "error": err, "items": len(after), "old_kept": "taken" in after and
                self._attrs("taken") == self.old, "last": last}


def canon_model(m):
    if "ok" not in m:
        return {"bad": m}
    r = m["ok"]
    last = None if r["last"] is None else {k: v for k, v in r["last"].items() if k != "values"}
    return {"refused": r["err"] is not None, "items": r["items"], "old_kept": r["old_kept"], "last": last}


def canon_impl(i):
    return {"refused": i["refused"], "items": i["items"], "old_kept": i["old_kept"], "last": i["last"]}
