"""C14 — the compiled guards against the real conditions.

`harness/extract/validator_guards.py` compiles the conditions of validator.py's report sites into PyGuard expressions
(Lean).  Here the SAME conditions (the Python AST nodes the translator compiled) are evaluated by the Python interpreter
on the real nixio objects of a file, and the values the reads return are rendered as typed Python values for the model
driver (`["guards", function, {read path: value}]`), which evaluates the compiled expressions under `PyGuard.eval`.
Agreement on every object = the translation and the Lean semantics of truthiness / and / or / comparisons / len /
generators are those of the interpreter on the values nixio really returns (tuples of numpy floats, Enum members,
DataArray objects with __len__ ...).
"""
import ast
import enum
import json
import math
from fractions import Fraction

import numpy as np

from ..extract import validator_guards as _exg
from ..lib import core

TUPLE_KIND = {"tag.units": "strs", "mtag.units": "strs", "dim.labels": "strs", "refs_units": "strss",
              "da.shape": "ints", "positions.shape": "ints", "mtag.extents.shape": "ints",
              "tag.references[].shape": "intss", "mtag.references[].shape": "intss"}


def read_path(p, g, ns):
    """the value of a read: a dotted path, or `<path>[].<attr>` = that attribute of every item of the iterable"""
    if "[]." in p:
        base, attr = p.split("[].", 1)
        out = []
        for item in eval(base, g, ns):
            for a in attr.split("."):
                item = getattr(item, a)
            out.append(item)
        return out
    return eval(p, g, ns)


class Skip(Exception):
    """a value outside the model's value types (NaN, nested objects)"""


_CACHE = {}


def analysis():
    """{function: {"sites": [(identifier, [(code object, negated)])], "reads": [path]}} for the tree under check"""
    key = core.REPO
    if key not in _CACHE:
        _tree, _fns, comp, per_fn, _loops, order = _exg.analyse(core.REPO)
        by_ctor = {_exg.read_ctor(p): p for p in comp.reads}
        out = {}
        for fn in order:
            sites = []
            used = []
            for (ident, pyconds), (_i, leanconds) in zip(per_fn[fn]["py"], per_fn[fn]["ok"]):
                codes = []
                for node, neg in pyconds:
                    e = ast.Expression(body=node)
                    ast.fix_missing_locations(e)
                    codes.append((compile(e, "<validator guard>", "eval"), neg))
                sites.append((ident, codes))
                for c in leanconds:
                    for tok in c.replace("(", " ").replace(")", " ").split():
                        if tok.startswith(".") and tok[1:] in by_ctor and by_ctor[tok[1:]] not in used:
                            used.append(by_ctor[tok[1:]])
            out[fn] = {"sites": sites, "reads": used}
        _CACHE[key] = out
    return _CACHE[key]


def _frac(x):
    fr = Fraction(float(x))
    return "%d/%d" % (fr.numerator, fr.denominator)


def to_val(path, x):
    if x is None:
        return None
    if isinstance(x, (bool, np.bool_)):
        return ["bool", bool(x)]
    if isinstance(x, enum.Enum):
        return ["enum", "%s.%s" % (type(x).__name__, x.name)]
    if isinstance(x, (type, np.dtype)):
        return ["enum", str(x)]             # DataArray.data_type is a NumPy dtype: truthy (although its len is 0)
    if isinstance(x, (int, np.integer)):
        return ["int", int(x)]
    if isinstance(x, (float, np.floating)):
        if not math.isfinite(x):
            raise Skip()
        return ["rat", _frac(x)]
    if isinstance(x, bytes):
        return ["str", x.decode()]
    if isinstance(x, str):
        return ["str", x]
    if isinstance(x, (tuple, list)):
        kind = TUPLE_KIND.get(path)
        if kind is None:
            kind = "strs" if x and all(isinstance(e, (str, bytes)) for e in x) else "rats"
        if kind == "strss":
            return ["strss", [[to_val("", u)[1] for u in ru] for ru in x]]
        if kind == "intss":
            return ["intss", [[int(e) for e in sh] for sh in x]]
        if kind == "strs":
            return ["strs", [to_val("", u)[1] for u in x]]
        if kind == "ints":
            return ["ints", [int(e) for e in x]]
        vals = []
        for e in x:
            if not isinstance(e, (int, float, np.integer, np.floating)) or not math.isfinite(e):
                raise Skip()
            vals.append(_frac(e))
        return ["rats", vals]
    if isinstance(x, np.ndarray):
        raise Skip()
    if hasattr(x, "__len__"):
        if bool(x) != (len(x) != 0):
            raise Skip()
        return ["sized", len(x)]
    raise Skip()


def _globals():
    import nixio
    from nixio.util import units
    from nixio.dimension_type import DimensionType
    from nixio.link_type import LinkType
    import nixio.validator as V
    g = {k: v for k, v in vars(V).items() if callable(v) and not k.startswith("_")}      # the verdict helpers
    g.update({"units": units, "DimensionType": DimensionType, "LinkType": LinkType})
    return g


def py_fired(sites, ns, g):
    """the identifiers whose conditions the interpreter finds true, in source order; {"err": class} when it raises"""
    out = []
    scope = dict(g)
    scope.update(ns)        # one namespace: a generator expression does not see the `locals` of eval()
    for ident, codes in sites:
        fire = True
        for code, neg in codes:
            t = bool(eval(code, scope))
            if neg:
                t = not t
            if not t:
                fire = False
                break
        if fire:
            out.append(ident)
    return out


def one(fn, ns, g, out, stats):
    """append (driver case, interpreter result) for function fn on the namespace ns"""
    an = analysis().get(fn)
    if an is None:
        return
    env = {}
    try:
        for p in an["reads"]:
            try:
                v = read_path(p, g, ns)
            except (AttributeError, NameError, KeyError, RuntimeError, ValueError, TypeError, IndexError):
                continue            # absent: reads as None in the model; the interpreter must not need it either
            env[p] = to_val(p, v)
    except Skip:
        stats["skipped"] = stats.get("skipped", 0) + 1
        return
    try:
        res = {"ok": py_fired(an["sites"], ns, g)}
    except TypeError:
        res = {"err": "TypeError"}
    except Exception:
        stats["raised"] = stats.get("raised", 0) + 1      # a read raises: outside the value-level comparison
        return
    out.append((["guards", fn, env], res))
    stats[fn] = stats.get(fn, 0) + 1


def _items(container):
    for h5 in container._backend:
        try:
            yield container._inst_item(h5)
        except ValueError:
            continue


def collect(f, stats):
    """[(driver case, interpreter result)] for every object of the open nix file f"""
    from nixio.validator import get_dim_units
    g = _globals()
    out = []
    try:
        fcr = f.created_at
    except KeyError:
        fcr = None
    one("check_file", {"file_created_at": fcr}, g, out, stats)

    def feats(t):
        for i, ft in enumerate(_items(t.features)):
            one("check_feature", {"feat": ft, "idx": i}, g, out, stats)

    def sources(parent):
        for s in _items(parent.sources):
            one("check_entity", {"entity": s}, g, out, stats)
            sources(s)

    def sections(parent):
        for s in _items(parent.sections):
            one("check_entity", {"entity": s}, g, out, stats)
            for i, p in enumerate(_items(s.props)):
                one("check_property", {"prop": p, "idx": i}, g, out, stats)
            sections(s)

    for b in _items(f.blocks):
        one("check_entity", {"entity": b}, g, out, stats)
        for grp in _items(b.groups):
            one("check_entity", {"entity": grp}, g, out, stats)
        for da in _items(b.data_arrays):
            one("check_entity", {"entity": da}, g, out, stats)
            try:
                pairs = list(enumerate(zip(da.dimensions, da.shape), 1))
            except Exception:
                pairs = []
            for idx, (dim, datalen) in pairs:
                one("check_data_array", {"da": da, "idx": idx, "dim": dim, "datalen": datalen}, g, out, stats)
                k = dim.dimension_type.value
                if k == "range":
                    one("check_range_dimension", {"dim": dim, "idx": idx}, g, out, stats)
                elif k == "sample":
                    one("check_sampled_dimension", {"dim": dim, "idx": idx}, g, out, stats)
        for t in _items(b.tags):
            one("check_entity", {"entity": t}, g, out, stats)
            ns = {"tag": t}
            try:
                # the locals of check_tag (their assignments are pinned by C14_guards_locals)
                ns["posdim"] = len(t.position)
                if t.extent:
                    ns["extlen"] = len(t.extent)
                if t.references:
                    ns["refs_units"] = [get_dim_units(da) for da in t.references]
            except Exception:
                pass
            one("check_tag", ns, g, out, stats)
            feats(t)
        for t in _items(b.multi_tags):
            one("check_entity", {"entity": t}, g, out, stats)
            ns = {"mtag": t}
            try:
                try:
                    ns["positions"] = t.positions
                except RuntimeError:
                    ns["positions"] = None
                try:
                    # the locals of check_multi_tag (their assignments are pinned by C14_guards_locals)
                    if ns["positions"] is not None:
                        shp = ns["positions"].shape
                        ns["posdim"] = 1 if len(shp) == 1 else shp[1]
                    if t.extents:
                        shp = t.extents.shape
                        ns["extdim"] = 1 if len(shp) == 1 else shp[1]
                    if t.references:
                        ns["refs_units"] = [get_dim_units(da) for da in t.references]
                except Exception:
                    pass
                one("check_multi_tag", ns, g, out, stats)
            except Exception:
                stats["raised"] = stats.get("raised", 0) + 1    # the linked positions array is refused by the API
            feats(t)
        sources(b)
    sections(f)
    return out


def dedup(pairs):
    seen = set()
    out = []
    for case, res in pairs:
        k = json.dumps(case, sort_keys=True)
        if k not in seen:
            seen.add(k)
            out.append((case, res))
    return out
