"""C12 — respellings of a VALID argument.

The spelling pool of c12_sweep.py offers values that are mostly wrong for the argument they are given to.  A
multi-argument mutator can also be refused half-way because ONE argument arrives in an unusual but well-formed
spelling: the same numbers in a tuple / ndarray / generator instead of a list, the enum member's text instead of the
member, a NumPy scalar instead of a Python number, the entity's id instead of the entity ...  Such a value passes
the first check (its content is right) and may fail a later one (its container type is not) - after the first write.

Every function here takes the valid value `v` of one argument (whatever the call table of c12_sweep.py declares)
and returns the same content in another spelling, or raises NotApplicable.  Nothing is said about which spellings
nixio must accept: the statement checked is the property's (refused => file unchanged).
"""
import array
import collections
import collections.abc
import decimal
import enum
import fractions
import types
import uuid

import numpy as np
import nixio


class NotApplicable(Exception):
    pass


def _need(cond):
    if not cond:
        raise NotApplicable()


def _is_num(v):
    return isinstance(v, (int, float, np.integer, np.floating)) and not isinstance(v, (bool, np.bool_))


def _is_seq(v):
    return isinstance(v, (list, tuple))


def _numseq(v):
    _need(_is_seq(v) and len(v) > 0 and all(_is_num(x) for x in v))
    return list(v)


def _intseq(v):
    v = _numseq(v)
    _need(all(float(x) == int(x) for x in v))
    return [int(x) for x in v]


def _strseq(v):
    _need(_is_seq(v) and len(v) > 0 and all(isinstance(x, str) for x in v))
    return list(v)


def _anyseq(v):
    _need(_is_seq(v) and len(v) > 0)
    return list(v)


def _num(v):
    _need(_is_num(v))
    return v


def _int(v):
    _need(_is_num(v) and float(v) == int(v))
    return int(v)


def _str(v):
    _need(isinstance(v, str) and not isinstance(v, enum.Enum))
    return v


def _enum(v):
    _need(isinstance(v, enum.Enum))
    return v


def _entity(v):
    _need(hasattr(v, "_h5group") and hasattr(v, "id"))
    return v


def _dtype(v):
    """a Python / NumPy scalar type, np.dtype or nixio.DataType member's type"""
    if isinstance(v, np.dtype):
        return v
    _need(isinstance(v, type) and (v in (int, float, str, bool, bytes) or issubclass(v, np.generic)))
    return np.dtype(v)


def _ndarray(v):
    _need(isinstance(v, np.ndarray))
    return v


def _rows(v):
    _need(_is_seq(v) and len(v) > 0 and all(isinstance(r, tuple) for r in v))
    return list(v)


def _mapping(v):
    _need(isinstance(v, dict) and len(v) > 0)
    return v


class _Seq(collections.abc.Sequence):
    """a Sequence that is neither list nor tuple"""

    def __init__(self, items):
        self._items = list(items)

    def __len__(self):
        return len(self._items)

    def __getitem__(self, i):
        return self._items[i]


class _IterOnly:
    """iterable with a length, not a Sequence, no count / index"""

    def __init__(self, items):
        self._items = list(items)

    def __len__(self):
        return len(self._items)

    def __iter__(self):
        return iter(self._items)


class _Duck:
    """everything a list offers to read it (len, iteration, indexing, count, index), but neither a list nor a
    registered Sequence"""

    def __init__(self, items):
        self._items = list(items)

    def __len__(self):
        return len(self._items)

    def __iter__(self):
        return iter(self._items)

    def __getitem__(self, i):
        return self._items[i]

    def count(self, x):
        return self._items.count(x)

    def index(self, x):
        return self._items.index(x)


class _ListSub(list):
    pass


class _IntSub(int):
    pass


class _FloatSub(float):
    pass


class _StrSub(str):
    pass


class _Indexable:
    """a number only through __index__ / __int__ / __float__"""

    def __init__(self, n):
        self._n = n

    def __index__(self):
        return int(self._n)

    def __int__(self):
        return int(self._n)

    def __float__(self):
        return float(self._n)


class _Stringy:
    def __init__(self, s):
        self._s = s

    def __str__(self):
        return self._s


class _Map(collections.abc.Mapping):
    def __init__(self, d):
        self._d = dict(d)

    def __getitem__(self, k):
        return self._d[k]

    def __iter__(self):
        return iter(self._d)

    def __len__(self):
        return len(self._d)


def _refetch(ent):
    """a second Python object for the same stored entity"""
    par = getattr(ent, "_parent", None)
    _need(par is not None)
    for attr in ("data_arrays", "data_frames", "tags", "multi_tags", "groups", "sources", "sections", "props", "blocks"):
        cont = getattr(par, attr, None)
        if cont is None:
            continue
        try:
            other = cont[ent.name]
        except Exception:       # noqa
            continue
        if type(other) is type(ent) and other.id == ent.id:
            return other
    raise NotApplicable()


def _respellings():
    R = []

    def add(label, fn):
        R.append(("re:" + label, fn))
    # --- sequences of numbers (index vectors, shapes, positions, ticks, coefficients, row indices)
    add("numseq:tuple", lambda v, c: tuple(_numseq(v)))
    add("numseq:list", lambda v, c: list(_numseq(v)))
    add("numseq:list-subclass", lambda v, c: _ListSub(_numseq(v)))
    add("numseq:ndarray", lambda v, c: np.array(_numseq(v)))
    add("numseq:ndarray-i8", lambda v, c: np.array(_intseq(v), dtype=np.int64))
    add("numseq:ndarray-i1", lambda v, c: np.array(_intseq(v), dtype=np.int8))
    add("numseq:ndarray-f8", lambda v, c: np.array(_numseq(v), dtype=np.float64))
    add("numseq:ndarray-f4", lambda v, c: np.array(_numseq(v), dtype=np.float32))
    add("numseq:ndarray-object", lambda v, c: np.array(_numseq(v), dtype=object))
    add("numseq:ndarray-str", lambda v, c: np.array([str(x) for x in _numseq(v)]))
    add("numseq:ndarray-1xn", lambda v, c: np.array(_numseq(v)).reshape(1, -1))
    add("numseq:ndarray-nx1", lambda v, c: np.array(_numseq(v)).reshape(-1, 1))
    add("numseq:ndarray-strided", lambda v, c: np.repeat(np.array(_numseq(v)), 2)[::2])
    add("numseq:generator", lambda v, c: (x for x in _numseq(v)))
    add("numseq:iterator", lambda v, c: iter(_numseq(v)))
    add("numseq:deque", lambda v, c: collections.deque(_numseq(v)))
    add("numseq:array.array", lambda v, c: array.array("d" if any(isinstance(x, float) for x in _numseq(v)) else "q",
                                                       _numseq(v)))
    add("numseq:sequence-class", lambda v, c: _Seq(_numseq(v)))
    add("numseq:iterable-class", lambda v, c: _IterOnly(_numseq(v)))
    add("numseq:duck-class", lambda v, c: _Duck(_numseq(v)))
    add("numseq:int-subclasses", lambda v, c: [_IntSub(x) for x in _intseq(v)])
    add("numseq:dict-keys", lambda v, c: dict.fromkeys(_numseq(v)).keys())
    add("numseq:floats", lambda v, c: [float(x) for x in _intseq(v)])
    add("numseq:ints", lambda v, c: _intseq(v) if any(isinstance(x, float) for x in v) else _need(False))
    add("numseq:np-ints", lambda v, c: [np.int64(x) for x in _intseq(v)])
    add("numseq:np-int8s", lambda v, c: [np.int8(x) for x in _intseq(v)])
    add("numseq:np-floats", lambda v, c: [np.float64(x) for x in _numseq(v)])
    add("numseq:np-float32s", lambda v, c: [np.float32(x) for x in _numseq(v)])
    add("numseq:strs", lambda v, c: [str(x) for x in _numseq(v)])
    add("numseq:fractions", lambda v, c: [fractions.Fraction(x) for x in _numseq(v)])
    add("numseq:decimals", lambda v, c: [decimal.Decimal(x) for x in _numseq(v)])
    add("numseq:complex", lambda v, c: [complex(x, 0) for x in _numseq(v)])
    add("numseq:index-objects", lambda v, c: [_Indexable(x) for x in _numseq(v)])
    add("numseq:nested", lambda v, c: [_numseq(v)])
    add("numseq:tuple-of-np", lambda v, c: tuple(np.int64(x) for x in _intseq(v)))
    add("numseq:range", lambda v, c: (lambda s: range(s[0], s[-1] + 1) if s == list(range(s[0], s[-1] + 1)) else _need(False))(
        _intseq(v)))
    add("numseq:scalar-of-single", lambda v, c: _numseq(v)[0] if len(v) == 1 else _need(False))
    add("numseq:0-d-of-single", lambda v, c: np.array(_numseq(v)[0]) if len(v) == 1 else _need(False))
    add("numseq:bytes-of-ints", lambda v, c: bytes(_intseq(v)) if all(0 <= x < 256 for x in _intseq(v)) else _need(False))
    add("numseq:set", lambda v, c: set(_numseq(v)))
    add("numseq:memoryview", lambda v, c: memoryview(np.array(_numseq(v))))
    add("numseq:bools", lambda v, c: [bool(x) for x in _intseq(v)] if all(x in (0, 1) for x in _intseq(v)) else _need(False))
    # --- single numbers (column index, axis, sampling interval, offset, time, cell value)
    add("num:np-int64", lambda v, c: np.int64(_int(v)))
    add("num:np-int8", lambda v, c: np.int8(_int(v)) if -128 <= _int(v) < 128 else _need(False))
    add("num:np-uint8", lambda v, c: np.uint8(_int(v)) if 0 <= _int(v) < 256 else _need(False))
    add("num:np-float64", lambda v, c: np.float64(_num(v)))
    add("num:np-float32", lambda v, c: np.float32(_num(v)))
    add("num:np-longdouble", lambda v, c: np.longdouble(_num(v)))
    add("num:float-of-int", lambda v, c: float(_int(v)) if not isinstance(v, float) else _need(False))
    add("num:int-of-float", lambda v, c: _int(v) if isinstance(v, float) else _need(False))
    add("num:bool", lambda v, c: bool(_int(v)) if _int(v) in (0, 1) else _need(False))
    add("num:fraction", lambda v, c: fractions.Fraction(_num(v)))
    add("num:decimal", lambda v, c: decimal.Decimal(_num(v)))
    add("num:complex", lambda v, c: complex(_num(v), 0))
    add("num:str", lambda v, c: str(_num(v)))
    add("num:bytes", lambda v, c: str(_num(v)).encode())
    add("num:0-d", lambda v, c: np.array(_num(v)))
    add("num:ndarray-1", lambda v, c: np.array([_num(v)]))
    add("num:list-1", lambda v, c: [_num(v)])
    add("num:tuple-1", lambda v, c: (_num(v),))
    add("num:index-object", lambda v, c: _Indexable(_num(v)))
    add("num:int-subclass", lambda v, c: _IntSub(_int(v)))
    add("num:float-subclass", lambda v, c: _FloatSub(_num(v)))
    # --- text (names, types, units, labels, column names, link types given as text)
    add("str:np-str", lambda v, c: np.str_(_str(v)))
    add("str:subclass", lambda v, c: _StrSub(_str(v)))
    add("str:bytes", lambda v, c: _str(v).encode())
    add("str:np-bytes", lambda v, c: np.bytes_(_str(v).encode()))
    add("str:bytearray", lambda v, c: bytearray(_str(v).encode()))
    add("str:list-1", lambda v, c: [_str(v)])
    add("str:tuple-1", lambda v, c: (_str(v),))
    add("str:0-d", lambda v, c: np.array(_str(v)))
    add("str:0-d-object", lambda v, c: np.array(_str(v), dtype=object))
    add("str:ndarray-1", lambda v, c: np.array([_str(v)]))
    add("str:stringy-object", lambda v, c: _Stringy(_str(v)))
    add("str:upper", lambda v, c: _str(v).upper() if _str(v).upper() != v else _need(False))
    add("str:title", lambda v, c: _str(v).title() if _str(v).title() != v else _need(False))
    add("str:padded", lambda v, c: " " + _str(v) + " ")
    add("str:chars", lambda v, c: list(_str(v)) if len(_str(v)) > 1 else _need(False))
    # --- enum members (LinkType, DataType, Compression, DimensionType ...)
    add("enum:value", lambda v, c: _enum(v).value)
    add("enum:name", lambda v, c: _enum(v).name)
    add("enum:value-upper", lambda v, c: str(_enum(v).value).upper())
    add("enum:value-title", lambda v, c: str(_enum(v).value).title())
    add("enum:value-lower", lambda v, c: str(_enum(v).value).lower())
    add("enum:value-np-str", lambda v, c: np.str_(_enum(v).value) if isinstance(_enum(v).value, str) else _need(False))
    add("enum:value-bytes", lambda v, c: _enum(v).value.encode() if isinstance(_enum(v).value, str) else _need(False))
    add("enum:qualified-name", lambda v, c: str(_enum(v)))
    add("enum:list-1", lambda v, c: [_enum(v)])
    add("enum:value-type-instance", lambda v, c: (_enum(v).value(1) if isinstance(_enum(v).value, type) else _need(False)))
    add("enum:value-dtype", lambda v, c: (np.dtype(_enum(v).value) if isinstance(_enum(v).value, type) else _need(False)))
    add("enum:value-dtype-name", lambda v, c: (np.dtype(_enum(v).value).name if isinstance(_enum(v).value, type)
                                               else _need(False)))
    # --- element types (dtype arguments, column types)
    add("dtype:np-dtype", lambda v, c: _dtype(v) if not isinstance(v, np.dtype) else _need(False))
    add("dtype:np-type", lambda v, c: _dtype(v).type)
    add("dtype:name", lambda v, c: _dtype(v).name)
    add("dtype:str", lambda v, c: _dtype(v).str)
    add("dtype:char", lambda v, c: _dtype(v).char)
    add("dtype:python-type", lambda v, c: {"f": float, "i": int, "U": str, "b": bool, "S": bytes}.get(_dtype(v).kind)
        or _need(False))
    add("dtype:python-type-name", lambda v, c: ({"f": "float", "i": "int", "U": "str", "b": "bool"}.get(_dtype(v).kind)
                                                or _need(False)))
    add("dtype:nix-datatype", lambda v, c: next((m for m in nixio.DataType if isinstance(m.value, type) and
                                                 np.dtype(m.value) == _dtype(v)), None) or _need(False))
    add("dtype:instance", lambda v, c: _dtype(v).type(1))
    add("dtype:other-byte-order", lambda v, c: _dtype(v).newbyteorder(">") if _dtype(v).kind in "fiu" else _need(False))
    add("dtype:smaller", lambda v, c: np.dtype(_dtype(v).kind + "2") if _dtype(v).kind in "fiu" else _need(False))
    add("dtype:list-1", lambda v, c: [_dtype(v)])
    # --- sequences of text (labels, units, column names)
    add("strseq:tuple", lambda v, c: tuple(_strseq(v)))
    add("strseq:ndarray", lambda v, c: np.array(_strseq(v)))
    add("strseq:ndarray-object", lambda v, c: np.array(_strseq(v), dtype=object))
    add("strseq:ndarray-bytes", lambda v, c: np.array([x.encode() for x in _strseq(v)]))
    add("strseq:generator", lambda v, c: (x for x in _strseq(v)))
    add("strseq:np-strs", lambda v, c: [np.str_(x) for x in _strseq(v)])
    add("strseq:bytes", lambda v, c: [x.encode() for x in _strseq(v)])
    add("strseq:dict-keys", lambda v, c: dict.fromkeys(_strseq(v)).keys())
    add("strseq:dict", lambda v, c: dict.fromkeys(_strseq(v)))
    add("strseq:set", lambda v, c: set(_strseq(v)))
    add("strseq:sequence-class", lambda v, c: _Seq(_strseq(v)))
    add("strseq:iterable-class", lambda v, c: _IterOnly(_strseq(v)))
    add("strseq:duck-class", lambda v, c: _Duck(_strseq(v)))
    add("strseq:joined", lambda v, c: ",".join(_strseq(v)))
    add("strseq:nested", lambda v, c: [_strseq(v)])
    add("strseq:ndarray-nx1", lambda v, c: np.array(_strseq(v)).reshape(-1, 1))
    add("strseq:single-of-single", lambda v, c: _strseq(v)[0] if len(v) == 1 else _need(False))
    # --- any non-empty list / tuple (lists of entities, of types, mixed)
    add("seq:tuple", lambda v, c: tuple(_anyseq(v)) if not isinstance(v, tuple) else _need(False))
    add("seq:list", lambda v, c: list(_anyseq(v)) if not isinstance(v, list) else _need(False))
    add("seq:generator", lambda v, c: (x for x in _anyseq(v)))
    add("seq:ndarray-object", lambda v, c: (lambda a, s: (a.__setitem__(slice(None), s), a)[1])(
        np.empty(len(_anyseq(v)), dtype=object), _anyseq(v)))
    add("seq:sequence-class", lambda v, c: _Seq(_anyseq(v)))
    add("seq:duck-class", lambda v, c: _Duck(_anyseq(v)))
    add("seq:reversed", lambda v, c: list(reversed(_anyseq(v))) if len(v) > 1 else _need(False))
    add("seq:doubled", lambda v, c: _anyseq(v) + _anyseq(v))
    add("seq:first-only", lambda v, c: _anyseq(v)[:1] if len(v) > 1 else _need(False))
    # --- ndarrays (array data, columns)
    add("ndarray:list", lambda v, c: _ndarray(v).tolist())
    add("ndarray:tuple", lambda v, c: tuple(_ndarray(v).tolist()))
    add("ndarray:f4", lambda v, c: _ndarray(v).astype(np.float32) if _ndarray(v).dtype.kind in "fiu" else _need(False))
    add("ndarray:i8", lambda v, c: _ndarray(v).astype(np.int64) if _ndarray(v).dtype.kind in "fiu" else _need(False))
    add("ndarray:object", lambda v, c: _ndarray(v).astype(object))
    add("ndarray:str", lambda v, c: _ndarray(v).astype(str))
    add("ndarray:complex", lambda v, c: _ndarray(v).astype(complex) if _ndarray(v).dtype.kind in "fiu" else _need(False))
    add("ndarray:fortran", lambda v, c: np.asfortranarray(_ndarray(v)) if _ndarray(v).ndim > 1 else _need(False))
    add("ndarray:transposed", lambda v, c: _ndarray(v).T.copy().T if _ndarray(v).ndim > 1 else _need(False))
    add("ndarray:memoryview", lambda v, c: memoryview(np.ascontiguousarray(_ndarray(v))))
    add("ndarray:flat", lambda v, c: _ndarray(v).ravel() if _ndarray(v).ndim > 1 else _need(False))
    add("ndarray:extra-axis", lambda v, c: _ndarray(v)[np.newaxis])
    add("ndarray:masked", lambda v, c: np.ma.masked_array(_ndarray(v)))
    add("ndarray:datetime", lambda v, c: _ndarray(v).astype("int64").astype("datetime64[s]")
        if _ndarray(v).dtype.kind in "fiu" else _need(False))
    # --- table rows (list of tuples)
    add("rows:lists", lambda v, c: [list(r) for r in _rows(v)])
    add("rows:tuple-of-tuples", lambda v, c: tuple(_rows(v)))
    add("rows:generator", lambda v, c: (r for r in _rows(v)))
    add("rows:object-array", lambda v, c: np.array([list(r) for r in _rows(v)], dtype=object))
    add("rows:str-array", lambda v, c: np.array([list(r) for r in _rows(v)]))
    add("rows:single-row", lambda v, c: _rows(v)[0])
    add("rows:dicts", lambda v, c: [dict(enumerate(r)) for r in _rows(v)])
    add("rows:np-scalars", lambda v, c: [tuple(np.int64(x) if isinstance(x, int) else np.str_(x) if isinstance(x, str) else x
                                               for x in r) for r in _rows(v)])
    add("rows:floats-for-ints", lambda v, c: [tuple(float(x) if isinstance(x, int) else x for x in r) for r in _rows(v)])
    add("rows:bytes-for-str", lambda v, c: [tuple(x.encode() if isinstance(x, str) else x for x in r) for r in _rows(v)])
    # --- mappings (column dictionaries)
    add("map:ordered", lambda v, c: collections.OrderedDict(_mapping(v)))
    add("map:proxy", lambda v, c: types.MappingProxyType(dict(_mapping(v))))
    add("map:mapping-class", lambda v, c: _Map(_mapping(v)))
    add("map:pairs", lambda v, c: list(_mapping(v).items()))
    add("map:np-dtypes", lambda v, c: {k: np.dtype(x) if isinstance(x, type) and x is not str else x
                                       for k, x in _mapping(v).items()})
    add("map:type-names", lambda v, c: {k: x.__name__ if isinstance(x, type) else x for k, x in _mapping(v).items()})
    add("map:nix-datatypes", lambda v, c: {k: {int: nixio.DataType.Int64, float: nixio.DataType.Double,
                                               str: nixio.DataType.String}.get(x, x) for k, x in _mapping(v).items()})
    add("map:np-str-keys", lambda v, c: {np.str_(k): x for k, x in _mapping(v).items()})
    add("map:bytes-keys", lambda v, c: {k.encode() if isinstance(k, str) else k: x for k, x in _mapping(v).items()})
    add("map:instances", lambda v, c: {k: x(1) if isinstance(x, type) else x for k, x in _mapping(v).items()})
    # --- entities (link targets, copy sources, items of link lists)
    add("entity:id", lambda v, c: _entity(v).id)
    add("entity:name", lambda v, c: _entity(v).name)
    add("entity:uuid-object", lambda v, c: uuid.UUID(_entity(v).id))
    add("entity:id-bytes", lambda v, c: _entity(v).id.encode())
    add("entity:id-upper", lambda v, c: _entity(v).id.upper())
    add("entity:second-handle", lambda v, c: _refetch(_entity(v)))
    add("entity:list-1", lambda v, c: [_entity(v)])
    add("entity:tuple-1", lambda v, c: (_entity(v),))
    add("entity:h5group", lambda v, c: _entity(v)._h5group)
    add("entity:data-read", lambda v, c: np.array(_entity(v)[:]) if hasattr(_entity(v), "write_direct") else _need(False))
    # --- booleans and None-able flags
    add("bool:int", lambda v, c: int(v) if isinstance(v, bool) else _need(False))
    add("bool:np-bool", lambda v, c: np.bool_(v) if isinstance(v, bool) else _need(False))
    add("bool:str", lambda v, c: str(v) if isinstance(v, bool) else _need(False))
    add("bool:none", lambda v, c: None if isinstance(v, bool) else _need(False))
    return R


RESPELLINGS = _respellings()
RESPELL_INDEX = dict(RESPELLINGS)


def respell(label, valid, c):
    """the valid value in the spelling `label`; NotApplicable when that spelling does not exist for this value"""
    out = RESPELL_INDEX[label](valid, c)
    if out is None and not label.endswith(":none"):
        raise NotApplicable()
    return out
