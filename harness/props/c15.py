"""C15 — calibration is applied on every read and never touches the stored values
(nixio/data_array.py _read_data + setters, nixio/util/util.py apply_polynomial, nixio/data_view.py)."""
import os
import warnings
from fractions import Fraction

import numpy as np

from ..lib import core
from ..lib.core import Failure, Disagreement
from ..extract import calibshape as _ex

PROP = "C15"
LEAN_MODULE = "NixModel.Props.C15"
THEOREMS = [
    "Nix.C15.C15_formula",
    "Nix.C15.C15_formula_coeffs",
    "Nix.C15.C15_formula_origin_only",
    "Nix.C15.C15_gather_map",
    "Nix.C15.C15_commutes",
    "Nix.C15.C15_view_reads_through",
    "Nix.C15.C15_raw_untouched",
    "Nix.C15.C15_raw_only_writes",
    "Nix.C15.C15_setters",
    "Nix.C15.C15_no_calibration_identity",
    "Nix.C15.C15_clear_restores",
    "Nix.C15.C15_whole",
    "Nix.C15.C15_commutes_whole",
    "Nix.C15.C15_view_formula",
    "Nix.C15.C15_invalid_view_empty",
    "Nix.C15.C15_read_total",
    "Nix.C15.C15_float_bound",
    "Nix.C15.C15_float_bound_linear",
    "Nix.C15.C15_float_bound_origin_only",
    "Nix.C15.C15_float_bound_inexact_raw",
    # the generated statement lists of the source (Generated/CalibShape.lean) compute the model functions
    "Nix.C15.C15_shape_read_data",
    "Nix.C15.C15_shape_view_read",
    "Nix.C15.C15_shape_setters",
    "Nix.C15.C15_shape_entry_points",
    "Nix.C15.C15_generated_read_formula",
    "Nix.C15.C15_result_dtype",
    "Nix.C15.C15_zero_polynomial",
    "Nix.C15.C15_constant_polynomial",
    "Nix.C15.C15_trailing_zeros",
    "Nix.C15.C15_identity_polynomial",
    "Nix.C15.C15_refused_changes_nothing",
    "Nix.C15.C15_last_assignment_wins",
    "Nix.C15.C15_write_then_read",
    "Nix.C15.C15_link_values_raw",
]
ASSUMPTIONS = [
    "values that are doubles in Python are exact rationals in the model: astype(double) is the identity and the "
    "rounding of the float Horner evaluation is not part of the read-path model; the correspondence demands equality "
    "whenever every float operation on the element's path is exact (checked in Fractions) and otherwise the bound "
    "sum|c_k|((|y|+d)^k-|y|^k) + 4*(2n+1)*2^-53*sum|c_k|(|y|+d)^k, d = 2^-53|x| if x is not a double; for d = 0 that "
    "bound is implied by theorem C15_float_bound_linear under the standard model of IEEE arithmetic (each operation "
    "returns exact*(1+delta), |delta| <= 2^-53, no overflow/underflow)",
    "coefficients / origins are finite real numbers in the model (NaN / inf coefficients and complex origins are "
    "outside model and generators; nested, 2-D, text and complex coefficient values are modelled as refused); stored "
    "elements that are NaN, +-inf, -0.0, subnormal or huge are outside the rational model and are exercised by the "
    "implementation-side oracle only",
    "ticks of a range dimension linked to the array (DimensionLink.values) read the HDF5 dataset directly: they are "
    "raw values whatever the calibration (theorem C15_link_values_raw; the property's read paths do not include it)",
    "several Python objects for one array (a second kept object, a fresh one per operation, views made from any of "
    "them) read and write the same model state: nixio keeps no calibration state per object (C02's handle-state "
    "translator proves that for every entity class; here the correspondence exercises it)",
    "the h5py hyperslab read is the stand-in `select`+`gather` (integer and slice items, row-major); Ellipsis, "
    "index lists and masks are exercised by the implementation-side oracle only",
    "without stored coefficients a non-zero origin calibrates with the documented default polynomial {0, 1} (x - o)",
    "the window of a tag / multi-tag / feature read is taken from the DataView the implementation returns "
    "(computing it is C08's subject)",
]
TRUSTED_EXTRA = ["numpy.polynomial.polynomial.polyval is modelled as its documented Horner loop; h5py selection "
                 "semantics as a row-major gather",
                 "harness/extract/calibshape.py (ast): renders the statement lists of DataArray._read_data, "
                 "util.apply_polynomial, DataView._read_data, the calibration setters / getters and the DataSet entry "
                 "points; the meaning of each statement is the interpreter in Pure/CalibPrim.lean; H5Group.write_data "
                 "(converts before it resizes), get_data, set_attr / get_attr and np.ndim are stand-ins"]

# (F) anchor fingerprints — budget steering only (DESIGN 2.3): a changed hash is neither an alarm nor a tie,
# it doubles the quick correspondence budget
ANCHORS = {
    "nixio/data_array.py": {"_read_data": "e0cec47ff1b457d0", "polynom_coefficients": "ea9ff9b1c3a0b229",
                            "expansion_origin": "7b96ebea7ae5eeb0"},
    "nixio/util/util.py": {"apply_polynomial": "864ca2484ced393a", "check_attr_type": "ca867a6ddee28c6a"},
    "nixio/data_view.py": {"__init__": "09c7372ec9e74543", "_read_data": "309a3fa4d9c8303a",
                           "_transform_coordinates": "4ac7056dc3691b70", "_expand_user_slices": "9d2db724a93ff4de"},
    "nixio/data_set.py": {"__array__": "c2196c70266ca071", "__getitem__": "366a4419c930506b",
                          "_read_data": "055f75cc8e035ef2"},
}


def extract(repo):
    """(T) statement lists of DataArray._read_data, util.apply_polynomial, DataView._read_data, the calibration
    setters / getters and the DataSet entry points -> NixModel/Generated/CalibShape.lean"""
    return _ex.extract(repo)


def changed_anchors():
    out = []
    for rel, want in ANCHORS.items():
        got = core.func_fingerprint(rel, set(want))
        for name, h in want.items():
            if got.get(name) != h:
                out.append("%s:%s" % (rel, name))
    return out


DTYPES = ["uint8", "uint16", "uint32", "uint64", "int8", "int16", "int32", "int64", "float32", "float64", "bool"]
U = Fraction(1, 2 ** 53)


# ---------------------------------------------------------------------------------------
# numbers


def rat(x):
    fr = Fraction(x)
    return "%d/%d" % (fr.numerator, fr.denominator)


def frac(s):
    if isinstance(s, int):
        return Fraction(s)
    n, _, d = s.partition("/")
    return Fraction(int(n), int(d or 1))


def np_to_frac(x):
    """exact value of a numpy / python scalar"""
    if isinstance(x, (bool, np.bool_)):
        return Fraction(int(x))
    if isinstance(x, (int, np.integer)):
        return Fraction(int(x))
    f = float(x)
    if f != f or f in (float("inf"), float("-inf")):
        return None
    return Fraction(f)


def rat_or_special(x):
    fr = np_to_frac(x)
    return repr(float(x)) if fr is None else rat(fr)


def is_double(fr):
    try:
        return Fraction(float(fr)) == fr
    except OverflowError:
        return False


def poly_exact(cs, o, x):
    """sum c_k (x-o)^k (monomial form, not Horner); no coefficients: the default {0,1}"""
    y = x - o
    if not cs:
        return y
    return sum((c * y ** k for k, c in enumerate(cs)), Fraction(0))


def float_path_exact(cs, o, x):
    """is every float operation on the element's path (astype, subtract, Horner) exact?"""
    if not (is_double(x) and is_double(o)):
        return False
    y = x - o
    if not is_double(y):
        return False
    if not cs:
        return True
    acc = cs[-1]
    for c in reversed(cs[:-1]):
        t = acc * y
        if not is_double(t):
            return False
        acc = c + t
        if not is_double(acc):
            return False
    return True


def float_bound(cs, o, x):
    """stated bound on |float result - exact value| (DESIGN section 5)"""
    y = abs(x - o)
    d = Fraction(0) if is_double(x) else abs(x) * U
    eff = cs if cs else [Fraction(0), Fraction(1)]
    big = y + d
    pert = sum((abs(c) * (big ** k - y ** k) for k, c in enumerate(eff)), Fraction(0))
    cond = sum((abs(c) * big ** k for k, c in enumerate(eff)), Fraction(0))
    ops = 2 * len(eff) + 1
    return pert + 4 * ops * U * cond + Fraction(ops, 2 ** 1070)


def value_ok(got, want, cs, o, x):
    """got: Fraction or None (nan/inf); want: exact Fraction"""
    if got is None:
        return False, "non-finite"
    if got == want:
        return True, "exact"
    if float_path_exact(cs, o, x):
        return False, "exact-path"
    return (abs(got - want) <= float_bound(cs, o, x)), "bounded"


# ---------------------------------------------------------------------------------------
# case format  (see lean/Driver/C15.lean)


def py_item(it):
    if isinstance(it, list):
        return slice(it[0], it[1], it[2])
    return it


def py_index(ix, how):
    if ix is None:
        return None
    items = tuple(py_item(i) for i in ix)
    if how == "bare" and len(items) == 1:
        return items[0]
    return items


def py_number(r, kind):
    fr = frac(r)
    if kind == "int":
        return int(fr)
    if kind == "bool":
        return bool(int(fr))
    if kind == "float32":
        return np.float32(float(fr))
    if kind == "int8":
        return np.int8(int(fr))
    if kind == "npfloat64":
        return np.float64(float(fr))
    return float(fr)


def py_coeff_arg(arg):
    if arg is None:
        return None
    if arg[0] == "scalar":
        return py_number(arg[1], arg[2] if len(arg) > 2 else "float")
    if arg[0] == "notflat":         # something with a length that is not a flat sequence
        n, kind = int(arg[1]), (arg[2] if len(arg) > 2 else "nested")
        if kind == "str":
            return "a" * n
        if kind == "dict":
            return {k: 1.0 for k in range(n)}
        if kind == "nd2":
            return np.ones((n, 2))
        if kind == "nd3":
            return np.ones((n, 1, 1))
        return [[1.0, 2.0] for _ in range(n)] if n else ()
    if arg[0] == "badelems":        # flat, but an element is no real number
        n = int(arg[2]) if len(arg) > 2 else 1
        if arg[1] == "complex":
            return [1.0] * (n - 1) + [1 + 2j]
        return [1.0] * (n - 1) + ["x"]
    cs = [frac(c) for c in arg[1]]
    cont = arg[2] if len(arg) > 2 else "list"
    numkind = arg[3] if len(arg) > 3 else "float"
    vals = [int(c) if (numkind == "int" and c.denominator == 1) else float(c) for c in cs]
    if cont == "tuple":
        return tuple(vals)
    if cont == "ndarray":
        return np.array(vals, dtype=float)
    if cont == "ndarray_int":
        return np.array([int(c) for c in cs]) if all(c.denominator == 1 for c in cs) else np.array(vals, dtype=float)
    return vals


def py_origin_arg(arg):
    if arg is None:
        return None
    if arg[0] == "bad":
        what = arg[1] if len(arg) > 1 else "str"
        return {"str": "x", "list": [1.0], "ndarray": np.array(2.0), "dict": {}}.get(what, "x")
    return py_number(arg[1], arg[2] if len(arg) > 2 else "float")


def make_data(case):
    dt = np.dtype(case["dtype"])
    vals = [frac(r) for r in case["raw"]]
    if dt.kind in "iu":
        data = np.array([int(v) for v in vals], dtype=dt)
    elif dt.kind == "b":
        data = np.array([bool(int(v)) for v in vals], dtype=dt)
    else:
        data = np.array([float(v) for v in vals], dtype=dt)
    return data.reshape(tuple(case["shape"]))


def errname(e):
    from nixio.exceptions import OutOfBounds
    if isinstance(e, (IndexError, OutOfBounds)):
        return "IndexError"
    for cls, nm in ((TypeError, "TypeError"), (ValueError, "ValueError"), (KeyError, "KeyError"),
                    (AttributeError, "AttributeError"), (RuntimeError, "RuntimeError")):
        if isinstance(e, cls):
            return nm
    return type(e).__name__


def canon_err(name):
    return "IndexError" if name == "OutOfBounds" else name


def canon_array(arr):
    arr = np.asarray(arr)
    return {"dtype": str(arr.dtype), "shape": [int(s) for s in arr.shape],
            "vals": [rat_or_special(x) for x in arr.ravel().tolist()] if arr.dtype.kind in "iub"
            else [rat_or_special(x) for x in arr.ravel()]}


# ---------------------------------------------------------------------------------------
# a session on the real nixio: one file, one block, the array under test (+ tags on demand)


class Session:
    _count = 0

    def __init__(self, ctx, case, with_twin=False):
        import nixio
        self.nix = nixio
        Session._count += 1
        self.path = ctx.tmpfile("c15-%d-%d.nix" % (os.getpid(), Session._count))
        self.file = nixio.File.open(self.path, nixio.FileMode.Overwrite)
        self.block = self.file.create_block("blk", "c15")
        data = make_data(case)
        self.raw_np = data.copy()
        self.da = self.block.create_data_array("arr", "c15", dtype=data.dtype, data=data)
        self.tw = None
        if with_twin:
            self.tw = self.block.create_data_array("twin", "c15", dtype=data.dtype, data=data)
        for a in (self.da, self.tw):
            if a is not None:
                for _ in data.shape:
                    a.append_sampled_dimension(1.0)
        self.da2 = self.block.data_arrays["arr"]       # a second live object for the same array
        self.ntag = 0
        self.views = {}

    def handle(self, h):
        """0: the object create_data_array returned (after reopen: the first one fetched), 1: a second object
        kept alongside, 2: a fresh object fetched for this operation"""
        if h == 1:
            return self.da2
        if h == 2:
            return self.block.data_arrays["arr"]
        return self.da

    def reopen(self):
        self.views = {}
        self.file.close()
        self.file = self.nix.File.open(self.path, self.nix.FileMode.ReadWrite)
        self.block = self.file.blocks["blk"]
        self.da = self.block.data_arrays["arr"]
        self.da2 = self.block.data_arrays[0]
        if self.tw is not None:
            self.tw = self.block.data_arrays["twin"]

    def link_ticks(self, index):
        """a range dimension of another array linked to the array under test: its ticks"""
        self.ntag += 1
        other = self.block.create_data_array("lk%d" % self.ntag, "c15", data=np.zeros(3))
        dim = other.append_range_dimension(ticks=[1.0, 2.0, 3.0])
        dim.link_data_array(self.da, [int(i) for i in index])
        return dim.ticks

    def raw_h5(self):
        """stored elements read with h5py, bypassing nixio's read path"""
        return self.da._h5group.group["data"][()]

    def close(self):
        try:
            self.file.close()
        except Exception:
            pass
        try:
            os.remove(self.path)
        except OSError:
            pass

    # -- views ------------------------------------------------------------------------
    def view(self, win, how, twin=False):
        """DataView handles are kept and reused for a repeated (window, via): a view made before a calibration
        change must read with the calibration current at the time of the read"""
        key = core.canon([win, (how or {}).get("via"), (how or {}).get("h", 0), twin])
        if key not in self.views:
            self.views[key] = self._view(win, how, twin)
        return self.views[key]

    def _view(self, win, how, twin=False):
        """returns DataView (or list of two for twin) built the way `how` says; falls back to get_slice"""
        nix = self.nix
        via = (how or {}).get("via", "get_slice")
        arrs = [self.handle((how or {}).get("h", 0))] + ([self.tw] if twin and self.tw is not None else [])
        if win is None:
            return [nix.data_view.DataView(a, None) for a in arrs], "dataview"
        pos = [int(w[0]) for w in win]
        ext = [int(w[1] - w[0]) for w in win]
        if via == "dataview":
            return [nix.data_view.DataView(a, tuple(slice(w[0], w[1]) for w in win)) for a in arrs], via
        if via == "get_slice_data":
            try:
                return [a.get_slice([float(p) for p in pos], [float(e) for e in ext], nix.DataSliceMode.Data)
                        for a in arrs], via
            except Exception:
                pass        # position -> index conversion is C07's subject: fall back to index mode
        link = {"i": "Indexed", "u": "Untagged"}.get(via[-1] if via[-2:-1] == "_" else "", "Tagged")
        via0 = via
        if via[-2:-1] == "_":
            via = via[:-2]
        if via in ("tag", "tagfeat", "mtag", "mtagfeat"):
            try:
                self.ntag += 1
                nm = "t%d" % self.ntag
                if via in ("tag", "tagfeat"):
                    tag = self.block.create_tag(nm, "c15", [float(p) for p in pos])
                    tag.extent = [float(e) for e in ext]
                else:
                    parr = self.block.create_data_array(nm + "-p", "c15", data=np.array([[float(p) for p in pos]]))
                    earr = self.block.create_data_array(nm + "-e", "c15", data=np.array([[float(e) for e in ext]]))
                    parr.append_set_dimension()
                    parr.append_set_dimension()
                    earr.append_set_dimension()
                    earr.append_set_dimension()
                    tag = self.block.create_multi_tag(nm, "c15", parr)
                    tag.extents = earr
                out = []
                if via.endswith("feat"):
                    for a in arrs:
                        tag.create_feature(a, getattr(nix.LinkType, link))
                    for k, a in enumerate(arrs):
                        out.append(tag.feature_data(k) if via == "tagfeat" else tag.feature_data(0, k))
                    return out, via0
                else:
                    for a in arrs:
                        tag.references.append(a)
                    for k, a in enumerate(arrs):
                        out.append(tag.tagged_data(k) if via == "tag" else tag.tagged_data(0, k))
                return out, via
            except Exception:
                pass        # computing the region is C08's subject: fall back to the index-mode slice
        return [a.get_slice(pos, ext) for a in arrs], "get_slice"


def read_through(obj, ix, how):
    """one read of a DataArray / DataView the way `how` says"""
    if how == "array":
        with warnings.catch_warnings():
            warnings.simplefilter("ignore")
            return np.array(obj)
    if ix is None:
        return obj[None]            # `sl is None` branch of _read_data (also what __array__ uses)
    if how == "np":
        return obj[np_index(ix)]
    return obj[py_index(ix, how)]


# ---------------------------------------------------------------------------------------
# implementation runner for the correspondence (canonicalised like the driver's output)


def run_impl(ctx, case):
    """returns (outputs, resolved case): view windows of tag-built views are filled in from the implementation"""
    s = Session(ctx, case)
    outs = []
    rops = []
    try:
        for op in case["ops"]:
            name = op[0]
            rop = list(op)
            try:
                if name == "set_coeffs":
                    s.handle(op[2] if len(op) > 2 else 0).polynom_coefficients = py_coeff_arg(op[1])
                    outs.append({"ok": None})
                elif name == "set_origin":
                    s.handle(op[2] if len(op) > 2 else 0).expansion_origin = py_origin_arg(op[1])
                    outs.append({"ok": None})
                elif name == "read":
                    how = op[2] if len(op) > 2 else "getitem"
                    outs.append({"ok": canon_array(read_through(s.handle(op[3] if len(op) > 3 else 0), op[1], how))})
                elif name == "view":
                    how = op[3] if len(op) > 3 else {"via": "get_slice"}
                    (dv,), used = s.view(op[1], how)
                    if used != "get_slice" and used != "dataview":
                        rop[1] = [[int(sl.start), int(sl.stop)] for sl in dv._slices] if dv.valid else None
                    rop = rop[:3] + [dict(how, used=used)]
                    outs.append({"ok": canon_array(read_through(dv, op[2], how.get("read", "getitem")))})
                elif name == "coeffs":
                    outs.append({"ok": [rat_or_special(c) for c in s.handle(op[1] if len(op) > 1 else 0)
                                        .polynom_coefficients]})
                elif name == "origin":
                    o = s.handle(op[1] if len(op) > 1 else 0).expansion_origin
                    outs.append({"ok": None if o is None else rat_or_special(o)})
                elif name == "raw":
                    outs.append({"ok": canon_array(s.raw_h5())})
                elif name == "ticks":
                    outs.append({"ok": [rat_or_special(t) for t in s.link_ticks(op[1])]})
                elif name == "write":
                    dt = np.dtype(case["dtype"])
                    vals = [frac(v) for v in op[1]]
                    arr = np.array([int(v) if dt.kind in "iu" else bool(int(v)) if dt.kind == "b" else float(v)
                                    for v in vals], dtype=dt).reshape(tuple(case["shape"]))
                    s.da[:] = arr
                    outs.append({"ok": None})
                elif name == "reopen":
                    s.reopen()
                    outs.append({"ok": None})
                else:
                    outs.append({"bad": "unknown op"})
            except Exception as e:
                outs.append({"err": errname(e)})
            rops.append(rop)
    finally:
        s.close()
    rcase = dict(case)
    rcase["ops"] = rops
    return outs, rcase


def same_out(op, m, i):
    """model output vs implementation output for one op; returns (agree, class)"""
    if "err" in m or "err" in i:
        if not ("err" in m and "err" in i):
            return False, "err"
        if canon_err(m["err"]) == canon_err(i["err"]):
            return True, "err"
        # which exception class refuses a malformed index expression is C06's subject: for reads only
        # refused / accepted is compared, the differing class is counted in the evidence
        return (op[0] in ("read", "view")), "err-class-differs"
    if "bad" in m or "bad" in i:
        return False, "bad"
    mv, iv = m["ok"], i["ok"]
    if op[0] in ("read", "view"):
        if mv["dtype"] != iv["dtype"] or mv["shape"] != iv["shape"] or len(mv["vals"]) != len(iv["vals"]):
            return False, "shape"
        if mv["vals"] == iv["vals"]:
            return True, "exact"
        cs = [frac(c) for c in mv.get("coeffs", [])]
        o = frac(mv["origin"]) if mv.get("origin") is not None else Fraction(0)
        xs = mv.get("xs")
        if xs is None or len(xs) != len(mv["vals"]) or mv["dtype"] != "float64":
            return False, "values"
        cls = "exact"
        for a, b, x in zip(mv["vals"], iv["vals"], xs):
            if a == b:
                continue
            try:
                got = frac(b)
            except ValueError:
                return False, "non-finite"
            ok, c = value_ok(got, frac(a), cs, o, frac(x))
            if not ok:
                return False, c
            cls = "bounded"
        return True, cls
    if op[0] == "raw":
        return (mv == iv), "raw"
    return (mv == iv), "plain"


# ---------------------------------------------------------------------------------------
# generators

EXACT_COEFFS = [0, 0, 1, -1, 2, -2, 3, Fraction(1, 2), Fraction(-1, 2), Fraction(1, 4), Fraction(3, 2), 4, 0, 1]
DECIMALS = [1.1, 2.2, 0.1, 0.3, 0.89, 10.2, 1.2, 3.4, 0.7, 100.0, 1e-3, 2.5e4]
INT_RANGE = {"uint8": (0, 2 ** 8 - 1), "uint16": (0, 2 ** 16 - 1), "uint32": (0, 2 ** 32 - 1),
             "uint64": (0, 2 ** 64 - 1), "int8": (-2 ** 7, 2 ** 7 - 1), "int16": (-2 ** 15, 2 ** 15 - 1),
             "int32": (-2 ** 31, 2 ** 31 - 1), "int64": (-2 ** 63, 2 ** 63 - 1)}


def gen_raw(rng, dtype, profile):
    if dtype == "bool":
        return Fraction(rng.randint(0, 1))
    if dtype in INT_RANGE:
        lo, hi = INT_RANGE[dtype]
        if profile == "big" and rng.random() < 0.5:
            return Fraction(rng.choice([lo, hi, hi - 1, lo + 1, hi // 2 + 1]))
        if profile == "float":
            return Fraction(max(lo, min(hi, rng.randint(-1000, 1000))))
        return Fraction(max(lo, min(hi, rng.randint(-8, 12))))
    if profile == "float":
        x = rng.uniform(-100, 100)
        return Fraction(float(np.float32(x))) if dtype == "float32" else Fraction(x)
    return Fraction(rng.randint(-32, 32), 2 ** rng.randint(0, 3))


def gen_coeff_arg(rng, profile):
    r = rng.random()
    if r < 0.12:
        return None
    if r < 0.16:
        return ["scalar", rat(rng.choice([0, 0, 5, 2.5, 1])), rng.choice(["int", "float"])]
    if r < 0.20:                    # invalid values: refused, nothing changes (empty ones clear)
        if rng.random() < 0.6:
            return ["notflat", rng.choice([0, 1, 2, 2, 3]), rng.choice(["nested", "nested", "str", "dict", "nd2", "nd3"])]
        return ["badelems", rng.choice(["text", "complex"]), rng.randint(1, 3)]
    n = rng.choice([0, 1, 1, 2, 2, 2, 3, 3, 4, 5])
    if profile == "float":
        cs = [Fraction(rng.choice(DECIMALS + [rng.uniform(-3, 3), rng.uniform(-3, 3)])) for _ in range(n)]
    else:
        cs = [Fraction(rng.choice(EXACT_COEFFS)) for _ in range(n)]
    cont = rng.choice(["list", "list", "tuple", "ndarray", "ndarray", "ndarray_int"])
    numkind = rng.choice(["float", "int"])
    return ["seq", [rat(c) for c in cs], cont, numkind]


def gen_origin_arg(rng, profile):
    r = rng.random()
    if r < 0.2:
        return None
    if r < 0.27:
        return ["bad", rng.choice(["str", "list", "ndarray", "dict"])]
    if r < 0.45:
        return ["num", "0/1", rng.choice(["int", "float", "bool", "npfloat64", "float32"])]
    if profile == "float":
        return ["num", rat(Fraction(rng.choice([0.3, 0.89, 10.2, rng.uniform(-10, 10), 100.0]))), "float"]
    k = rng.choice(["int", "float", "bool", "float32", "int8", "npfloat64"])
    if k in ("int", "int8"):
        return ["num", rat(rng.choice([1, -1, 2, 3, -4, 7])), k]
    if k == "bool":
        return ["num", "1/1", k]
    return ["num", rat(rng.choice([Fraction(1, 2), Fraction(-3, 2), 1, 2, Fraction(5, 2), Fraction(-1, 4), 3])), k]


def gen_slice(rng, d, malformed):
    def bound():
        r = rng.random()
        if r < 0.3:
            return None
        return rng.randint(-d - 2, d + 2)
    step = rng.choice([None, None, 1, 1, 2, 3])
    if malformed and rng.random() < 0.5:
        step = rng.choice([0, -1, -2])
    if d > 0 and rng.random() < 0.6:            # a non-empty range, written with positive or negative bounds
        a = rng.randint(0, d - 1)
        b = rng.randint(a + 1, d)
        return [rng.choice([a, a - d, None if a == 0 else a]), rng.choice([b, None if b == d else b, b - d if b < d else b]),
                step]
    return [bound(), bound(), step]


def gen_index(rng, shape, malformed=False):
    """index expression for an array (or view) of the given shape; mostly valid"""
    r = rng.random()
    if r < 0.12:
        return None
    rank = len(shape)
    n = rng.randint(1, rank) if rng.random() < 0.8 else rank
    if malformed and rng.random() < 0.3:
        n = rank + 1
    items = []
    for k in range(n):
        d = shape[k] if k < rank else 1
        if rng.random() < 0.5:
            if d > 0 and not (malformed and rng.random() < 0.5):
                items.append(rng.randint(-d, d - 1))
            else:
                items.append(rng.choice([d, -d - 1, d + 3]))
        else:
            items.append(gen_slice(rng, d, malformed))
    return items


def gen_window(rng, shape, invalid=False):
    win = []
    for d in shape:
        if d > 0 and rng.random() < 0.85:
            s = rng.randint(0, d - 1)
            e = rng.randint(s + 1, d)
        else:
            s = rng.randint(0, d)
            e = rng.randint(s, d)
        win.append([s, e])
    if invalid and shape:
        k = rng.randrange(len(shape))
        r = rng.random()
        if r < 0.6:
            win[k][1] = shape[k] + rng.randint(1, 2)           # beyond the extent
        elif r < 0.8:
            win[k][0] = -rng.randint(1, 2)                      # negative start
        else:
            win[k] = [win[k][1] + 1, win[k][1]] if win[k][1] + 1 <= shape[k] else [1, 0]   # negative extent
    return win


def gen_case(rng, profile):
    dtype = rng.choice(DTYPES)
    if profile == "float" and rng.random() < 0.6:
        dtype = rng.choice(["float64", "float32", "float64", "int16", "int32"])
    rank = rng.choice([1, 1, 1, 2, 2, 3])
    shape = [rng.choice([1, 2, 3, 4, 5]) for _ in range(rank)]
    if rng.random() < 0.04:
        shape[rng.randrange(rank)] = 0
    n = 1
    for d in shape:
        n *= d
    raw = [gen_raw(rng, dtype, profile) for _ in range(n)]
    ops = []

    def hnd():                                  # which live object: mostly the first, often a second / fresh one
        return rng.choice([0, 0, 0, 1, 1, 2])
    if rng.random() < 0.6:                      # most histories start calibrated
        ops.append(rng.choice([["set_coeffs", gen_coeff_arg(rng, profile)], ["set_origin", gen_origin_arg(rng, profile)],
                               ["set_coeffs", gen_coeff_arg(rng, profile)]]) + [hnd()])
    for _ in range(rng.randint(5, 12)):
        r = rng.random()
        if r < 0.17:
            ops.append(["set_coeffs", gen_coeff_arg(rng, profile), hnd()])
        elif r < 0.32:
            ops.append(["set_origin", gen_origin_arg(rng, profile), hnd()])
        elif r < 0.57:
            mal = rng.random() < 0.12
            ix = gen_index(rng, shape, mal)
            how = rng.choice(["array", "none"]) if ix is None else rng.choice(["getitem", "bare"])
            if ix is None and rng.random() < 0.4:
                ix, how = [[None, None, None]], "bare"          # da[:]
            ops.append(["read", ix, how, hnd()])
        elif r < 0.80:
            q = rng.random()
            if q < 0.05:
                win = None
            else:
                win = gen_window(rng, shape, invalid=(q < 0.12))
            via = rng.choice(["get_slice", "get_slice", "dataview", "tag", "mtag", "tagfeat", "mtagfeat",
                              "get_slice_data", "tagfeat_i", "tagfeat_u", "mtagfeat_i", "mtagfeat_u"])
            vh = hnd()
            if win is None:
                via = "dataview"
            earlier = [o for o in ops if o[0] == "view" and o[1] is not None]
            if earlier and rng.random() < 0.3:      # read again through a view handle made earlier
                prev = rng.choice(earlier)
                win, via, q, vh = prev[1], prev[3]["via"], 1.0, prev[3].get("h", 0)
                if any(w[1] > d or w[0] < 0 or w[1] < w[0] for w, d in zip(win, shape)):
                    q = 0.1
            wshape = [w[1] - w[0] for w in win] if (win is not None and q >= 0.12) else list(shape)
            mal = rng.random() < 0.1
            uix = gen_index(rng, wshape, mal)
            rd = rng.choice(["array", "none"]) if uix is None else rng.choice(["getitem", "bare"])
            if uix is None and rng.random() < 0.4:
                uix, rd = [[None, None, None]], "bare"          # view[:]
            ops.append(["view", win, uix, {"via": via, "read": rd, "h": vh}])
        elif r < 0.85:
            ops.append(["coeffs", hnd()])
        elif r < 0.89:
            ops.append(["origin", hnd()])
        elif r < 0.92:
            ops.append(["raw"])
        elif r < 0.94:                          # ticks of a range dimension linked to the array
            idx = [rng.randrange(d) if d else 0 for d in shape]
            idx[rng.randrange(rank)] = -1
            q = rng.random()
            if q < 0.1:
                idx[rng.randrange(rank)] = rng.choice([-1, -2, shape[0] + 1])
            elif q < 0.15:
                idx = idx + [0]
            ops.append(["ticks", idx])
        elif r < 0.97:
            ops.append(["write", [rat(gen_raw(rng, dtype, profile)) for _ in range(n)]])
        else:
            ops.append(["reopen"])
    ops.append(["raw"])
    return {"dtype": dtype, "shape": shape, "raw": [rat(x) for x in raw], "coeffs": None, "origin": None,
            "ops": ops}


def op_tag(op, out):
    t = op[0]
    if t == "set_coeffs":
        a = op[1]
        t += ".none" if a is None else "." + a[0] + ("%d" % len(a[1]) if a[0] == "seq" else "")
    elif t == "set_origin":
        a = op[1]
        t += ".none" if a is None else "." + a[0] + ("0" if a[0] == "num" and frac(a[1]) == 0 else "")
    elif t == "read":
        t += ".whole" if op[1] is None else ".indexed"
    elif t == "view":
        t += "." + op[3].get("used", op[3].get("via", "?"))
    if "err" in out:
        t += "!" + out["err"]
    elif op[0] in ("read", "view") and isinstance(out.get("ok"), dict):
        r = out["ok"]
        t += "+empty" if not r["vals"] else "+single" if len(r["vals"]) == 1 else ""
    return t


CHUNK = 200


def _chunks(it, n):
    buf = []
    for x in it:
        buf.append(x)
        if len(buf) == n:
            yield buf
            buf = []
    if buf:
        yield buf


def correspondence(ctx):
    rng = ctx.rng
    moved = changed_anchors()
    scale = 2 if (moved and ctx.quick()) else 1
    n_exact = scale * ctx.budget(1100, 12000)
    n_float = scale * ctx.budget(380, 4000)
    n_big = scale * ctx.budget(150, 1500)

    def all_cases():
        for c in core.load_corpus(PROP):
            yield c
        for _ in range(n_exact):
            yield gen_case(rng, "exact")
        for _ in range(n_float):
            yield gen_case(rng, "float")
        for _ in range(n_big):
            yield gen_case(rng, "big")

    disagreements = []
    dist = {}
    classes = {}
    dtypes = {}
    seen = set()
    samples = []
    nops = 0
    ncases = 0
    # cases are generated, executed and compared chunk by chunk: nixio's File.close() runs a full gc.collect(),
    # so keeping every output alive would make the run quadratic
    for cases in _chunks(all_cases(), CHUNK):
        impl = []
        resolved = []
        for c in cases:
            o, rc = run_impl(ctx, c)
            impl.append(o)
            resolved.append(rc)
        model = core.run_driver(PROP, resolved)
        if not samples:
            samples = [{"case": resolved[k], "model": [strip(x) for x in model[k].get("ok", [])][:6]}
                       for k in range(min(3, len(cases)))]
        for c, rc, m, i in zip(cases, resolved, model, impl):
            ncases += 1
            if "ok" not in m or len(m["ok"]) != len(i):
                disagreements.append(Disagreement(c, m, i))
                continue
            dtypes[c["dtype"]] = dtypes.get(c["dtype"], 0) + 1
            bad_at = None
            for k, (op, mo, io) in enumerate(zip(rc["ops"], m["ok"], i)):
                nops += 1
                ok, cls = same_out(op, mo, io)
                tg = op_tag(op, io)
                dist[tg] = dist.get(tg, 0) + 1
                if op[0] in ("read", "view"):
                    classes[cls] = classes.get(cls, 0) + 1
                    if "ok" in io:
                        kind = ("calibrated" if (mo.get("ok") or {}).get("coeffs") or
                                frac((mo.get("ok") or {}).get("origin") or "0/1") != 0 else "uncalibrated")
                        classes[kind] = classes.get(kind, 0) + 1
                    if ("ok" in io and "ok" in mo and io["ok"]["dtype"] == "float64" and c["dtype"] != "float64"
                            and io["ok"]["vals"]):
                        seen.add(core.sha(core.canon([c["dtype"], c["shape"], op[:3], mo["ok"].get("coeffs"),
                                                      mo["ok"].get("origin"), io["ok"]["vals"]])))
                if not ok and bad_at is None:
                    bad_at = k
            if bad_at is not None and len(disagreements) < 200:
                small = shrink_case(c, bad_at)
                disagreements.append(Disagreement(small, {"op": len(small["ops"]) - 1, "out": strip(m["ok"][bad_at])},
                                                  {"op": len(small["ops"]) - 1, "out": i[bad_at]}))
    disagreements.sort(key=lambda d: len(core.canon(d.case)))
    return {"evaluations": nops, "distinct_nontrivial": len(seen),
            "rule": "one evaluation = one operation of a generated history (set/clear of the two attributes, reads "
                    "through DataArray[...], np.array, DataView via get_slice / constructor / Tag / MultiTag / "
                    "feature_data (tagged / indexed / untagged), each through the first, a second kept or a fresh "
                    "array object, getters, raw h5py dump, ticks of a linked range dimension, whole write, reopen) "
                    "executed on a real HDF5 file and on "
                    "the Lean model; non-trivial = a read of a non-float64 array that came back calibrated "
                    "(float64, non-empty), distinct by (dtype, shape, op, calibration, values)",
            "samples": samples,
            "distribution": {"cases": ncases, "ops": dist, "read_value_classes": classes, "dtypes": dtypes,
                             "profiles": {"exact": n_exact, "float": n_float, "big": n_big},
                             "anchors_changed": moved},
            "disagreements": disagreements, "exhaustive": False}


def strip(out):
    if isinstance(out, dict) and isinstance(out.get("ok"), dict):
        return {"ok": {k: v for k, v in out["ok"].items() if k in ("dtype", "shape", "vals")}}
    return out


def shrink_case(case, bad_at):
    """keep the mutating operations before the failing one and the failing one"""
    last = case["ops"][bad_at]

    def keep(op):
        if op[0] in ("set_coeffs", "set_origin", "write", "reopen"):
            return True
        # a view handle made earlier and reused by the failing read
        return (op[0] == "view" and last[0] == "view" and op[1] == last[1] and len(op) > 3 and len(last) > 3
                and op[3].get("via") == last[3].get("via"))
    ops = [op for op in case["ops"][:bad_at] if keep(op)]
    ops.append(last)
    c = dict(case)
    c["ops"] = ops
    return c


# ---------------------------------------------------------------------------------------
# property oracle on the implementation — independent of the Lean model:
# NumPy indexing on an in-memory copy of the raw data + the polynomial in monomial form over Fractions


def np_item(it):
    if isinstance(it, dict):
        if "list" in it:
            return list(it["list"])
        if "mask" in it:
            return np.array(it["mask"], dtype=bool)
    if it == "...":
        return Ellipsis
    return py_item(it)


def np_index(ix):
    if ix is None:
        return slice(None)
    return tuple(np_item(i) for i in ix)


class Ref:
    """what the property requires, tracked from the accepted assignments"""

    def __init__(self, raw_np):
        self.raw = raw_np
        self.coeffs = []
        self.origin = None
        self.garbage = False        # an invalid coefficient value was accepted: no polynomial is defined

    def calibrated(self):
        return self.garbage or bool(self.coeffs) or (self.origin is not None and self.origin != 0)

    def expect(self, sub):
        sub = np.asarray(sub)
        shape = list(sub.shape) if sub.shape else [1]
        xs = [np_to_frac(x) for x in (sub.ravel().tolist() if sub.dtype.kind in "iub" else sub.ravel())]
        if not self.calibrated():
            return str(self.raw.dtype), shape, xs, xs
        o = self.origin if self.origin is not None else Fraction(0)
        return "float64", shape, [poly_exact(self.coeffs, o, x) for x in xs], xs


def compare_read(ref, got, sub, what, case, k, site):
    """got: array returned by nixio, sub: the same selection taken from the raw copy"""
    if ref.garbage:
        return None
    got = np.asarray(got)
    dtype, shape, want, xs = ref.expect(sub)
    inp = {"case": shrink_case(case, k), "op": case["ops"][k]}
    if str(got.dtype) != dtype:
        return Failure("%s: wrong element type" % what, inp, str(got.dtype), dtype, site)
    if list(got.shape) != shape and not (list(got.shape) in ([], [1]) and shape == [1]):
        # a single element may come back as a 0-d value or as a length-1 array: the property fixes neither
        return Failure("%s: wrong shape" % what, inp, list(got.shape), shape, site)
    vals = [np_to_frac(x) for x in (got.ravel().tolist() if got.dtype.kind in "iub" else got.ravel())]
    o = ref.origin if ref.origin is not None else Fraction(0)
    for j, (g, w, x) in enumerate(zip(vals, want, xs)):
        if ref.calibrated():
            ok, _ = value_ok(g, w, ref.coeffs, o, x)
        else:
            ok = (g == w)
        if not ok:
            return Failure("%s: element %d is not %s of the stored value" % (
                what, j, "the calibration polynomial" if ref.calibrated() else "the unchanged value"), inp,
                {"value": None if g is None else float(g), "raw": float(x)},
                {"value": float(w), "coeffs": [float(c) for c in ref.coeffs],
                 "origin": None if ref.origin is None else float(ref.origin)}, site)
    return None


def refused_only_when_calibrated(twin_read, exc, ref, case, k, what, site):
    """... but the calibration has no say in it: a read that the uncalibrated twin (same data, same index
    expression, same path) answers must be answered by the calibrated array too"""
    if not ref.calibrated():
        return None
    try:
        twin_read()
    except Exception:
        return None
    return Failure("%s: the read fails although the same read of an uncalibrated array with the same data "
                   "succeeds" % what, {"case": shrink_case(case, k), "op": case["ops"][k]},
                   "%s: %s" % (type(exc).__name__, str(exc)[:120]),
                   {"coeffs": [float(c) for c in ref.coeffs],
                    "origin": None if ref.origin is None else float(ref.origin)}, site)


def check_raw(s, ref, case, k):
    h5 = s.raw_h5()
    if h5.dtype != ref.raw.dtype or h5.shape != ref.raw.shape or not np.array_equal(h5, ref.raw):
        return Failure("stored raw values changed by a calibration operation",
                       {"case": shrink_case(case, k), "op": case["ops"][k]},
                       canon_array(h5), canon_array(ref.raw), "DataArray.polynom_coefficients / expansion_origin")
    return None


def check_getters(s, ref, case, k, da=None):
    if ref.garbage:
        return None
    da = s.da if da is None else da
    inp = {"case": shrink_case(case, k), "op": case["ops"][k]}
    got = [np_to_frac(c) for c in da.polynom_coefficients]
    if got != ref.coeffs:
        return Failure("polynom_coefficients does not return what was (not) assigned", inp,
                       [None if g is None else float(g) for g in got], [float(c) for c in ref.coeffs],
                       "DataArray.polynom_coefficients")
    o = da.expansion_origin
    og = None if o is None else np_to_frac(o)
    if og != ref.origin:
        return Failure("expansion_origin does not return what was (not) assigned", inp,
                       None if og is None else float(og), None if ref.origin is None else float(ref.origin),
                       "DataArray.expansion_origin")
    return None


def oracle_case(ctx, case):
    """run one history on the implementation and check every step against the property; -> (failures, evals)"""
    fails = []
    evals = 0
    s = Session(ctx, case, with_twin=True)
    ref = Ref(s.raw_np)
    try:
        for k, op in enumerate(case["ops"]):
            name = op[0]
            f = None
            evals += 1
            if name in ("set_coeffs", "set_origin"):
                arg = op[1]
                try:
                    if name == "set_coeffs":
                        s.handle(op[2] if len(op) > 2 else 0).polynom_coefficients = py_coeff_arg(arg)
                        accepted = True
                    else:
                        s.handle(op[2] if len(op) > 2 else 0).expansion_origin = py_origin_arg(arg)
                        accepted = True
                except Exception:
                    accepted = False
                if accepted:
                    if name == "set_coeffs":
                        ref.garbage = False
                        if arg is None:
                            ref.coeffs = []
                        elif arg[0] == "seq":
                            ref.coeffs = [Fraction(float(frac(c))) for c in arg[1]]
                        else:
                            # the property does not say what assigning a bare number means: whatever the
                            # getter reports afterwards is the calibration the reads must follow
                            try:
                                ref.coeffs = [np_to_frac(c) for c in s.da.polynom_coefficients]
                                ref.garbage = any(c is None for c in ref.coeffs)
                            except (TypeError, ValueError):
                                # an invalid value was accepted and the getter returns no flat list of numbers: no
                                # polynomial is defined, but reads must still be answered
                                ref.coeffs, ref.garbage = [], True
                    else:
                        if arg is None:
                            ref.origin = None
                        elif arg[0] == "num":
                            ref.origin = np_to_frac(py_origin_arg(arg))
                        else:
                            o_now = s.da.expansion_origin       # undefined input accepted: follow the getter
                            try:
                                ref.origin = None if o_now is None else np_to_frac(o_now)
                            except (TypeError, ValueError):
                                break
                f = check_raw(s, ref, case, k) or check_getters(s, ref, case, k)
            elif name == "read":
                how = op[2] if len(op) > 2 else "getitem"
                try:
                    sub = ref.raw[np_index(op[1])]
                except Exception:
                    sub = None              # NumPy refuses the expression: nothing is required of the values
                if sub is not None:
                    def do_read(da):
                        if how == "np":
                            return da[np_index(op[1])] if op[1] is not None else da[:]
                        if how == "iter":
                            parts = [np.asarray(p) for p in da]
                            return np.array(parts).reshape(np.asarray(ref.raw[:]).shape) if parts else None
                        if how == "read_direct":
                            buf = np.zeros(ref.raw.shape, dtype=float if (ref.calibrated() and da is not s.tw)
                                           else ref.raw.dtype)
                            da.read_direct(buf)
                            return buf
                        return read_through(da, op[1], how)
                    if how in ("iter", "read_direct"):
                        sub = ref.raw[:]
                    da = s.handle(op[3] if len(op) > 3 else 0)
                    try:
                        got = do_read(da)
                    except Exception as e:
                        got = None          # which index expressions are refused is C06's subject ...
                        f = refused_only_when_calibrated(lambda: do_read(s.tw), e, ref, case, k,
                                                         "DataArray read (%s)" % how, "DataArray._read_data")
                    if got is not None:
                        f = compare_read(ref, got, sub, "DataArray read (%s)" % how, case, k,
                                         "DataArray._read_data")
            elif name == "view":
                how = op[3] if len(op) > 3 else {"via": "get_slice"}
                try:
                    dvs, used = s.view(op[1], how, twin=True)
                except Exception:
                    dvs = None
                if dvs is not None and dvs[0].valid:
                    rd = how.get("read", "getitem")
                    try:
                        got = read_through(dvs[0], op[2], rd)
                    except Exception as e:
                        got = None
                        if len(dvs) > 1:
                            f = refused_only_when_calibrated(lambda: read_through(dvs[1], op[2], rd), e, ref, case, k,
                                                             "DataView read (%s)" % used, "DataView._read_data")
                    if got is not None:
                        if used in ("get_slice", "dataview"):
                            try:
                                w = ref.raw[tuple(slice(a, b) for a, b in op[1])]
                                sub = w[np_index(op[2])]
                            except Exception:
                                sub = None
                        else:
                            # region computed by the tag: the same read on an uncalibrated twin with the same data
                            try:
                                sub = read_through(dvs[1], op[2], rd)
                            except Exception:
                                sub = None
                        if sub is not None:
                            f = compare_read(ref, got, sub, "DataView read (%s)" % used, case, k,
                                             "DataView._read_data")
            elif name == "write":
                dt = ref.raw.dtype
                vals = [frac(v) for v in op[1]]
                arr = np.array([int(v) if dt.kind in "iu" else bool(int(v)) if dt.kind == "b" else float(v)
                                for v in vals], dtype=dt).reshape(ref.raw.shape)
                try:
                    s.da[:] = arr
                    s.tw[:] = arr
                    ref.raw = arr.copy()
                except Exception:
                    pass
                f = check_raw(s, ref, case, k)
            elif name == "reopen":
                s.reopen()
                f = check_raw(s, ref, case, k) or check_getters(s, ref, case, k)
            elif name == "raw":
                f = check_raw(s, ref, case, k)
            elif name in ("coeffs", "origin"):
                f = check_getters(s, ref, case, k, s.handle(op[1] if len(op) > 1 else 0))
            if f is not None:
                fails.append(f)
                break
    finally:
        s.close()
    return fails, evals


def gen_np_index(rng, shape):
    """NumPy-style index expression for the oracle: basic (ints, slices, Ellipsis) or one index list / mask
    among slices (the combinations on which NumPy and h5py agree about the result shape)"""
    rank = len(shape)
    if rng.random() < 0.1:
        return None
    n = rng.randint(0, rank)
    fancy_at = rng.randrange(n) if (n and rng.random() < 0.25 and shape[0:n] and all(shape[:n])) else None
    items = []
    for k in range(n):
        d = shape[k]
        if fancy_at is not None:
            if k == fancy_at:
                if rng.random() < 0.6:
                    items.append({"list": sorted(set(rng.randrange(d) for _ in range(rng.randint(1, d))))})
                else:
                    mask = [rng.random() < 0.6 for _ in range(d)]
                    if not any(mask):
                        mask[rng.randrange(d)] = True
                    items.append({"mask": mask})
                continue
        elif rng.random() < 0.45 and d > 0:
            items.append(rng.randint(-d, d - 1))
            continue
        items.append([rng.choice([None, rng.randint(-d - 1, d + 1)]), rng.choice([None, rng.randint(-d - 1, d + 1)]),
                      rng.choice([None, 1, 2, 3])])
    if fancy_at is None and n < rank and rng.random() < 0.4:
        items.insert(rng.randint(0, len(items)), "...")
    return items


FIXED_CASES = [
    # the repaired defect: a one-element ndarray [0.0] cleared the calibration, longer ndarrays were refused
    {"dtype": "int16", "shape": [3], "raw": ["0/1", "1/1", "2/1"], "coeffs": None, "origin": None,
     "ops": [["set_coeffs", ["seq", ["0/1"], "ndarray", "float"]], ["coeffs"], ["read", [[None, None, None]], "bare"],
             ["set_coeffs", ["seq", ["1/1", "2/1"], "ndarray", "float"]], ["read", [[None, None, None]], "bare"],
             ["set_coeffs", ["seq", [], "ndarray", "float"]], ["read", [[None, None, None]], "bare"]]},
    # the repaired defect 76b87d8: a nested sequence was stored as a 2-D dataset when no coefficients existed (every
    # later read raised ValueError) and refused when some existed
    {"dtype": "int16", "shape": [2, 3], "raw": ["0/1", "1/1", "2/1", "3/1", "4/1", "5/1"], "coeffs": None,
     "origin": None,
     "ops": [["set_coeffs", ["notflat", 2, "nested"]], ["coeffs"], ["read", [[None, None, None]], "bare"],
             ["set_coeffs", ["notflat", 1, "nd2"]], ["read", None, "array"],
             ["set_coeffs", ["seq", ["1/1", "2/1"], "list", "float"]], ["set_coeffs", ["notflat", 2, "nested"]],
             ["coeffs"], ["read", [1], "bare"], ["set_coeffs", ["badelems", "text", 2]], ["coeffs"],
             ["set_coeffs", ["notflat", 0, "str"]], ["coeffs"], ["read", [1], "bare"], ["raw"]]},
    # the suite's example and its complements: integer storage, origin without coefficients, clearing
    {"dtype": "int64", "shape": [4], "raw": ["1/1", "2/1", "3/1", "4/1"], "coeffs": None, "origin": None,
     "ops": [["set_origin", ["num", "-1/1", "int"]], ["read", [[None, None, None]], "bare"], ["read", [2], "bare"],
             ["set_coeffs", ["seq", ["11/10", "11/5"], "list", "float"]], ["read", None, "array"],
             ["view", [[1, 3]], None, {"via": "get_slice", "read": "none"}],
             ["view", [[1, 3]], [0], {"via": "tag", "read": "bare"}],
             ["set_coeffs", None], ["set_origin", None], ["read", [[None, None, None]], "bare"], ["raw"]]},
    {"dtype": "uint8", "shape": [2, 3], "raw": ["0/1", "255/1", "2/1", "3/1", "4/1", "5/1"], "coeffs": None,
     "origin": None,
     "ops": [["set_coeffs", ["seq", ["0/1", "0/1", "1/1"], "list", "int"]], ["read", [1, 1], "getitem"],
             ["read", [0, 1], "getitem"], ["set_origin", ["num", "0/1", "float"]], ["read", [-1], "bare"],
             ["set_origin", ["num", "256/1", "int"]], ["read", [[None, None, None]], "bare"], ["raw"]]},
]


def gen_oracle_case(rng, profile):
    c = gen_case(rng, profile)
    shape = c["shape"]
    extra = []
    for _ in range(rng.randint(2, 5)):
        r = rng.random()
        if r < 0.6:
            extra.append(["read", gen_np_index(rng, shape), "np"])
        elif r < 0.68:
            win = gen_window(rng, shape)
            wshape = [w[1] - w[0] for w in win]
            uix = gen_np_index(rng, wshape)
            if uix is not None and any(isinstance(i, dict) for i in uix):
                uix = None
            extra.append(["view", win, uix, {"via": rng.choice(["get_slice", "dataview", "tag", "mtag",
                                                                   "get_slice_data"]), "read": "np"}])
        elif r < 0.78:
            extra.append(["read", None, "iter"])
        elif r < 0.9:
            extra.append(["read", None, "read_direct"])
        else:
            extra.append(["set_coeffs", gen_coeff_arg(rng, profile)])
    ops = c["ops"]
    for e in extra:
        ops.insert(rng.randint(0, len(ops)), e)
    # a read is only informative after some calibration: make sure there is one early
    if not any(op[0] in ("set_coeffs", "set_origin") for op in ops[:3]):
        ops.insert(0, rng.choice([["set_coeffs", gen_coeff_arg(rng, profile)],
                                  ["set_origin", gen_origin_arg(rng, profile)]]))
    return c


# -- special float values: NaN, +-inf, -0.0, subnormal and huge elements (outside the rational model) --------------

SPECIALS = ["nan", "inf", "-inf", "-0.0", "5e-324", "1.7e308", "-1.7e308", "3.4e38"]


def special_case(rng):
    dtype = rng.choice(["float64", "float64", "float32"])
    n = rng.randint(2, 6)
    raw = [rng.choice(SPECIALS) if rng.random() < 0.5 else repr(float(rng.randint(-8, 8)) / 2) for _ in range(n)]
    if not any(r in SPECIALS for r in raw):
        raw[rng.randrange(n)] = rng.choice(SPECIALS[:3])
    cs = [float(rng.choice([0, 1, -1, 2, 0.5, 3])) for _ in range(rng.choice([0, 0, 1, 2, 2, 3]))]
    o = rng.choice([None, 0.0, 1.0, -2.5])
    ix = rng.choice([None, [[None, None, None]], [rng.randrange(n)], [[0, n, 2]], [[1, None, None]]])
    return {"special": {"dtype": dtype, "raw": raw, "coeffs": cs, "origin": o, "index": ix,
                        "via": rng.choice(["array", "view", "tag"])}}


def oracle_special(ctx, case):
    """what the property says about elements that are no finite numbers: without calibration they come back
    bit for bit; with calibration a NaN element gives NaN, an infinite one gives +-inf under an origin-only
    calibration, and the finite neighbours follow the polynomial as ever; the stored values stay as they are"""
    import nixio
    sp = case["special"]
    Session._count += 1
    path = ctx.tmpfile("c15s-%d-%d.nix" % (os.getpid(), Session._count))
    dt = np.dtype(sp["dtype"])
    with warnings.catch_warnings():
        warnings.simplefilter("ignore")
        data = np.array([float(r) for r in sp["raw"]], dtype=float).astype(dt)
    f = nixio.File.open(path, nixio.FileMode.Overwrite)
    fails = []
    evals = 0
    try:
        with warnings.catch_warnings():
            warnings.simplefilter("ignore")
            b = f.create_block("blk", "c15")
            da = b.create_data_array("arr", "c15", dtype=dt, data=data)
            da.append_sampled_dimension(1.0)
            n = len(data)
            if sp["via"] == "view":
                obj = da.get_slice([0], [n])
            elif sp["via"] == "tag":
                tag = b.create_tag("t", "c15", [0.0])
                tag.extent = [float(n)]
                tag.references.append(da)
                obj = tag.tagged_data(0)
            else:
                obj = da
            ix = np_index(sp["index"])

            def same_bits(a, bb):
                a, bb = np.asarray(a), np.asarray(bb)
                return a.dtype == bb.dtype and a.shape == bb.shape and a.tobytes() == bb.tobytes()
            # 1. uncalibrated: identical
            got = obj[ix]
            evals += 1
            want = np.atleast_1d(data[ix])
            if not same_bits(np.atleast_1d(got), want):
                fails.append(Failure("uncalibrated read of non-finite / extreme elements is not the stored values",
                                     case, canon_array(got), canon_array(want), "DataArray._read_data"))
            # 2. calibrated
            if sp["coeffs"]:
                da.polynom_coefficients = sp["coeffs"]
            if sp["origin"] is not None:
                da.expansion_origin = sp["origin"]
            cs = [Fraction(c) for c in sp["coeffs"]]
            o = Fraction(sp["origin"]) if sp["origin"] is not None else Fraction(0)
            calibrated = bool(cs) or o != 0
            got = np.atleast_1d(np.asarray(obj[ix]))
            evals += 1
            sub = want
            if calibrated:
                if got.dtype != np.float64 or got.shape != sub.shape:
                    fails.append(Failure("calibrated read: wrong element type or shape", case,
                                         [str(got.dtype), list(got.shape)], ["float64", list(sub.shape)],
                                         "DataArray._read_data"))
                else:
                    for j, (g, x) in enumerate(zip(got.ravel(), sub.ravel())):
                        x = float(x)
                        bad = None
                        if x != x:
                            if g == g:
                                bad = "NaN"
                        elif x in (float("inf"), float("-inf")):
                            if not cs and g != x:
                                bad = "x - o of an infinite element (the same infinity)"
                        else:
                            fx = Fraction(x)
                            gv = np_to_frac(g)
                            want_v = poly_exact(cs, o, fx)
                            if abs(want_v) < Fraction(10) ** 300:
                                ok, _ = value_ok(gv, want_v, cs, o, fx)
                                if not ok:
                                    bad = repr(float(want_v))
                        if bad is not None:
                            fails.append(Failure("calibrated read: element %d (stored %r) is not %s" % (j, x, bad),
                                                 case, repr(float(g)), bad, "DataArray._read_data"))
                            break
            elif not same_bits(got, want):
                fails.append(Failure("read with an empty calibration is not the stored values", case,
                                     canon_array(got), canon_array(want), "DataArray._read_data"))
            # 3. stored values untouched, clearing restores
            h5 = da._h5group.group["data"][()]
            evals += 1
            if not same_bits(h5, data):
                fails.append(Failure("stored raw values changed by a calibration operation", case, canon_array(h5),
                                     canon_array(data), "DataArray.polynom_coefficients / expansion_origin"))
            da.polynom_coefficients = None
            da.expansion_origin = None
            if not same_bits(np.atleast_1d(obj[ix]), want):
                fails.append(Failure("read after clearing the calibration is not the stored values", case,
                                     canon_array(obj[ix]), canon_array(want), "DataArray._read_data"))
    finally:
        try:
            f.close()
        except Exception:
            pass
        try:
            os.remove(path)
        except OSError:
            pass
    return fails[:1], evals


def oracle(ctx, broken, hints):
    rng = ctx.rng
    n = 4000 if (broken and not ctx.quick()) else 1200 if broken else ctx.budget(600, 5000)

    def all_cases():
        for h in hints[:100]:
            if isinstance(h, dict) and "ops" in h:
                yield h
        for c in FIXED_CASES:
            yield c
        for c in core.load_corpus(PROP):
            yield c
        for k in range(n):
            yield gen_oracle_case(rng, "exact" if k % 4 else "float" if k % 8 else "big")
            if k % 10 == 0:
                yield special_case(rng)

    failures = []
    evals = 0
    ncases = 0
    seen = set()
    for c in all_cases():
        ncases += 1
        fs, ev = oracle_special(ctx, c) if "special" in c else oracle_case(ctx, c)
        evals += ev
        for f in fs:
            key = (f.what, core.canon(f.input))
            if key not in seen:
                seen.add(key)
                failures.append(f)
        if len(failures) >= 25:
            break
    failures.sort(key=lambda f: len(core.canon(f.input)))
    return {"evaluations": evals, "failures": failures, "cases": ncases}


def matches_known(entry, failure):
    return False


def replay_failure(ctx, fj):
    inp = fj["input"]
    case = inp["case"] if isinstance(inp, dict) and "case" in inp else inp
    if isinstance(case, dict) and "special" in case:
        fs, _ = oracle_special(ctx, case)
        return fs[0] if fs else None
    fs, _ = oracle_case(ctx, case)
    return fs[0] if fs else None


READY = True
MANIFEST = {
    "level_text": "Kernel-checked theorems over a Lean model of DataArray._read_data, util.apply_polynomial (NumPy's "
                  "polyval loop), the two calibration setters (validation, None handling, invalid values) and DataView "
                  "reads, in exact rational arithmetic. The statement lists of these functions are REGENERATED from "
                  "the source on every run (Generated/CalibShape.lean) and proved to compute the model functions "
                  "(C15_shape_read_data, _view_read, _setters, _entry_points), so the theorems speak about the code as "
                  "it stands: every read returns sum c_k (x-o)^k of exactly the selected raw elements as float64 "
                  "(Horner loop = monomial sum; default polynomial {0,1} for an origin without coefficients; zero, "
                  "constant and identity polynomials; appended zero coefficients change nothing); reading through any "
                  "index expression equals selecting from the calibrated whole read (gather/map commute for every list "
                  "of positions; a read fails only with the selection's refusal); every view / tag / feature read is a "
                  "_read_data of the parent; result element type float64 iff calibrated, for every stored type; no "
                  "history of set/change/clear operations, accepted or refused, interleaved with reads, writes and "
                  "reopening, changes the stored elements, shape or element type (induction over the history); a "
                  "refused operation changes nothing at all; only the last assignment counts; without calibration every "
                  "read is the raw read in the stored type and clearing restores it after any history; ticks of a "
                  "linked range dimension are raw values. Separate theorems bound the float evaluation under the "
                  "standard IEEE model by ((1+u)^(3n-2)-1) * sum|c_k||x-o|^k, with the extra shift term for stored "
                  "64-bit integers that are not doubles. The model is tied to the code by the translator and by "
                  "differential runs on real HDF5 files over all numeric dtypes, coefficient lists 0-5, invalid "
                  "values, origins None/0/non-zero, several live objects per array and all read paths (array, slices, "
                  "single elements, np.array, DataView via get_slice / Tag / MultiTag / feature_data tagged, indexed, "
                  "untagged), plus a NumPy/Fraction oracle (incl. NaN/inf/extreme elements, read_direct, iteration, "
                  "index lists, masks, Ellipsis).",
    "level_note": "Partial aspect: floating-point rounding of the polynomial — the read-path model is exact; the "
                  "correspondence demands equality where every float operation on the path is exact and the proved "
                  "bound (standard model: each operation exact*(1+delta), |delta|<=2^-53, no overflow/underflow) "
                  "otherwise. NaN/inf coefficients and complex origins are outside the model. Trusted: Lean kernel; "
                  "axioms propext/Classical.choice/Quot.sound; the ast translator and the statement interpreters; the "
                  "stand-ins for h5py hyperslab selection, H5Group.write_data/get_data/set_attr and numpy polyval; the "
                  "correspondence harness and its generators.",
    "technique": "Lean 4 proof (source-to-Lean translation of the read path's statement lists with proved "
                 "interpreter/model equivalence; induction over coefficient lists, index shapes and operation "
                 "histories; ordered-field arithmetic for the rounding bounds) with differential correspondence and a "
                 "NumPy/Fraction property oracle",
}
