"""C03-only extensions of the structural-model harness (lib/storeimpl.py, lib/storegen.py are shared):

* `ImplX` / `GenX`: data frames (create, delete by every key form, link into / unlink from `group.data_frames`),
  `create_multi_tag` with raw positions / extents (auto-created `<name>-positions` / `<name>-extents` arrays), and
  names chosen to collide with entities of the SAME kind and of OTHER kinds of the same block;
* `uuid_family`: generated spellings around `uuid.UUID(text)` acceptance, to pin `Py/UuidText.lean` (and the
  dispatch function `Store.pyIsUuid` on the histories' domain) against `nixio.util.is_uuid`.
"""
import os
from collections import OrderedDict

from ..lib import storegen
from ..lib.storegen import Gen, Ent, inventory, skey, real_uuid, NAMES_UUIDISH
from ..lib.storeimpl import Impl, BadOp


class ImplX(Impl):
    def _run(self, op):
        kind = op[0]
        if kind == "create_frame":
            owner = self.nav(op[1])
            if not hasattr(owner, "create_data_frame"):
                raise AttributeError("create_data_frame")
            owner.create_data_frame(self.name_arg(op[2]), op[3], col_dict=OrderedDict([("a", int), ("b", float)]))
            return None
        if kind == "create_mtag_auto":
            owner = self.nav(op[1])
            if not hasattr(owner, "create_multi_tag"):
                raise AttributeError("create_multi_tag")
            if op[4]:
                owner.create_multi_tag(self.name_arg(op[2]), op[3], positions=[1.0, 2.0], extents=[0.5, 0.5])
            else:
                owner.create_multi_tag(self.name_arg(op[2]), op[3], positions=[1.0, 2.0])
            return None
        return Impl._run(self, op)


BLOCK_KINDS = (("groups", "group"), ("data_arrays", "data_array"), ("data_frames", "data_frame"), ("tags", "tag"),
               ("multi_tags", "multi_tag"), ("sources", "source"))


LINK_LISTS = {"group": ("data_arrays", "data_frames", "tags", "multi_tags", "sources"), "data_array": ("sources",),
              "tag": ("references", "sources"), "multi_tag": ("references", "sources")}
ROLE_LINKS = {"block": ("metadata",), "group": ("metadata",), "data_array": ("metadata",), "tag": ("metadata",),
              "multi_tag": ("metadata", "positions", "extents"), "source": ("metadata",), "section": ("link",)}


def frames(impl):
    """data frames reachable through the public API (storegen.inventory does not list them)"""
    out = []
    for bi, b in enumerate(impl.f.blocks):
        bp = ["data", bi if real_uuid(b.name) else b.name]
        for i, e in enumerate(b.data_frames):
            out.append(Ent("data_frame", bp + ["data_frames", i if real_uuid(e.name) else e.name], e.name, b.name))
    return out


class GenX(Gen):
    """storegen.Gen plus the frame / cross-kind actions; `share` = probability of such an action per step"""

    def __init__(self, rng, impl, profile="mixed", share=0.3):
        Gen.__init__(self, rng, impl, profile)
        self.share = share

    def via_links(self, ents):
        """paths that lead to an owned entity through a link list or a single link (role): [(via_path, Ent)]"""
        impl = self.impl
        objs, byid = [], {}
        for e in ents:
            if e.kind in ("feature", "property"):
                continue
            try:
                o = impl.nav(e.path)
            except Exception:
                continue
            objs.append((e, o))
            byid[o.id] = e
        out = []
        for e, o in objs:
            for cname in LINK_LISTS.get(e.kind, ()):
                try:
                    for i, t in enumerate(getattr(o, cname)):
                        if t.id in byid:
                            out.append((e.path + [cname, i], byid[t.id]))
                except Exception:
                    pass
            for role in ROLE_LINKS.get(e.kind, ()):
                try:
                    t = getattr(o, role)
                except Exception:
                    t = None
                if t is not None and t.id in byid:
                    out.append((e.path + [role], byid[t.id]))
            if e.kind in ("tag", "multi_tag"):
                try:
                    for i, ft in enumerate(o.features):
                        t = ft.data
                        if t is not None and t.id in byid:
                            out.append((e.path + ["features", i, "data"], byid[t.id]))
                except Exception:
                    pass
        return out

    def provenance(self, ents):
        """the entity presented by a handle that was obtained through a link: membership / lookup / deletion in the
        owning container, in a container of the same kind that does not hold it, in the link lists"""
        rng = self.rng
        vias = self.via_links(ents)
        if not vias:
            return False
        via, te = rng.choice(vias)
        owner_path, cname = te.path[:-2], te.path[-2]
        self.do(["has", owner_path, cname, {"o": via}])
        self.do(["get", owner_path, cname, {"id": via}])
        self.do(["has", owner_path, cname, {"id": via}])
        if te.name is not None:
            self.do(["get", owner_path, cname, {"nameof": via}])
            self.do(["has", owner_path, cname, {"nameof": via}])
        # a container of the same kind of entity that does not hold it (another block, another parent)
        others = [e for e in ents if e.kind == te.kind and e.path[:-2] != owner_path]
        if others:
            o = rng.choice(others)
            self.do(["has", o.path[:-2], o.path[-2], {"o": via}])
        # the link lists that may hold it
        holders = [(e, cn) for e in ents for cn in LINK_LISTS.get(e.kind, ()) if storegen.ITEM_KIND.get(cn) == te.kind
                   or (cn == "data_frames" and te.kind == "data_frame")]
        if holders:
            e, cn = rng.choice(holders)
            self.do(["has", e.path, cn, {"o": via}])
            q = rng.random()
            if q < 0.35:
                self.do(["append", e.path, cn, {"o": via}])
                self.do(["list", e.path, cn])
            elif q < 0.55:
                self.do(["del", e.path, cn, {"o": via}])
                self.do(["list", e.path, cn])
        if rng.random() < 0.15:
            self.do(["del", owner_path, cname, {"o": via}])          # deletion by object, the handle came over a link
            self.do(["list", owner_path, cname])
            self.do(["list", via[:-2], via[-2]] if isinstance(via[-1], int) else ["role", via[:-1], via[-1]])
        return True

    def step(self):
        if self.rng.random() >= self.share or not len(self.impl.f.blocks):
            return Gen.step(self)
        rng = self.rng
        ents = inventory(self.impl) + frames(self.impl)
        if rng.random() < 0.3 and self.provenance(ents):
            return
        blk = self.pick(ents, "block")
        taken = {cn: self.siblings(ents, blk.path, cn) for cn, _ in BLOCK_KINDS}
        r = rng.random()
        if r < 0.55:
            # create in one kind under a name of the SAME kind (refused), of ANOTHER kind (accepted), or a pool name
            cn, kind = rng.choice(BLOCK_KINDS + (("data_frames", "data_frame"),) * 3 + (("multi_tags", "multi_tag"),) * 2)
            q = rng.random()
            own = [n for n in taken[cn] if not real_uuid(n)]
            other = sorted({n for c2 in taken for n in taken[c2] if c2 != cn and not real_uuid(n)})
            if own and q < 0.25:
                name = rng.choice(own)
            elif other and q < 0.65:
                name = rng.choice(other)
                if kind == "multi_tag" and rng.random() < 0.3:
                    # the name whose auto-created array would collide / just not collide with an existing array
                    for suf in ("-positions", "-extents"):
                        if name.endswith(suf):
                            name = name[:-len(suf)]
            else:
                name = self.name(own)
            if kind == "data_frame":
                self.do(["create_frame", blk.path, name, self.typ()])
            elif kind == "multi_tag" and rng.random() < 0.6:
                self.do(["create_mtag_auto", blk.path, name, self.typ(), rng.random() < 0.5])
                self.probe(blk.path, "data_arrays", "block")
            else:
                extra = None
                if kind == "multi_tag":
                    da = self.pick(ents, "data_array", block=blk.block)
                    extra = da.path if da else None
                self.do(["create", blk.path, kind, name, self.typ(), extra])
            self.probe(blk.path, cn, "block", NAMES_UUIDISH[:2])
            # the other kinds of the block do not see the call
            for c2, _ in rng.sample(BLOCK_KINDS, 2):
                self.do(["list", blk.path, c2])
        elif r < 0.75:
            fr = self.pick(ents, "data_frame")
            if fr is None:
                return Gen.step(self)
            owner_path = fr.path[:-2]
            out = self.do(["list", owner_path, "data_frames"])
            items = out.get("ok") or []
            sel = fr.path[-1]
            pos = sel if isinstance(sel, int) else next((i for i, it in enumerate(items) if it[0] == sel), 0)
            self.do(["del", owner_path, "data_frames", self.key_for(fr.path, fr.name, pos, len(items))])
            self.probe(owner_path, "data_frames", "block", [fr.name])
            for c2, _ in rng.sample(BLOCK_KINDS, 2):       # same name in another kind stays
                self.do(["list", owner_path, c2])
        else:
            grp = self.pick(ents, "group")
            fr = self.pick(ents, "data_frame", block=grp.block if grp is not None and rng.random() < 0.85 else None)
            if grp is None or fr is None:
                return Gen.step(self)
            if rng.random() < 0.7:
                self.do(["append", grp.path, "data_frames", {"o": fr.path} if rng.random() < 0.9 else {"id": fr.path}])
            else:
                out = self.do(["list", grp.path, "data_frames"])
                items = out.get("ok") or []
                if items:
                    i = rng.randrange(len(items))
                    self.do(["del", grp.path, "data_frames",
                             self.key_for(grp.path + ["data_frames", i], items[i][0], i, len(items))])
            self.probe(grp.path, "data_frames", "group", [fr.name] if fr.name else [])
            self.do(["list", grp.path[:2], "data_frames"])


storegen.INDEXED.add(("group", "data_frames"))


def run_history(ctx, rng, steps, profile, tag, reopen_prob=0.0, share=0.3):
    """as storegen.run_history, with the extended generator; returns (ops, impl_outs)"""
    path = ctx.tmpfile("storex-%s.nix" % tag)
    impl = ImplX(path, literal_uuid_names=(storegen.LIT_UUID,))
    gen = GenX(rng, impl, profile, share)
    try:
        for _ in range(steps):
            gen.step()
            if reopen_prob and rng.random() < reopen_prob:
                impl.reopen("a")
                gen.ops.append(["noop"])
                gen.outs.append({"ok": None})
        gen.do(["dump"])
    finally:
        impl.close()
        try:
            os.remove(path)
        except OSError:
            pass
    return gen.ops, gen.outs


# ---------------------------------------------------------------------------------------
# spellings around uuid.UUID(text)

HEX = "0123456789abcdefABCDEF"
SPACES = [" ", "\t", "\n", "\x0b", "\x0c", "\r", "\x1c", "\x1f", "\x85", "\xa0", "\u1680", "\u2000", "\u2003",
          "\u200a", "\u2028", "\u2029", "\u202f", "\u205f", "\u3000", "\u200b", "\ufeff", "\u180e"]
DEC_ZEROS = [0x660, 0x6f0, 0x7c0, 0x966, 0x9e6, 0xa66, 0xae6, 0xb66, 0xbe6, 0xc66, 0xce6, 0xd66, 0xde6, 0xe50, 0xed0,
             0xf20, 0x1040, 0x1090, 0x17e0, 0x1810, 0x1946, 0x19d0, 0x1a80, 0x1a90, 0x1b50, 0x1bb0, 0x1c40, 0x1c50,
             0xa620, 0xa8d0, 0xa900, 0xa9d0, 0xa9f0, 0xaa50, 0xabf0, 0xff10, 0x104a0, 0x10d30, 0x11066, 0x110f0,
             0x11136, 0x111d0, 0x112f0, 0x11450, 0x114d0, 0x11650, 0x116c0, 0x11730, 0x118e0, 0x11950, 0x11c50,
             0x11d50, 0x11da0, 0x11f50, 0x16a60, 0x16ac0, 0x16b50, 0x1d7ce, 0x1d7d8, 0x1d7e2, 0x1d7ec, 0x1d7f6,
             0x1e140, 0x1e2f0, 0x1e4f0, 0x1e950, 0x1fbf0]
ODD = ["g", "G", "x", "X", "_", "+", "-", "{", "}", ":", "\xe9", "\uff41", "\uff21", "\xb2", "\u2167", "\x00", "?", ".",
       "/", "\u066b", "\x7f", "\x80"]


def _digits(rng, n):
    return "".join(rng.choice(HEX) for _ in range(n))


def _mutate(rng, s):
    """one edit that keeps or changes the length"""
    r = rng.random()
    n = len(s)
    i = rng.randrange(n + 1)
    if r < 0.14:                                   # hyphens anywhere (they are dropped)
        return s[:i] + "-" * rng.choice([1, 1, 2]) + s[i:]
    if r < 0.24:                                   # braces: outside they are stripped, inside they are not
        return rng.choice(["{" + s + "}", "{{" + s + "}", "}" + s + "{", s[:i] + rng.choice("{}") + s[i:], "{" + s])
    if r < 0.36:                                   # prefixes, also repeated / in the middle / wrong case / nested
        pre = rng.choice(["urn:uuid:", "urn:", "uuid:", "URN:UUID:", "urn:urn:", "uuid:urn:", "uurn:rn:", "urn:uuid",
                          "uuuid:uid:", "urn :"])
        return rng.choice([pre + s, s[:i] + pre + s[i:], s + pre])
    if r < 0.50 and n:                             # replace one character (length kept)
        j = rng.randrange(n)
        c = rng.choice(SPACES + ODD + [chr(rng.choice(DEC_ZEROS) + rng.randrange(10)) for _ in range(6)])
        return s[:j] + c + s[j + 1:]
    if r < 0.62 and n:                             # replace an end character by white space (int() strips it)
        c = rng.choice(SPACES)
        return (c + s[1:]) if rng.random() < 0.5 else (s[:-1] + c)
    if r < 0.72 and n > 2:                         # 0x / sign / underscore forms of the same length
        form = rng.choice(["0x", "0X", "+", "0x_", "+0x", " 0x", "0x+", "_", "0_", "0b", "0o", "-"])
        return form + s[len(form):]
    if r < 0.80 and n > 2:                         # underscores between / next to digits
        j = rng.randrange(1, n)
        u = rng.choice(["_", "__", "_"])
        return s[:j] + u + s[j + len(u):]
    if r < 0.88 and n:                             # shorter / longer
        return s[:i] + s[i + 1:] if rng.random() < 0.5 else s[:i] + rng.choice(HEX) + s[i:]
    if r < 0.94:                                   # canonical hyphenation
        t = (s + "0" * 32)[:32]
        return "-".join([t[:8], t[8:12], t[12:16], t[16:20], t[20:]])
    return s.swapcase()


def uuid_family(rng, n):
    """n spellings: 32 hex digits with 0..4 edits, plus fixed corner cases"""
    out = ["", "-", "{}", "urn:uuid:", "0" * 32, "f" * 32, "F" * 33, "0" * 31, "0x" + "0" * 30, "0x_" + "0" * 29,
           "0x__" + "0" * 28, "0" * 31 + "_", "_" + "0" * 31, "+" + "1" * 31, "-" + "1" * 32, " " + "1" * 31,
           "1" * 31 + "\n", "1" * 15 + " " + "1" * 16, "{" + "a" * 32 + "}", "{{" + "a" * 32 + "}}", "urn:uuid:" + "b" * 32,
           "uuid:urn:" + "b" * 32, "uurn:rn:" + "b" * 32, "b" * 16 + "urn:" + "b" * 16, "\u0661" * 32, "\uff10" * 32,
           "\x85" + "2" * 31, "\x1c" + "2" * 31, "0x" + "\uff10" * 30, "\uff10x" + "0" * 30, "id:0", "id:12"]
    while len(out) < n:
        s = _digits(rng, 32)
        for _ in range(rng.choice([0, 1, 1, 1, 2, 2, 3, 4])):
            s = _mutate(rng, s)
        out.append(s)
    return out
