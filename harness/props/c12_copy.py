"""C12 — copies: model (Pure/CopyWrite.lean run on the step lists of Generated/CopyOrder.lean) vs. nixio.

A case is one copying call (create_data_array / create_tag / create_block / create_property with copy_from,
File.copy_section, Section.copy_section) with the name, the keep-id flag, the children flag and the source in one
of several spellings.  The harness abstracts the arguments the way the model sees them by probing the Python
objects (`not name`, isinstance str / bytes, membership in the destination group read with h5py, NUL / encoding,
`bool(flag)`), runs the real call and compares: refused or not, the number of members of the destination container,
and for a new member: `name` attribute written, id fresh or the source's, (sections) properties present.
"""
import numpy as np
import nixio

from . import c12_respell as RS

FUNCTIONS = ["Block.create_data_array(copy_from=...)", "Block.create_tag(copy_from=...)", "File.create_block(copy_from=...)", "Section.create_property(copy_from=...)",
             "File.copy_section", "Section.copy_section"]

NAMES = [("'cp-new'", lambda: "cp-new"), ("''", lambda: ""), ("None", lambda: None), ("'taken'", lambda: "taken"),
         ("np.str_('cp2')", lambda: np.str_("cp2")), ("StrSub('cp3')", lambda: RS._StrSub("cp3")),
         ("'a\\x00b'", lambda: "a\x00b"), ("'a\\udc80'", lambda: "a\udc80"), ("b'cpb'", lambda: b"cpb"), ("5", lambda: 5),
         ("0", lambda: 0), ("[]", lambda: []), ("['x']", lambda: ["x"]), ("np.array(['a','b'])", lambda: np.array(["a", "b"])),
         ("1.5", lambda: 1.5), ("object()", lambda: object()), ("np.str_('taken')", lambda: np.str_("taken")),
         ("'caf\\xe9'", lambda: "caf\xe9"), ("Stringy('q')", lambda: RS._Stringy("q"))]
NAME_INDEX = dict(NAMES)
FLAGS = [("True", lambda: True), ("False", lambda: False), ("1", lambda: 1), ("0", lambda: 0), ("None", lambda: None),
         ("'no'", lambda: "no"), ("''", lambda: ""), ("np.bool_(False)", lambda: np.bool_(False)),
         ("np.array([1, 0])", lambda: np.array([1, 0])), ("np.array([])", lambda: np.array([])), ("[]", lambda: []),
         ("np.array(0)", lambda: np.array(0))]
FLAG_INDEX = dict(FLAGS)


def gen_case(rng):
    fn = rng.choice(FUNCTIONS)
    r = rng.random()
    return {"fn": fn,
            "name": rng.choice(NAMES)[0] if r < 0.7 else rng.choice(["'cp-new'", "'cp-new'", "'taken'", "''"]),
            "keep": rng.choice(FLAGS)[0] if rng.random() < 0.6 else rng.choice(["True", "False"]),
            "children": rng.choice(FLAGS)[0] if rng.random() < 0.5 else rng.choice(["True", "False"]),
            "kind_ok": rng.random() < 0.85}


def _flag_abs(v):
    try:
        return [True, bool(v)]
    except Exception:       # noqa
        return [False, False]


class Scene:
    """one file; the destination containers hold an entity named `taken`; what a case adds is removed again"""

    def __init__(self, path):
        self.f = nixio.File.open(path, nixio.FileMode.Overwrite)
        f = self.f
        self.src_b = f.create_block("src", "t")
        self.dst_b = f.create_block("dst", "t")
        self.src_da = self.src_b.create_data_array("orig", "t", data=[1.0, 2.0])
        self.src_tag = self.src_b.create_tag("orig", "t", [1.0])
        self.dst_b.create_data_array("taken", "t", data=[1.0])
        self.dst_b.create_tag("taken", "t", [1.0])
        f.create_block("taken", "t")
        self.src_sec = f.create_section("orig", "t")
        self.src_sec.create_section("kid", "t")
        self.src_prop = self.src_sec.create_property("orig", [1, 2])
        self.dst_sec = f.create_section("dstsec", "t")
        self.dst_sec.create_section("taken", "t")
        self.dst_sec.create_property("taken", [1])
        f.create_section("taken", "t")
        self.h5 = f._h5file

    def close(self):
        try:
            self.f.close()
        except Exception:       # noqa
            pass

    def _plan(self, case):
        """(call(name, keep, children), destination h5 path, source object, wrong-kind object)"""
        fn = case["fn"]
        if fn.startswith("Block.create_"):
            if "data_array" in fn:
                return (lambda src, n, k, c: self.dst_b.create_data_array(name=n, copy_from=src, keep_copy_id=k),
                        "data/dst/data_arrays", self.src_da, self.src_tag)
            return (lambda src, n, k, c: self.dst_b.create_tag(name=n, copy_from=src, keep_copy_id=k),
                    "data/dst/tags", self.src_tag, self.src_da)
        if fn.startswith("File.create_block"):
            return (lambda src, n, k, c: self.f.create_block(name=n, copy_from=src, keep_copy_id=k), "data", self.src_b,
                    self.src_sec)
        if fn.startswith("Section.create_property"):
            return (lambda src, n, k, c: self.dst_sec.create_property(name=n, copy_from=src, keep_copy_id=k),
                    "metadata/dstsec/properties", self.src_prop, self.src_sec)
        if fn == "File.copy_section":
            return (lambda src, n, k, c: self.f.copy_section(src, children=c, keep_id=k, name=n), "metadata", self.src_sec,
                    self.src_b)
        return (lambda src, n, k, c: self.dst_sec.copy_section(src, children=c, keep_id=k, name=n),
                "metadata/dstsec/sections", self.src_sec, self.src_b)

    def abstract(self, case):
        """the model's view of the case: [kindOk, [truthOk, memberOk, taken, storable], keep flag, children flag]"""
        call, dest, src, wrong = self._plan(case)
        name = NAME_INDEX[case["name"]]()
        try:
            eff, truth_ok = (name if name else str(src.name)), True
        except Exception:       # noqa
            eff, truth_ok = name, False
        member_ok = isinstance(eff, (str, bytes))
        grp = self.h5.get(dest)
        taken = False
        if member_ok and grp is not None:
            try:
                taken = eff in grp
            except Exception:       # noqa
                taken = False
        storable = True
        if isinstance(eff, str):
            try:
                str(eff).encode("utf-8")
                storable = "\x00" not in eff
            except Exception:       # noqa
                storable = False
        children = _flag_abs(FLAG_INDEX[case["children"]]()) if "copy_section" in case["fn"] else [True, True]
        return [case["kind_ok"], [truth_ok, member_ok, bool(taken), storable], _flag_abs(FLAG_INDEX[case["keep"]]()), children]

    def model_op(self, case):
        a = self.abstract(case)
        fn = case["fn"]
        return ["copy_run", fn, a[0], a[1], a[2], a[3]]

    def run(self, case):
        call, dest, src, wrong = self._plan(case)
        grp = self.h5.get(dest)
        before = sorted(grp.keys()) if grp is not None else []
        name = NAME_INDEX[case["name"]]()
        err = None
        try:
            call(src if case["kind_ok"] else wrong, name, FLAG_INDEX[case["keep"]](), FLAG_INDEX[case["children"]]())
        except Exception as e:      # noqa
            err = "%s: %s" % (type(e).__name__, str(e)[:120])
        grp = self.h5.get(dest)
        after = sorted(grp.keys()) if grp is not None else []
        new = [k for k in after if k not in before]
        last = None
        if new:
            obj = grp[new[0]]
            oid = obj.attrs.get("entity_id")
            oid = oid.decode() if isinstance(oid, bytes) else oid
            props = True
            if "copy_section" in case["fn"]:
                props = "properties" in obj and len(obj["properties"]) == len(self.src_sec.props)
            last = {"fresh": oid != src.id if case["kind_ok"] else True, "named": "name" in obj.attrs, "props": bool(props)}
            for k in new:
                del grp[k]
        return {"refused": err is not None, "error": err, "items": len(after) - len(before) + 1, "last": last}


def canon_model(m):
    if "ok" not in m:
        return {"bad": m}
    r = m["ok"]
    return {"refused": r["err"] is not None, "items": r["items"], "last": r["last"]}


def canon_impl(i):
    return {"refused": i["refused"], "items": i["items"], "last": i["last"]}
