"""tools/baseline.py [tree]  — run the pinned test suite on a tree (default /repo) with the verification guard OFF and
check that every test of BASELINE.json's stable_pass list still passes."""
import json, os, subprocess, sys, tempfile
import xml.etree.ElementTree as ET

tree = sys.argv[1] if len(sys.argv) > 1 else "/repo"
base = json.load(open("/root/.vp/BASELINE.json"))
stable = set(base["stable_pass"])
with tempfile.TemporaryDirectory() as d:
    xml = os.path.join(d, "j.xml")
    env = dict(os.environ, PYTHONPATH=tree)
    env.pop("NIXPY_VERIF", None)
    subprocess.run(["/venv/bin/python", "-m", "pytest", "-q", "-p", "no:cacheprovider", "--timeout=900", "-n", "8",
                    "--continue-on-collection-errors", "--junitxml=" + xml, "nixio/test"], cwd=tree, env=env,
                   stdout=subprocess.DEVNULL, stderr=subprocess.DEVNULL)
    passed = set()
    for tc in ET.parse(xml).getroot().iter("testcase"):
        if not any(c.tag in ("failure", "error", "skipped") for c in tc):
            passed.add("%s::%s" % (tc.get("classname"), tc.get("name")))
missing = sorted(stable - passed)
print("stable_pass: %d, passing now: %d, missing: %d, newly passing beyond baseline: %d" % (
    len(stable), len(stable & passed), len(missing), len(passed - stable)))
for m in missing:
    print("  NOT PASSING:", m)
sys.exit(1 if missing else 0)
