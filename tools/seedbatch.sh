#!/bin/sh
# tools/seedbatch.sh <par> <pid>:<k> ...   — run tools/seedcheck.py on /tmp/seed/<pid>/out/<k> as seed id <pid>-<k>, <par> at a time
PAR="$1"; shift
mkdir -p /tmp/seedlogs
printf '%s\n' "$@" | xargs -P "$PAR" -I{} sh -c 'x={}; pid=${x%%:*}; k=${x##*:}; /venv/bin/python /verif/tools/seedcheck.py /tmp/seed/$pid/out/$k $pid-$k $pid > /tmp/seedlogs/$pid-$k.log 2>&1; echo "$pid-$k done"'
