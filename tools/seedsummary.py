"""tools/seedsummary.py — one line per seeded change from seeded/*/meta.json"""
import json, glob, os
for d in sorted(glob.glob("/verif/seeded/*/")):
    try:
        m = json.load(open(d + "meta.json"))
    except Exception as e:
        print(os.path.basename(d[:-1]), "no meta", e); continue
    v = m.get("verification", {})
    ch = v.get("checks", {})
    res = []
    for p, c in ch.items():
        viol = [l for l in c["lines"] if l.startswith("VIOLATION")]
        kind = "MISSED" if c["exit"] == 0 else ("infra" if c["exit"] == 2 else "timeout" if c["exit"] == 124 else ("caught-nofail" if viol and "no-failing-input-found" in viol[0] else "caught"))
        res.append("%s:%s(%ss)" % (p, kind, c["wall_s"]))
    for extra in m.get("later_runs", []):
        res.append("later %s:%s" % (extra["check"], extra["result"]))
    print("%-7s %s %s" % (v.get("seed_id", os.path.basename(d[:-1])), "confirmed" if v.get("confirmed") else "NOT-CONFIRMED(%s,%s,%s,%s)" % (v.get("patch_applies"), v.get("demo_without_patch"), v.get("demo_with_patch"), v.get("baseline_ok")), " ".join(res)))
