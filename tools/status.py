"""tools/status.py — markdown status tables for DESIGN.md section 0 (generated from the harness modules,
known_findings.json, the evidence files and /repo's git log)."""
import importlib, json, os, subprocess, sys
sys.path.insert(0, "/verif")
IDS = ["C%02d" % i for i in range(1, 21)]
kf = json.load(open("/verif/known_findings.json"))
print("| id | Lean module (theorems) | model files | known findings (open / fixed) | last quick run |")
print("|---|---|---|---|---|")
for pid in IDS:
    try:
        P = importlib.import_module("harness.props.%s" % pid.lower())
    except Exception as e:
        print("| %s | (not built: %s) | | | |" % (pid, type(e).__name__))
        continue
    nth = len(getattr(P, "THEOREMS", []))
    ready = getattr(P, "READY", False)
    op = [e["id"] for e in kf if e["property"] == pid and e["status"] == "open"]
    fx = [e["id"] for e in kf if e["property"] == pid and e["status"] == "fixed"]
    ev = ""
    p = "/verif/evidence/%s.json" % pid
    if os.path.exists(p):
        e = json.load(open(p))
        c = e["coverage"]
        ev = "%s: %d/%d thms, %d corr. cases, %.0f s" % (e["tier"], c.get("discharged", 0), c.get("obligations", 0),
                                                       c.get("traces_validated_against_impl", 0), e["wall_s"])
    src = open("/verif/lean/" + P.LEAN_MODULE.replace(".", "/") + ".lean").read()
    imports = sorted(set(l.split()[1].replace("NixModel.", "") for l in src.split("\n") if l.startswith("import NixModel.")))
    print("| %s%s | `%s` (%d) | %s | %d open%s / %d fixed | %s |" % (
        pid, "" if ready else " (not READY)", P.LEAN_MODULE.replace("NixModel.", ""), nth, ", ".join(imports)[:90],
        len(op), (": " + ", ".join(op)) if op else "", len(fx), ev))
print()
print("| /repo commit | repair |")
print("|---|---|")
out = subprocess.run(["git", "-C", "/repo", "log", "--reverse", "--format=%h|%s", "d0da5e5..HEAD"], capture_output=True, text=True).stdout
for l in out.strip().split("\n"):
    h, s = l.split("|", 1)
    print("| %s | %s |" % (h, s.replace("|", "/")[:200]))
