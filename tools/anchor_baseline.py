"""tools/anchor_baseline.py — record the AST fingerprint of every nixio source file at /repo's working tree
(harness/anchor_baseline.json). Run after every commit to /repo; a stale baseline only makes quick runs slower
(budgets x3 for properties anchored in a file that differs), never wrong."""
import glob, json, os, sys
sys.path.insert(0, "/verif")
from harness.lib import core
out = {}
for p in sorted(glob.glob("/repo/nixio/**/*.py", recursive=True)):
    rel = os.path.relpath(p, "/repo")
    if "/test/" in rel:
        continue
    out[rel] = core.file_fingerprint(rel)
json.dump({"_repo_head": os.popen("git -C /repo rev-parse --short HEAD").read().strip(), **out},
          open("/verif/harness/anchor_baseline.json", "w"), indent=1, sort_keys=True)
print(len(out), "files")
