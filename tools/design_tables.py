"""tools/design_tables.py — regenerate the generated blocks of DESIGN.md section 0 (between the
<!-- BEGIN GENERATED:x --> / <!-- END GENERATED:x --> markers): status table, fix commits, known findings, seeded changes."""
import importlib, json, os, re, subprocess, sys, glob
sys.path.insert(0, "/verif")
IDS = ["C%02d" % i for i in range(1, 21)]
kf = json.load(open("/verif/known_findings.json"))


def status():
    out = ["| id | property theorems | translators (Generated/) | known findings open / fixed | last recorded run |", "|---|---|---|---|---|"]
    for pid in IDS:
        P = importlib.import_module("harness.props.%s" % pid.lower())
        nth = len(P.THEOREMS)
        gen = ""
        if hasattr(P, "extract"):
            try:
                gen = ", ".join(sorted(os.path.basename(k).replace(".lean", "") for k in P.extract("/repo")))
            except Exception as e:
                gen = "(extract failed: %s)" % type(e).__name__
        op = [e["id"] for e in kf if e["property"] == pid and e["status"] == "open"]
        fx = [e["id"] for e in kf if e["property"] == pid and e["status"] == "fixed"]
        ev = ""
        p = "/verif/evidence/%s.json" % pid
        if os.path.exists(p):
            e = json.load(open(p)); c = e["coverage"]
            ev = "%s: %d/%d theorems, %d correspondence cases, %d oracle evaluations, %.0f s" % (
                e["tier"], c.get("discharged", 0), c.get("obligations", 0), c.get("traces_validated_against_impl", 0),
                (c.get("oracle") or {}).get("evaluations", 0), e["wall_s"])
        out.append("| %s | %d | %s | %d%s / %d | %s |" % (pid, nth, gen or "—", len(op), (" (" + ", ".join(op) + ")") if op else "", len(fx), ev))
    return "\n".join(out)


def fixes():
    out = ["| /repo commit | repair |", "|---|---|"]
    log = subprocess.run(["git", "-C", "/repo", "log", "--reverse", "--format=%h|%s", "--grep=^fix:"], capture_output=True, text=True).stdout
    for l in log.strip().split("\n"):
        if "|" in l:
            h, s = l.split("|", 1)
            if s.startswith("fix:"):
                out.append("| %s | %s |" % (h, s[4:].strip().replace("|", "/")))
    return "\n".join(out)


def findings():
    out = ["| property | id | what | site | witness (Lean) |", "|---|---|---|---|---|"]
    for e in kf:
        if e["status"] == "open":
            out.append("| %s | %s | %s | %s | %s |" % (e["property"], e["id"], e["what"].replace("|", "/")[:400], e.get("site", ""), e.get("witness", "")))
    return "\n".join(out)


def seeds():
    out = ["| seed | change (site: mechanism) | needs | first run | now |", "|---|---|---|---|---|"]
    for d in sorted(glob.glob("/verif/seeded/*/")):
        sid = os.path.basename(d[:-1])
        try:
            m = json.load(open(d + "meta.json"))
        except Exception:
            continue
        v = m.get("verification", {})
        def res(c):
            viol = [l for l in c.get("lines", []) if l.startswith("VIOLATION")]
            return "MISSED" if c["exit"] == 0 else ("infra" if c["exit"] == 2 else "timeout" if c["exit"] == 124 else ("caught, no failing input" if viol and "no-failing-input-found" in viol[0] else "caught"))
        first = ", ".join("%s %s" % (p, res(c)) for p, c in v.get("checks", {}).items())
        later = {}
        for r in m.get("later_runs", []):
            later[r["check"]] = r["result"].replace("caught-nofail", "caught, no failing input")
        now = ", ".join("%s %s" % kv for kv in later.items()) or "(as first run)"
        out.append("| %s | %s | %s | %s | %s |" % (sid, (m.get("summary") or "").replace("|", "/").replace("\n", " ")[:260],
                                                  (m.get("needs_to_manifest") or "").replace("|", "/").replace("\n", " ")[:200], first, now))
    return "\n".join(out)


blocks = {"status": status, "fixes": fixes, "findings": findings, "seeds": seeds}
path = "/verif/DESIGN.md"
s = open(path).read()
for name, fn in blocks.items():
    b, e = "<!-- BEGIN GENERATED:%s -->" % name, "<!-- END GENERATED:%s -->" % name
    if b in s and e in s:
        s = s[:s.index(b) + len(b)] + "\n" + fn() + "\n" + s[s.index(e):]
    else:
        print("marker missing:", name)
open(path, "w").write(s)
print("DESIGN.md tables regenerated")
