"""tools/seedcheck.py <mutdir> <seed-id> <prop> [<prop>...]

Confirms a seeded change produced by an independent sub-agent and runs our checks against it:
 1. patch applies to a scratch worktree of /repo HEAD;
 2. demo.py exits 0 without the patch and non-zero with it;
 3. the pinned baseline (stable_pass of BASELINE.json) still passes with the patch;
 4. each given check is run from a private copy of /verif against the patched tree (NIXPY_REPO).
Keeps the change under /verif/seeded/<seed-id>/ (patch.diff, demo.py, meta.json with what was run
and what each check reported). Nothing in /repo or /verif/lean is touched; scratch dirs are removed.
"""
import json
import os
import shutil
import subprocess
import sys
import time

mutdir, sid = sys.argv[1], sys.argv[2]
props = sys.argv[3:]
tag = "seed%d" % os.getpid()
wt, vc = "/tmp/wt-" + tag, "/tmp/v-" + tag
res = {"seed_id": sid, "checked_at_repo_head": subprocess.run(["git", "-C", "/repo", "rev-parse", "--short", "HEAD"],
                                                              capture_output=True, text=True).stdout.strip()}


def sh(cmd, **kw):
    return subprocess.run(cmd, shell=True, capture_output=True, text=True, **kw)


def demo():
    p = sh("cd %s && PYTHONPATH=%s timeout 600 /venv/bin/python %s/demo.py" % (wt, wt, mutdir))
    return p.returncode, (p.stdout + p.stderr)[-600:]


try:
    assert sh("git -C /repo worktree add -q --detach %s HEAD" % wt).returncode == 0
    rc0, out0 = demo()
    res["demo_without_patch"] = rc0
    ap = sh("git -C %s apply %s/patch.diff" % (wt, mutdir))
    if ap.returncode != 0:
        ap = sh("git -C %s apply --3way %s/patch.diff" % (wt, mutdir))
    res["patch_applies"] = ap.returncode == 0
    if not res["patch_applies"]:
        res["apply_error"] = ap.stderr[-400:]
    else:
        rc1, out1 = demo()
        res["demo_with_patch"] = rc1
        res["demo_output_with_patch"] = out1
        b = sh("/venv/bin/python /verif/tools/baseline.py %s" % wt)
        if b.returncode != 0:       # the suite is timing-sensitive under load: one retry
            b = sh("/venv/bin/python /verif/tools/baseline.py %s" % wt)
        res["baseline_with_patch"] = b.stdout.strip().split("\n")[0]
        res["baseline_ok"] = b.returncode == 0
        os.makedirs(vc)
        sh("rsync -a --exclude .git --exclude replays --exclude __pycache__ --exclude seeded /verif/ %s/" % vc)
        res["checks"] = {}
        for p in props:
            t0 = time.time()
            c = sh("cd %s && NIXPY_REPO=%s VERIF_SEED=%s timeout 2400 ./check %s" % (vc, wt, os.environ.get("VERIF_SEED", "0"), p))
            lines = [l for l in c.stdout.split("\n") if l.startswith(("VIOLATION", "OK ", "failing input", "no longer checks",
                                                                      "INFRA"))]
            res["checks"][p] = {"exit": c.returncode, "wall_s": round(time.time() - t0, 1), "lines": [l[:500] for l in lines[:6]]}
    ok = (res.get("patch_applies") and res.get("demo_without_patch") == 0 and res.get("demo_with_patch", 0) != 0
          and res.get("baseline_ok"))
    res["confirmed"] = bool(ok)
    dst = "/verif/seeded/%s" % sid
    os.makedirs(dst, exist_ok=True)
    for fn in ("patch.diff", "demo.py"):
        if os.path.abspath(os.path.join(mutdir, fn)) != os.path.abspath(os.path.join(dst, fn)):
            shutil.copy(os.path.join(mutdir, fn), os.path.join(dst, fn))
    meta = {}
    try:
        meta = json.load(open(os.path.join(mutdir, "meta.json")))
    except Exception:
        pass
    meta["verification"] = res
    json.dump(meta, open(os.path.join(dst, "meta.json"), "w"), indent=1)
    print(json.dumps(res, indent=1))
finally:
    sh("git -C /repo worktree remove --force %s" % wt)
    shutil.rmtree(vc, ignore_errors=True)
