#!/bin/sh
# tools/mutrun.sh <patch.diff> <prop> [<prop>...]
# Applies a patch to a scratch worktree of /repo and runs the given checks from a private copy
# of /verif against it (NIXPY_REPO). Nothing in /repo or /verif is touched. Cleans up afterwards.
set -u
PATCH="$(readlink -f "$1")"; shift
TAG="mut$$"
WT="/tmp/wt-$TAG"; VC="/tmp/v-$TAG"
git -C /repo worktree add -q --detach "$WT" HEAD || exit 2
if ! git -C "$WT" apply "$PATCH"; then echo "PATCH DOES NOT APPLY"; git -C /repo worktree remove --force "$WT"; exit 2; fi
mkdir -p "$VC" && rsync -a --exclude .git --exclude replays --exclude '__pycache__' /verif/ "$VC"/
rc=0
for p in "$@"; do
  echo "=== $p on $(basename "$PATCH")"
  ( cd "$VC" && NIXPY_REPO="$WT" VERIF_SEED="${VERIF_SEED:-0}" timeout 1500 ./check "$p" ${TIER:+--tier $TIER} 2>&1 | tail -${TAILN:-6} )
done
git -C /repo worktree remove --force "$WT"
rm -rf "$VC"
