"""tools/seedrerun.py <seed-id> <prop> [<prop>...]

Re-runs checks of the current /verif against an already confirmed seeded change (seeded/<seed-id>/patch.diff applied
to a scratch worktree of /repo HEAD) and appends the outcome to seeded/<seed-id>/meta.json under "later_runs".
Nothing in /repo or /verif/lean is touched; scratch dirs are removed."""
import json, os, shutil, subprocess, sys, time

sid, props = sys.argv[1], sys.argv[2:]
d = "/verif/seeded/%s" % sid
tag = "rerun%d" % os.getpid()
wt, vc = "/tmp/wt-" + tag, "/tmp/v-" + tag


def sh(cmd):
    return subprocess.run(cmd, shell=True, capture_output=True, text=True)


head = sh("git -C /verif rev-parse --short HEAD").stdout.strip()
dirty = bool(sh("git -C /verif status --porcelain -- harness lean/NixModel lean/Driver").stdout.strip())
try:
    assert sh("git -C /repo worktree add -q --detach %s HEAD" % wt).returncode == 0
    ap = sh("git -C %s apply %s/patch.diff" % (wt, d))
    if ap.returncode != 0:
        ap = sh("git -C %s apply --3way %s/patch.diff" % (wt, d))
    if ap.returncode != 0:
        print("patch no longer applies:", ap.stderr[-300:]); sys.exit(2)
    os.makedirs(vc)
    sh("rsync -a --exclude .git --exclude replays --exclude __pycache__ --exclude seeded /verif/ %s/" % vc)
    runs = []
    for p in props:
        t0 = time.time()
        c = sh("cd %s && NIXPY_REPO=%s VERIF_SEED=%s timeout 2400 ./check %s %s" % (
            vc, wt, os.environ.get("VERIF_SEED", "0"), p, ("--tier " + os.environ["TIER"]) if os.environ.get("TIER") else ""))
        lines = [l for l in c.stdout.split("\n") if l.startswith(("VIOLATION", "OK ", "failing input", "no longer checks", "INFRA"))]
        viol = [l for l in lines if l.startswith("VIOLATION")]
        result = "MISSED" if c.returncode == 0 else ("infra" if c.returncode == 2 else "timeout" if c.returncode == 124 else (
            "caught-nofail" if viol and "no-failing-input-found" in viol[0] else "caught"))
        runs.append({"check": p, "result": result, "exit": c.returncode, "wall_s": round(time.time() - t0, 1),
                     "verif_commit": head + ("+dirty" if dirty else ""), "seed": int(os.environ.get("VERIF_SEED", "0")),
                     "tier": os.environ.get("TIER", "quick"), "lines": [l[:400] for l in lines[:4]]})
        print(sid, p, result, runs[-1]["wall_s"], (lines[0][:300] if lines else ""))
    m = json.load(open(d + "/meta.json"))
    m.setdefault("later_runs", []).extend(runs)
    json.dump(m, open(d + "/meta.json", "w"), indent=1)
finally:
    sh("git -C /repo worktree remove --force %s" % wt)
    shutil.rmtree(vc, ignore_errors=True)
