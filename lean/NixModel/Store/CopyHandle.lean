import NixModel.Store.CopyShape

/-!
# Handles: which object a copy entry point copies, given the *handle* it was called with (C20)

The theorems of `Props/C20.lean` speak about copying the *object* `obj` of the source graph. A program
holds a *handle* (a `nixio` entity object): the HDF5 object it was opened on and the `_parent` it was
constructed with. The API hands out handles of one and the same entity along many ways - the owning
container, the member list of a group, the references of a tag, `multi_tag.positions`, `feature.data`,
`x.metadata`, `Section.link` … - and the parent differs: the owning block / section for handles from the
owning containers and from link lists, **no parent** for a Section fetched through `.metadata`, the
*linking* section for one fetched through `Section.link`.

`sourceOf` is what `H5Group.copy` finds at `source`, for the two ways an entry point names it
(`SrcAddr`, read from the source by `harness/extract/copyshape.py`); `callerByHandle` is an entry point
called with a handle. `Lemmas/C20Handle.lean`: an object-addressed entry point copies the handle's
object for every handle; a path-addressed one does so when the handle's parent owns the object
(`Owned`), and not in general (`path_addressing_depends_on_handle`).
-/
namespace Nix.Store.CopyShape
open Nix.Store Nix.Store.Graph

/-- a handle: the HDF5 object it stands for and the HDF5 group of its `_parent` (`none`: no parent) -/
structure Handle where
  obj : Nat
  parent : Option Nat
  deriving DecidableEq, Repr, Inhabited

/-- the object HDF5 finds at the `source` an entry point hands to `H5Group.copy` (`none`: nothing
there - `AttributeError` on a missing parent, HDF5's "object doesn't exist" for a dangling path) -/
def sourceOf (a : SrcAddr) (g : Graph) (cls : String) (h : Handle) : Option Nat :=
  match a with
  | .object => some h.obj
  | .parentPath =>
    match h.parent with
    | none => none
    | some p =>
      match g.child? p cls with
      | none => none
      | some c => g.child? c ((g.getAttr h.obj "name").getD "")

/-- `callerBy` with the object that is *copied* (`srcKey`) told apart from the object the handle
stands for (`obj`: the `isinstance` test, the default name and the re-added properties are read
through the handle) -/
def callerAt (h5 : H5CopyShape) (sh : CallerShape) (src dst : Graph) (owner obj srcKey : Nat) (name : String)
    (children keepId : Bool) : Except Err (Graph × Nat) :=
  if kindOf src obj != sh.srcKind then .error .typeError
  else
    let name := if sh.defaultsName && name == "" then (src.getAttr obj "name").getD "" else name
    let (d0, c) := dst.ensureGroup owner (if sh.dupGroup == "" then sh.cls else sh.dupGroup)
    if sh.dupGroup != "" && d0.hasChild c name then .error .duplicateName
    else
      let shallow := shallowOf sh children
      let keep := if sh.forwardsKeepId then keepId else true
      let (d1, root) := h5CopyBy h5 src d0 srcKey owner sh.cls name shallow keep
      if sh.readdsProps && !children then
        (readdProps src keep (propsOf src obj) d1 root).map fun d => (d, root)
      else .ok (d1, root)

/-- an entry point called with the handle `h` of the source: the kind test, the default name and the
duplicate test come first (they read the handle's own object); then HDF5 resolves the source -/
def callerByHandle (h5 : H5CopyShape) (sh : CallerShape) (src dst : Graph) (owner : Nat) (h : Handle)
    (name : String) (children keepId : Bool) : Except Err (Graph × Nat) :=
  if kindOf src h.obj != sh.srcKind then .error .typeError
  else
    let nm := if sh.defaultsName && name == "" then (src.getAttr h.obj "name").getD "" else name
    let (d0, c) := dst.ensureGroup owner (if sh.dupGroup == "" then sh.cls else sh.dupGroup)
    if sh.dupGroup != "" && d0.hasChild c nm then .error .duplicateName
    else
      match sourceOf sh.srcAddr src sh.cls h with
      | none => .error (if h.parent.isNone then .attributeError else .runtimeError)
      | some k => callerAt h5 sh src dst owner h.obj k name children keepId

/-- the handle's parent owns the object: it has the container `cls`, and that container links the
object under the object's `name` -/
def Owned (g : Graph) (cls : String) (h : Handle) : Prop :=
  ∃ p c, h.parent = some p ∧ g.child? p cls = some c ∧
    g.child? c ((g.getAttr h.obj "name").getD "") = some h.obj

/-! ## where handles are constructed (`harness/extract/handlesites.py` → `Generated/HandleSites.lean`) -/

/-- the parent expression a handle is constructed with -/
inductive ParentExpr where
  | none                -- `None`
  | self                -- `self`: the entity whose method constructs the handle
  | parentOfSelf        -- `self._parent`
  | grandparentOfSelf   -- `self._parent._parent`
  | storeOwner          -- `self._itemstore._parent` inside `LinkContainer._inst_item`: the owner of the container
                        -- the linked items live in (the block)
  deriving DecidableEq, Repr, Inhabited

/-- one call that constructs an entity object -/
structure HandleSite where
  /-- class and method that contain the call -/
  cls : String
  method : String
  /-- class of the constructed handle (`"item"`: the item class of the container) -/
  item : String
  parent : ParentExpr
  /-- where the HDF5 object comes from: `"entry"` of the container, `"link <name>"` = the member `<name>` of the
  constructing entity's own HDF5 group, `"entry of <group>"`, `"create_new"` -/
  via : String
  deriving DecidableEq, Repr, Inhabited

/-- the site constructs the handle with the parent that owns the object - reading the parent expressions by
what the constructing class is: the parent of a plain `Container` owns its entries (the parent of a
`LinkContainer` - a group, a tag - does not); the linked items of a group / tag live in
the containers of the block (`_itemstore._parent`); a multi-tag's parent is its block, which owns the arrays
`positions` / `extents` link; a feature's parent is its tag, whose parent is the block, which owns the array or
frame `data` links; `create_*` constructs the new entity with the creating entity; a section owns the entries
of its own `properties` group -/
def HandleSite.owned (s : HandleSite) : Bool :=
  match s.parent with
  | .storeOwner => s.cls == "LinkContainer" && s.via == "entry"
  | .parentOfSelf => s.cls == "MultiTag" || (s.cls == "Container" && s.via == "entry")
  | .grandparentOfSelf => s.cls == "Feature"
  | .self => s.via == "create_new" || s.via == "entry of properties"
  | .none => false

end Nix.Store.CopyShape
