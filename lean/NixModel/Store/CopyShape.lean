import NixModel.Store.Copy

/-!
# The *shape* of nixio's copy code, as data, and its interpretation over the graph model (C20)

`harness/extract/copyshape.py` reads `H5Group.copy` (`hdf5/h5group.py`) and the seven copy entry
points (`File.create_block`, `Block.create_data_array / create_data_frame / create_tag /
create_multi_tag` through `Block._copy_objects`, `Section.create_property`, `File.copy_section`,
`Section.copy_section`) with `ast` and renders what they do as values of the types below
(`NixModel/Generated/CopyShape.lean`). `h5CopyBy` and `callerBy` interpret such a value over the
HDF5 object graph. `Lemmas/C20Shape.lean` proves that the interpretation of the *generated* values is
the hand-written model of `Store/Copy.lean` (`h5Copy`, `copyBlock`, `copyIntoBlock`, `copyProperty`,
`copySection`) for all arguments, so the theorems of `Props/C20.lean` speak about the code as it is
written now: an edit of the source that changes a guard of the id-regenerating visitor, drops the
rename, the duplicate test, the default name, forwards another id policy or depth … changes the
generated value and breaks `lake build` on a named theorem; an edit outside the vocabulary is refused
by the translator (`ExtractError`), which is a broken tie as well.
-/
namespace Nix.Store.CopyShape
open Nix.Store Nix.Store.Graph

/-- a test the id-regenerating visitor (`change_id`) makes on the visited HDF5 object -/
inductive VCond where
  | hasEntityId      -- `"entity_id" in igrp.attrs`
  | isGroup          -- `isinstance(igrp, h5py.Group)`
  | isDataset        -- `isinstance(igrp, h5py.Dataset)`
  deriving DecidableEq, Repr, Inhabited

/-- the `if not keep_id:` branch of `H5Group.copy` -/
structure RegenShape where
  /-- the root of the copy gets a fresh id unconditionally (`grp.attrs.modify("entity_id", …)`) -/
  rootFresh : Bool
  /-- `grp.visititems(change_id)` is called … -/
  visits : Bool
  /-- … only when the root is a group (`if isinstance(grp, h5py.Group):`) -/
  visitOnlyGroupRoot : Bool
  /-- the visitor assigns a fresh id when every one of these tests has the stated outcome -/
  guards : List (VCond × Bool)
  deriving DecidableEq, Repr, Inhabited

/-- `H5Group.copy` after the HDF5 object copy into the opened destination group -/
structure H5CopyShape where
  /-- `grp.attrs["name"] = name` on the root of the copy -/
  renames : Bool
  /-- the id regeneration under `if not keep_id:` (`none`: no such branch) -/
  regen : Option RegenShape
  deriving DecidableEq, Repr, Inhabited

def nodeKind (g : Graph) (k : Nat) : NKind := ((g.node? k).getD {}).kind

def condHolds (g : Graph) (k : Nat) : VCond → Bool
  | .hasEntityId => (g.entityId k).isSome
  | .isGroup => nodeKind g k == .group
  | .isDataset => nodeKind g k == .dataset

def guardsHold (g : Graph) (k : Nat) (gs : List (VCond × Bool)) : Bool :=
  gs.all fun c => condHolds g k c.1 == c.2

/-- `grp.attrs.modify("entity_id", create_id())` (creates the attribute when it is missing) -/
def giveFreshId (g : Graph) (k : Nat) : Graph :=
  (g.freshId).1.setAttr k "entity_id" (some (g.freshId).2)

/-- the visitor over the visited objects, in visit order -/
def regenWhere (gs : List (VCond × Bool)) (g : Graph) : List Nat → Graph
  | [] => g
  | k :: ks => if guardsHold g k gs then regenWhere gs (giveFreshId g k) ks else regenWhere gs g ks

def regenBy (r : RegenShape) (g : Graph) (root : Nat) (members : List Nat) : Graph :=
  let g1 := if r.rootFresh then giveFreshId g root else g
  if r.visits && (!r.visitOnlyGroupRoot || nodeKind g1 root == .group) then regenWhere r.guards g1 members
  else g1

/-- `H5Group.copy(source, dest, name, cls, shallow, keep_id)` as the source shape `sh` says.
`visititems` reaches every object below the root once (`ks.tail`: the copied set without the root). -/
def h5CopyBy (sh : H5CopyShape) (src dst : Graph) (srcKey destOwner : Nat) (cls name : String)
    (shallow keepId : Bool) : Graph × Nat :=
  let (d0, c) := dst.ensureGroup destOwner cls
  let members := (src.links srcKey).map (·.2)
  let ks := if shallow then (srcKey :: members).eraseDups else reachFrom src srcKey
  let emptied := if shallow then members.filter (· != srcKey) else []
  let (d1, m) := copyNodes src d0 ks emptied
  let root := mapKey m srcKey
  let d2 := d1.addLink c name root
  let d3 := if sh.renames then d2.setAttr root "name" (some name) else d2
  let d4 :=
    if keepId then d3
    else match sh.regen with
      | none => d3
      | some r => regenBy r d3 root ((ks.map (mapKey m)).tail)
  (d4, root)

/-! ## the entry points -/

/-- what is passed as `shallow=` -/
inductive DepthArg where
  | deep             -- argument absent (default `False`)
  | notChildren      -- `shallow=not children`
  deriving DecidableEq, Repr, Inhabited

/-- how an entry point names the *source* of the HDF5 copy, given the handle (`obj` / `copy_from`) -/
inductive SrcAddr where
  /-- `src = obj._h5group.group` handed to `obj._h5group.copy(source=src, …)`: the HDF5 object the
  handle stands for, whichever way the handle was fetched -/
  | object
  /-- `src = "{}/{}".format(clsname, obj.name)` handed to `obj._parent._h5group.copy(source=src, …)`:
  a path, resolved by HDF5 below the group of the handle's `_parent` -/
  | parentPath
  deriving DecidableEq, Repr, Inhabited

/-- one copy entry point: `isinstance` test, destination container, default name, duplicate test,
the arguments handed to `H5Group.copy`, the re-adding loop of shallow section copies, the result -/
structure CallerShape where
  /-- kind of entity accepted as the source (`isinstance(copy_from, …)`, else `TypeError`) -/
  srcKind : String
  /-- `clsname`: the container group of the destination the copy is linked into -/
  cls : String
  /-- `if not name: name = str(obj.name)` -/
  defaultsName : Bool
  /-- the group of the destination in which `name in …` is tested before the copy (`NameError`);
  `""` = no test -/
  dupGroup : String
  depth : DepthArg
  /-- `keep_id=` is the caller's own id-policy parameter (else the default `True` applies) -/
  forwardsKeepId : Bool
  /-- `if not children: for prop in obj.props: self.sections[name].create_property(copy_from=prop,
  keep_copy_id=keep_id)` -/
  readdsProps : Bool
  /-- the result is fetched from the destination container by the name of the copy -/
  returnsByName : Bool
  /-- how the source of the HDF5 copy is named (interpreted by `Store/CopyHandle.lean`) -/
  srcAddr : SrcAddr
  deriving DecidableEq, Repr, Inhabited

/-- the `shallow=` argument handed to `H5Group.copy` -/
def shallowOf (sh : CallerShape) (children : Bool) : Bool :=
  match sh.depth with | .deep => false | .notChildren => !children

/-- an entry point as its shape says; `(graph, root of the copy)` -/
def callerBy (h5 : H5CopyShape) (sh : CallerShape) (src dst : Graph) (owner obj : Nat) (name : String)
    (children keepId : Bool) : Except Err (Graph × Nat) :=
  if kindOf src obj != sh.srcKind then .error .typeError
  else
    let name := if sh.defaultsName && name == "" then (src.getAttr obj "name").getD "" else name
    let (d0, c) := dst.ensureGroup owner (if sh.dupGroup == "" then sh.cls else sh.dupGroup)
    if sh.dupGroup != "" && d0.hasChild c name then .error .duplicateName
    else
      let shallow := shallowOf sh children
      let keep := if sh.forwardsKeepId then keepId else true
      let (d1, root) := h5CopyBy h5 src d0 obj owner sh.cls name shallow keep
      if sh.readdsProps && !children then
        (readdProps src keep (propsOf src obj) d1 root).map fun d => (d, root)
      else .ok (d1, root)

end Nix.Store.CopyShape
