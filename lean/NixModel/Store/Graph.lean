import NixModel.Basic

/-!
# The HDF5 object graph under a NIX file, as nixio uses it

`nixio` entities are stateless handles on HDF5 groups; every container is an HDF5 group whose
links (tracked in creation order) are the entries. The model keeps exactly that: nodes with
string attributes and an ordered list of named hard links to other nodes. Ownership is not a
separate notion — an array "belongs" to a block because the block's `data_arrays` group links
it; a `Group` refers to it through a second hard link (named by the array's id) from its own
`data_arrays` group. Deleting, linking, copying and lookups in `hdf5/h5group.py` and
`container.py` are modelled as transformations / queries of this graph.

Datasets (array data, tag positions, properties) are leaf nodes (`NKind.dataset`): their content
is outside this model (C01/C10/C16), but they count as children (`len(group)`).
-/
namespace Nix.Store

inductive NKind where | group | dataset
  deriving DecidableEq, Repr, Inhabited

structure Node where
  kind : NKind := .group
  attrs : List (String × String) := []
  links : List (String × Nat) := []      -- creation order
  deriving DecidableEq, Repr, Inhabited

/-- key 0 is the root group `/` -/
structure Graph where
  nodes : List (Nat × Node) := [(0, {})]
  nextKey : Nat := 1
  nextId : Nat := 0
  deriving DecidableEq, Repr, Inhabited

namespace Graph

def node? (g : Graph) (k : Nat) : Option Node := (g.nodes.find? (fun kn => kn.1 == k)).map (·.2)

def updNode (g : Graph) (k : Nat) (f : Node → Node) : Graph :=
  { g with nodes := g.nodes.map fun kn => if kn.1 == k then (kn.1, f kn.2) else kn }

def links (g : Graph) (k : Nat) : List (String × Nat) :=
  match g.node? k with | some n => n.links | none => []

def child? (g : Graph) (k : Nat) (name : String) : Option Nat :=
  ((g.links k).find? (fun l => l.1 == name)).map (·.2)

def hasChild (g : Graph) (k : Nat) (name : String) : Bool := (g.child? k name).isSome

def getAttr (g : Graph) (k : Nat) (a : String) : Option String :=
  match g.node? k with
  | some n => (n.attrs.find? (fun kv => kv.1 == a)).map (·.2)
  | none => none

/-- `attrs[a] = v` / `del attrs[a]` -/
def setAttr (g : Graph) (k : Nat) (a : String) (v : Option String) : Graph :=
  g.updNode k fun n =>
    let rest := n.attrs.filter (fun kv => kv.1 != a)
    match v with
    | some s => { n with attrs := rest ++ [(a, s)] }
    | none => { n with attrs := rest }

def newNode (g : Graph) (kind : NKind) : Graph × Nat :=
  ({ g with nodes := g.nodes ++ [(g.nextKey, { kind := kind })], nextKey := g.nextKey + 1 }, g.nextKey)

/-- `group[name] = target` (the caller has made sure `name` is free) -/
def addLink (g : Graph) (p : Nat) (name : String) (t : Nat) : Graph :=
  g.updNode p fun n => { n with links := n.links ++ [(name, t)] }

/-- `del group[name]` -/
def delLink (g : Graph) (p : Nat) (name : String) : Graph :=
  g.updNode p fun n => { n with links := n.links.filter (fun l => l.1 != name) }

/-- `H5Group._create_h5obj` for a child: open it, creating an empty tracked group if missing -/
def ensureGroup (g : Graph) (p : Nat) (name : String) : Graph × Nat :=
  match g.child? p name with
  | some k => (g, k)
  | none =>
    let (g1, k) := g.newNode .group
    (g1.addLink p name k, k)

/-- `util.create_id()`: ids are drawn from an abstract fresh supply -/
def freshId (g : Graph) : Graph × String :=
  ({ g with nextId := g.nextId + 1 }, s!"id:{g.nextId}")

def entityId (g : Graph) (k : Nat) : Option String := g.getAttr k "entity_id"

/-- `H5Group.delete_all(objs)`: every link, from any group, to one of the given *objects* (node keys)
is removed (the traversal of `visititems` reaches every group still reachable; links held by groups
that became unreachable are unobservable). An object is identified by what it is, not by its
`entity_id`: a copy that kept the id of its source is another node and keeps its links. -/
def deleteObjs (g : Graph) (ks : List Nat) : Graph :=
  { g with nodes := g.nodes.map fun kn =>
      (kn.1, { kn.2 with links := kn.2.links.filter fun l => !ks.contains l.2 }) }

/-- `H5Group.delete_all(eid)` as it was BEFORE the repair `fix: deleting an entity also deleted every
same-id copy file-wide`: every link, from any group, to an object whose `entity_id` is in `ids` was
removed. No operation of the model uses it any more; it is kept only so that the statements about the
code before the fix (`…_before_fix`) can still be made. -/
def deleteAll (g : Graph) (ids : List String) : Graph :=
  { g with nodes := g.nodes.map fun kn =>
      let n := kn.2
      (kn.1, { n with links := n.links.filter fun l =>
        match g.entityId l.2 with
        | some i => !ids.contains i
        | none => true }) }

end Graph

/-! ## CPython `uuid.UUID(str)` acceptance (`util.is_uuid`) -/

def isHexDigit (c : Char) : Bool :=
  (decide ('0' ≤ c) && decide (c ≤ '9')) || (decide ('a' ≤ c) && decide (c ≤ 'f')) ||
  (decide ('A' ≤ c) && decide (c ≤ 'F'))

def dropPrefix (p s : List Char) : List Char := if p.isPrefixOf s then s.drop p.length else s

/-- `str.replace(old, "")` for the two literal prefixes is modelled exactly for strings in
which they occur at most once at the start (the generators' domain); `strip('{}')`,
`replace('-', '')`, 32 hex digits. Model ids (`id:N`) stand for well-formed UUIDs. -/
def pyIsUuid (s : String) : Bool :=
  let cs := s.toList
  let cs := dropPrefix "urn:".toList cs
  let cs := dropPrefix "uuid:".toList cs
  let cs := (cs.dropWhile (fun c => c == '{' || c == '}')).reverse
  let cs := (cs.dropWhile (fun c => c == '{' || c == '}')).reverse
  let cs := cs.filter (· != '-')
  cs.length == 32 && cs.all isHexDigit

def isUuid (s : String) : Bool := s.startsWith "id:" || pyIsUuid s

end Nix.Store
