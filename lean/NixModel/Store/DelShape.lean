import NixModel.Store.Api

/-!
# The *shape* of nixio's deletion code, as a small interpreted language   (property C04)

`harness/extract/delshape.py` reads `nixio/container.py`, `nixio/hdf5/h5group.py`, `nixio/util/find.py`
and the entity modules with `ast` and renders

* the statement list of every `__delitem__` of the container classes,
* the body of the per-group scan of `H5Group.delete_all`,
* the default / the depth bound of `H5Group.delete`,
* which container class every `owner.cname` container is an instance of,
* the statement lists of the role-link deleters (`del x.metadata`, `section.link = None`,
  `multi_tag.extents = None`),
* the statement lists of the breadth-first collection of `util/find.py` (types and meaning: `Store/FindProg.lean`)

as constants of the types below (`NixModel/Generated/DeleteShape.lean`). This file gives these
statement lists a *meaning* over the HDF5 graph model; `Lemmas/C04Shape.lean` proves that the
meaning of the generated constants is the hand-written model (`contDel`, `Graph.deleteObjs`,
`h5Delete`, `setRole … none`, `bfsKeys`) — for all graphs, containers and keys — so that an edit of
the deletion code either no longer translates (broken tie) or breaks a named theorem.
-/
namespace Nix.Store.DelShape
open Nix.Store Nix.Store.Graph

/-! ## `__delitem__` of the container classes -/

/-- the container classes of nixio that hold entities -/
inductive ContClass where
  | container | featureContainer | sectionContainer | sourceContainer | linkContainer | sourceLinkContainer
  deriving DecidableEq, Repr, Inhabited

/-- the class a flavour of the model stands for -/
def classOf : CFlavour → ContClass
  | .plain => .container
  | .features => .featureContainer
  | .sections => .sectionContainer
  | .sources => .sourceContainer
  | .link => .linkContainer
  | .sourceLink => .sourceLinkContainer

/-- classes named in an `isinstance(item, …)` test -/
inductive Cls where
  | entity        -- `Entity`
  | itemclass     -- `self._itemclass`
  deriving DecidableEq, Repr, Inhabited

/-- expressions that produce the HDF5 objects to unlink -/
inductive ObjSrc where
  | selfObj                     -- `item._h5group`
  | subtree (sub : String)      -- `s._h5group for s in item.find_<sub>()`   (no arguments: no filter, no limit)
  deriving DecidableEq, Repr, Inhabited

inductive DStmt where
  /-- `if not isinstance(item, (<cs>)): item = self[item]` -/
  | resolveUnless (cs : List Cls)
  /-- `if not isinstance(item, self._itemclass): raise TypeError(…)` -/
  | requireItem
  /-- `<objs> = [<src>]` (a list display of `item._h5group` or the comprehension over `find_*`) -/
  | assign (src : ObjSrc)
  /-- `<objs>.append(item._h5group)` -/
  | append (src : ObjSrc)
  /-- `self._file._h5group.delete_all(<objs>)`; `lit = some s`: the argument is the list display `[<s>]` -/
  | fileDeleteAll (lit : Option ObjSrc)
  /-- `self._backend.delete(item.id)` / `…delete(item.id, delete_if_empty=b)` -/
  | backendDelete (deleteIfEmpty : Option Bool)
  deriving DecidableEq, Repr, Inhabited

/-- `isinstance(item, cls)`: a `str` / `int` key is no entity; a `Feature` is not an `Entity`
(`container.py`: "Features are not Entities, but are items of their container") -/
def isInst (g : Graph) (c : Cont) (item : Key) (cls : Cls) : Bool :=
  match item, cls with
  | .ent k, .entity => kindOf g k != "feature"
  | .ent k, .itemclass => kindOf g k == c.info.item
  | _, _ => false

def evalSrc (g : Graph) (k : Nat) : ObjSrc → List Nat
  | .selfObj => [k]
  | .subtree sub => subtreeKeys g sub k

/-- `H5Group.delete` with its depth bound as a parameter (`groupdepth > minDepth`) -/
def h5DeleteP (minDepth : Nat) (g : Graph) (grp parent : Nat) (lname : String) (depth : Nat) (x : String)
    (deleteIfEmpty : Bool) : Except Err Graph :=
  let name? : Except Err String :=
    if isUuid x then
      match getByIdOrName g (some grp) x with
      | some l => .ok l.1
      | none => .error .keyError
    else .ok x
  match name? with
  | .error e => .error e
  | .ok name =>
    if !(g.hasChild grp name) then .error .valueError
    else
      let g1 := g.delLink grp name
      if deleteIfEmpty && (g1.links grp).isEmpty && depth > minDepth then .ok (g1.delLink parent lname)
      else .ok g1

/-- parameters of `H5Group.delete` read from the source -/
structure H5DeleteParams where
  defaultDeleteIfEmpty : Bool
  minDepth : Nat
  deriving DecidableEq, Repr, Inhabited

/-- run a `__delitem__` body: `item` is the key as passed or, once resolved, the entity; `objs` the
list variable. A body that ends without a deletion leaves the file as it is. -/
def exec (P : H5DeleteParams) (c : Cont) : List DStmt → Graph → Key → List Nat → Except Err Graph
  | [], g, _, _ => .ok g
  | .resolveUnless cs :: rest, g, item, ids =>
    if cs.any (isInst g c item) then exec P c rest g item ids
    else
      match contGet g c item with
      | .ok l => exec P c rest g (.ent l.2) ids
      | .error e => .error e
  | .requireItem :: rest, g, item, ids =>
    if isInst g c item .itemclass then exec P c rest g item ids else .error .typeError
  | .assign src :: rest, g, item, _ =>
    match item with
    | .ent k => exec P c rest g item (evalSrc g k src)
    | _ => .error .attributeError            -- `._h5group` of a str / int
  | .append src :: rest, g, item, ids =>
    match item with
    | .ent k => exec P c rest g item (ids ++ evalSrc g k src)
    | _ => .error .attributeError
  | .fileDeleteAll lit :: rest, g, item, ids =>
    match lit, item with
    | none, _ => exec P c rest (g.deleteObjs ids) item ids
    | some s, .ent k => exec P c rest (g.deleteObjs (evalSrc g k s)) item ids
    | some _, _ => .error .attributeError
  | .backendDelete die :: rest, g, item, ids =>
    match item with
    | .ent k =>
      match c.node, g.entityId k with
      | some cn, some i =>
        match h5DeleteP P.minDepth g cn c.owner.key c.cname (c.owner.depth + 1) i
            (die.getD P.defaultDeleteIfEmpty) with
        | .ok g' => exec P c rest g' item ids
        | .error e => .error e
      | _, _ => .error .keyError
    | _ => .error .attributeError

/-- `del container[key]` as the source spells it -/
def runDel (P : H5DeleteParams) (body : List DStmt) (g : Graph) (c : Cont) (key : Key) : Except Err Graph :=
  exec P c body g key []

/-! ## the per-group scan of `H5Group.delete_all` -/

inductive ScanStmt where
  /-- `if child.h5obj in targets: <body>` (`targets`: the HDF5 objects of the handles passed) -/
  | ifObjIn (body : List ScanStmt)
  /-- `del grp[child.name]` -/
  | delChild
  | brk
  | cont
  deriving Repr, Inhabited

/-- outcome of the loop body for one child -/
structure ScanOut where
  deleted : Bool := false
  stop : Bool := false        -- `break`
  skip : Bool := false        -- `continue` / `break`: the rest of the body is not run
  deriving DecidableEq, Repr, Inhabited

/-- `child.h5obj in targets`: h5py compares HDF5 objects by identity (file and address) — node keys -/
def objIn (ks : List Nat) (k : Nat) : Bool := ks.contains k

def runBody (ks : List Nat) (k : Nat) : Nat → List ScanStmt → ScanOut → ScanOut
  | 0, _, o => o
  | _, [], o => o
  | fuel + 1, s :: rest, o =>
    if o.skip then o
    else
      match s with
      | .delChild => runBody ks k fuel rest { o with deleted := true }
      | .brk => { o with stop := true, skip := true }
      | .cont => { o with skip := true }
      | .ifObjIn body =>
        if objIn ks k then
          let o1 := runBody ks k fuel body o
          runBody ks k fuel rest o1
        else runBody ks k fuel rest o

/-- `for child in grp: <body>` over the links of one group -/
def scanLinks (ks : List Nat) (body : List ScanStmt) :
    List (String × Nat) → List (String × Nat)
  | [] => []
  | l :: rest =>
    let o := runBody ks l.2 64 body {}
    let rest' := if o.stop then rest else scanLinks ks body rest
    if o.deleted then rest' else l :: rest'

/-- `self._group.visititems(delete_links_to)`: the scan runs on every group (groups that became
unreachable meanwhile are unobservable; datasets have no links) -/
def scanAll (g : Graph) (ks : List Nat) (body : List ScanStmt) : Graph :=
  { g with nodes := g.nodes.map fun kn =>
      (kn.1, { kn.2 with links := scanLinks ks body kn.2.links }) }

/-! ## role-link deleters -/

inductive RStmt where
  /-- `if "<name>" in self._h5group: self._h5group.delete("<name>"[, delete_if_empty=b])` -/
  | guardedDelete (name : String) (deleteIfEmpty : Option Bool)
  /-- `if "<name>" in self._h5group: del self._h5group["<name>"]` -/
  | guardedDelItem (name : String)
  deriving DecidableEq, Repr, Inhabited

/-- run a role deleter on the entity at `o` -/
def runRole (P : H5DeleteParams) (g : Graph) (o : Loc) : List RStmt → Except Err Graph
  | [] => .ok g
  | .guardedDelete name die :: rest =>
    if g.hasChild o.key name then
      match h5DeleteP P.minDepth g o.key o.parent o.lname o.depth name (die.getD P.defaultDeleteIfEmpty) with
      | .ok g' => runRole P g' o rest
      | .error e => .error e
    else runRole P g o rest
  | .guardedDelItem name :: rest =>
    if g.hasChild o.key name then runRole P (g.delLink o.key name) o rest else runRole P g o rest

end Nix.Store.DelShape
