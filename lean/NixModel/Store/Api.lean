import NixModel.Store.Graph

/-!
# nixio's container / entity API over the HDF5 graph

Each function mirrors the Python method named in its doc comment, in the code's own order of
checks and writes. Entities are addressed by *paths* of link names / positions from the root,
resolved in the current graph (the harness resolves the same path through the public API), so
no Python object identity enters the protocol.
-/
namespace Nix.Store
open Graph

inductive Seg where
  | name (s : String)
  | idx (i : Nat)
  deriving DecidableEq, Repr, Inhabited

abbrev Path := List Seg

/-- a resolved location: the node, the group linking it, the link's name, its depth below `/` -/
structure Loc where
  key : Nat
  parent : Nat
  lname : String
  depth : Nat
  deriving DecidableEq, Repr, Inhabited

def rootLoc : Loc := { key := 0, parent := 0, lname := "", depth := 0 }

def stepSeg (g : Graph) (l : Loc) (s : Seg) : Option Loc :=
  match s with
  | .name n => (g.child? l.key n).map fun k => { key := k, parent := l.key, lname := n, depth := l.depth + 1 }
  | .idx i => ((g.links l.key)[i]?).map fun nk => { key := nk.2, parent := l.key, lname := nk.1, depth := l.depth + 1 }

def resolve (g : Graph) : Loc → Path → Option Loc
  | l, [] => some l
  | l, s :: ps => match stepSeg g l s with
    | some l' => resolve g l' ps
    | none => none

/-! ## entity kinds (a model-only attribute `~kind`; HDF5 does not store it, copies keep it) -/

def kindOf (g : Graph) (k : Nat) : String := (g.getAttr k "~kind").getD ""

/-- kind of the entities a container holds, and the container flavour, from the owner's kind and
the container's name (`Block.data_arrays` vs `Group.data_arrays` …) -/
inductive CFlavour where
  | plain | sections | sources | link | sourceLink | features
  deriving DecidableEq, Repr, Inhabited

structure CInfo where
  flavour : CFlavour
  item : String            -- kind of item held
  store : String := ""     -- for link containers: name of the owning block's container
  deriving Repr, Inhabited

def containerInfo (ownerKind cname : String) : Option CInfo :=
  match ownerKind, cname with
  | "file", "data" => some { flavour := .plain, item := "block" }
  | "file", "metadata" => some { flavour := .sections, item := "section" }
  | "block", "groups" => some { flavour := .plain, item := "group" }
  | "block", "data_arrays" => some { flavour := .plain, item := "data_array" }
  | "block", "data_frames" => some { flavour := .plain, item := "data_frame" }
  | "block", "tags" => some { flavour := .plain, item := "tag" }
  | "block", "multi_tags" => some { flavour := .plain, item := "multi_tag" }
  | "block", "sources" => some { flavour := .sources, item := "source" }
  | "source", "sources" => some { flavour := .sources, item := "source" }
  | "section", "sections" => some { flavour := .sections, item := "section" }
  | "section", "properties" => some { flavour := .plain, item := "property" }
  | "tag", "features" => some { flavour := .features, item := "feature" }
  | "multi_tag", "features" => some { flavour := .features, item := "feature" }
  | "tag", "references" => some { flavour := .link, item := "data_array", store := "data_arrays" }
  | "multi_tag", "references" => some { flavour := .link, item := "data_array", store := "data_arrays" }
  | "group", "data_arrays" => some { flavour := .link, item := "data_array", store := "data_arrays" }
  | "group", "data_frames" => some { flavour := .link, item := "data_frame", store := "data_frames" }
  | "group", "tags" => some { flavour := .link, item := "tag", store := "tags" }
  | "group", "multi_tags" => some { flavour := .link, item := "multi_tag", store := "multi_tags" }
  | "group", "sources" => some { flavour := .sourceLink, item := "source" }
  | "data_array", "sources" => some { flavour := .sourceLink, item := "source" }
  | "tag", "sources" => some { flavour := .sourceLink, item := "source" }
  | "multi_tag", "sources" => some { flavour := .sourceLink, item := "source" }
  | _, _ => none

/-- a container named by its owner's path and its own name; the HDF5 group may not exist yet -/
structure Cont where
  owner : Loc
  ownerKind : String
  cname : String
  info : CInfo
  node : Option Nat           -- the container group, if it exists
  block : Option Nat          -- the block the owner lives in (second path element under /data)
  deriving Repr, Inhabited

def ownerKindOf (g : Graph) (l : Loc) : String := if l.key == 0 then "file" else kindOf g l.key

/-- the block a path runs through (`/data/<block>/…`) -/
def blockOfPath (g : Graph) (p : Path) : Option Nat :=
  match p with
  | .name "data" :: b :: _ => (resolve g rootLoc [.name "data", b]).map (·.key)
  | _ => none

def openCont (g : Graph) (ownerPath : Path) (cname : String) : Option Cont := do
  let o ← resolve g rootLoc ownerPath
  let ok := ownerKindOf g o
  let info ← containerInfo ok cname
  pure { owner := o, ownerKind := ok, cname := cname, info := info, node := g.child? o.key cname,
         block := blockOfPath g ownerPath }

/-! ## H5Group-level queries on a (possibly missing) container group -/

def cLinks (g : Graph) (c : Option Nat) : List (String × Nat) :=
  match c with | some k => g.links k | none => []

/-- `H5Group.get_by_id`: first child (iteration order) whose `entity_id` equals `id` -/
def getById (g : Graph) (c : Option Nat) (id : String) : Option (String × Nat) :=
  (cLinks g c).find? fun l => g.entityId l.2 == some id

/-- `H5Group.get_by_name` -/
def getByName (g : Graph) (c : Option Nat) (name : String) : Option (String × Nat) :=
  (cLinks g c).find? fun l => l.1 == name

/-- `H5Group.get_by_id_or_name` (id first, then — repaired — the name) -/
def getByIdOrName (g : Graph) (c : Option Nat) (x : String) : Option (String × Nat) :=
  if isUuid x then
    match getById g c x with
    | some r => some r
    | none => getByName g c x
  else getByName g c x

/-- scan of a link container by the `name` attribute of the targets -/
def scanByNameAttr (g : Graph) (c : Option Nat) (name : String) : Option (String × Nat) :=
  (cLinks g c).find? fun l => g.getAttr l.2 "name" == some name

/-! ## keys -/

inductive Key where
  | str (s : String)          -- a name or an id (Python: any str)
  | pos (i : Int)
  | ent (k : Nat)             -- an entity object (resolved node)
  deriving DecidableEq, Repr, Inhabited

/-- data target of a feature (`feat.data`), if the link is there -/
def featData (g : Graph) (f : Nat) : Option Nat := g.child? f "data"

/-- the fallback scan of `FeatureContainer`: `feat.data` raises RuntimeError for a feature whose
data link is gone (the baseline tests pin that behaviour) -/
def featScan (g : Graph) : List (String × Nat) → String → Except Err (Option (String × Nat))
  | [], _ => .ok none
  | l :: rest, x =>
    match featData g l.2 with
    | none => .error .runtimeError
    | some d =>
      if g.entityId d == some x || g.getAttr d "name" == some x then .ok (some l)
      else featScan g rest x

/-- `Container.__getitem__` / `LinkContainer.__getitem__` / `FeatureContainer.__getitem__` -/
def contGet (g : Graph) (c : Cont) (key : Key) : Except Err (String × Nat) :=
  let ls := cLinks g c.node
  match key with
  | .pos i =>
    let n : Int := ls.length
    let j := if i < 0 then n + i else i
    if j < 0 || j ≥ n then .error .indexError
    else match ls[j.toNat]? with
      | some l => .ok l
      | none => .error .indexError
  | .ent _ => .error .typeError       -- containers are not indexed by entity objects
  | .str x =>
    match c.info.flavour with
    | .link | .sourceLink =>
      if isUuid x && (getByName g c.node x).isSome then
        match getByName g c.node x with
        | some l => .ok l
        | none => .error .keyError
      else match scanByNameAttr g c.node x with
        | some l => .ok l
        | none => .error .keyError
    | .features =>
      match getByIdOrName g c.node x with
      | some l => .ok l
      | none =>
        match featScan g ls x with
        | .ok (some l) => .ok l
        | .ok none => .error .keyError
        | .error e => .error e
    | _ =>
      match getByIdOrName g c.node x with
      | some l => .ok l
      | none => .error .keyError

/-- `Container.__contains__` for an entity object / a str -/
def contHas (g : Graph) (c : Cont) (key : Key) : Except Err Bool :=
  match key with
  | .pos _ => .ok false     -- `5 in container`: not a str, no id: falls to `item in backend` (h5py: False/TypeError) — not generated
  | .ent k =>
    if kindOf g k != c.info.item then .error .typeError
    else
      match c.info.flavour with
      | .link | .sourceLink =>
        match g.entityId k with
        | some i => .ok (getByName g c.node i).isSome
        | none => .ok false
      | .features =>
        -- `item = item.id`, then the str path
        match g.entityId k with
        | some i =>
          if (getByIdOrName g c.node i).isSome then .ok true
          else (featScan g (cLinks g c.node) i).map (·.isSome)
        | none => .ok false
      | _ =>
        match g.getAttr k "name" with
        | some nm =>
          match getByName g c.node nm with
          | some l => .ok (l.2 == k)
          | none => .ok false
        | none => .ok false
  | .str x =>
    match c.info.flavour with
    | .link | .sourceLink =>
      .ok ((isUuid x && (getByName g c.node x).isSome) || (scanByNameAttr g c.node x).isSome)
    | .features =>
      if (getByIdOrName g c.node x).isSome then .ok true
      else (featScan g (cLinks g c.node) x).map (·.isSome)
    | _ => .ok (getByIdOrName g c.node x).isSome

/-! ## breadth-first collection of a section / source subtree (`util/find.py`, unlimited) -/

def bfsIds (g : Graph) (sub : String) : Nat → List Nat → List String → List String
  | 0, _, acc => acc
  | _ + 1, [], acc => acc
  | fuel + 1, k :: queue, acc =>
    let kids := match g.child? k sub with
      | some c => (g.links c).map (·.2)
      | none => []
    let acc' := match g.entityId k with | some i => acc ++ [i] | none => acc
    bfsIds g sub fuel (queue ++ kids) acc'

def subtreeIds (g : Graph) (sub : String) (k : Nat) : List String :=
  bfsIds g sub (g.nodes.length * g.nodes.length + 1) [k] []

/-- the same traversal collecting the *objects* (node keys) instead of their ids: what
`[s._h5group for s in item.find_sections()]` / `find_sources()` hands to `delete_all` -/
def bfsKeys (g : Graph) (sub : String) : Nat → List Nat → List Nat → List Nat
  | 0, _, acc => acc
  | _ + 1, [], acc => acc
  | fuel + 1, k :: queue, acc =>
    let kids := match g.child? k sub with
      | some c => (g.links c).map (·.2)
      | none => []
    bfsKeys g sub fuel (queue ++ kids) (acc ++ [k])

def subtreeKeys (g : Graph) (sub : String) (k : Nat) : List Nat :=
  bfsKeys g sub (g.nodes.length * g.nodes.length + 1) [k] []

/-! ## deletion -/

/-- `H5Group.delete(id_or_name, delete_if_empty)` on the group `grp` (linked as `lname` from
`parent`, at depth `depth`) -/
def h5Delete (g : Graph) (grp parent : Nat) (lname : String) (depth : Nat) (x : String)
    (deleteIfEmpty : Bool) : Except Err Graph :=
  let name? : Except Err String :=
    if isUuid x then
      match getByIdOrName g (some grp) x with
      | some l => .ok l.1
      | none => .error .keyError
    else .ok x
  match name? with
  | .error e => .error e
  | .ok name =>
    if !(g.hasChild grp name) then .error .valueError
    else
      let g1 := g.delLink grp name
      if deleteIfEmpty && (g1.links grp).isEmpty && depth > 1 then .ok (g1.delLink parent lname)
      else .ok g1

/-- `Container.__delitem__` and its Section / Source / Link / Feature variants -/
def contDel (g : Graph) (c : Cont) (key : Key) : Except Err Graph :=
  let item? : Except Err Nat :=
    match key with
    | .ent k => .ok k
    | k => (contGet g c k).map (·.2)
  match item? with
  | .error e => .error e
  | .ok k =>
    if kindOf g k != c.info.item then .error .typeError
    else
      match c.info.flavour with
      | .plain | .features => .ok (g.deleteObjs [k])
      | .sections => .ok (g.deleteObjs (subtreeKeys g "sections" k))
      | .sources => .ok (g.deleteObjs (subtreeKeys g "sources" k ++ [k]))
      | .link | .sourceLink =>
        match c.node, g.entityId k with
        | some cn, some i => h5Delete g cn c.owner.key c.cname (c.owner.depth + 1) i true
        | _, _ => .error .keyError

/-! ## linking -/

/-- `H5Group.create_link(target, name)` on the (possibly missing) child group `cname` of `p` -/
def createLinkIn (g : Graph) (grp : Nat) (name : String) (t : Nat) : Graph :=
  let g1 := if g.hasChild grp name then g.delLink grp name else g
  g1.addLink grp name t

/-- is source `k` somewhere in the source tree of block `b` (`Block.find_sources(id == …)`)? -/
def inSourceTree (g : Graph) (b : Nat) (id : String) : Bool :=
  match g.child? b "sources" with
  | some c =>
    ((g.links c).map (·.2)).any fun top => (subtreeIds g "sources" top).contains id
  | none => false

/-- is the source *object* `k` somewhere in the source tree of block `b`? (`SourceLinkContainer._accept`, fix
a440b8d: the source found under the id must be this very object, not merely a source with the same id — e.g. a
source of an id-keeping copy of the block, or the detached duplicate an id-keeping array copy links) -/
def inSourceTreeObj (g : Graph) (b : Nat) (k : Nat) : Bool :=
  match g.child? b "sources" with
  | some c => ((g.links c).map (·.2)).any fun top => (subtreeKeys g "sources" top).contains k
  | none => false

/-- `LinkContainer.append` / `SourceLinkContainer.append` -/
def contAppend (g : Graph) (c : Cont) (key : Key) : Except Err Graph :=
  match c.info.flavour with
  | .link | .sourceLink =>
    let item? : Except Err Nat :=
      match key with
      | .ent k => .ok k
      | .str x =>
        if isUuid x then
          match getById g c.node x with
          | some l => .ok l.2
          | none => .error .keyError
        else .error .typeError
      | .pos _ => .error .typeError
    match item? with
    | .error e => .error e
    | .ok k =>
      match g.entityId k with
      | none => .error .typeError
      | some id =>
        let accepted : Except Err Bool :=
          match c.info.flavour, c.block with
          | .link, some b =>
            -- `item not in self._itemstore`
            if kindOf g k != c.info.item then .error .typeError
            else
              match g.getAttr k "name" with
              | some nm =>
                match getByName g (g.child? b c.info.store) nm with
                | some l => .ok (l.2 == k)
                | none => .ok false
              | none => .ok false
          -- `find_sources(filtr = same id and same HDF5 object)`
          | .sourceLink, some b => .ok (inSourceTree g b id && inSourceTreeObj g b k)
          | _, _ => .ok false
        match accepted with
        | .error e => .error e
        | .ok false => .error .runtimeError
        | .ok true =>
          let (g1, cn) := g.ensureGroup c.owner.key c.cname
          .ok (createLinkIn g1 cn id k)
  | _ => .error .attributeError     -- plain containers have no append

/-! ## role links: metadata, positions, extents, feature data, section link -/

def isKind (g : Graph) (k : Nat) (kind : String) : Bool := kindOf g k == kind

/-- membership of an entity object in a plain container of block `b` (Container.__contains__) -/
def inBlockStore (g : Graph) (b : Nat) (store : String) (k : Nat) : Bool :=
  match g.getAttr k "name" with
  | some nm =>
    match getByName g (g.child? b store) nm with
    | some l => l.2 == k
    | none => false
  | none => false

def setRole (g : Graph) (ownerPath : Path) (role : String) (target : Option Nat) : Except Err Graph :=
  match resolve g rootLoc ownerPath with
  | none => .error .keyError
  | some o =>
    let ok := kindOf g o.key
    match role, target with
    | "metadata", some t =>
      if ok == "section" || ok == "property" || ok == "feature" || ok == "" then .error .attributeError
      else if !isKind g t "section" then .error .typeError
      else .ok (createLinkIn g o.key "metadata" t)
    | "metadata", none =>
      -- `del x.metadata`
      if ok == "section" || ok == "property" || ok == "feature" || ok == "" then .error .attributeError
      else if g.hasChild o.key "metadata" then .ok (g.delLink o.key "metadata") else .ok g
    | "link", some t =>
      if ok != "section" then .error .attributeError
      else if !isKind g t "section" then .error .keyError
      else .ok (createLinkIn g o.key "link" t)
    | "link", none =>
      if ok != "section" then .error .attributeError
      else if g.hasChild o.key "link" then .ok (g.delLink o.key "link") else .ok g
    | "positions", some t =>
      if ok != "multi_tag" then .error .attributeError
      else
        match blockOfPath g ownerPath with
        | some b =>
          if !isKind g t "data_array" then .error .typeError
          else if !inBlockStore g b "data_arrays" t then .error .runtimeError
          else .ok (createLinkIn g o.key "positions" t)
        | none => .error .runtimeError
    | "positions", none => if ok != "multi_tag" then .error .attributeError else .error .typeError
    | "extents", some t =>
      if ok != "multi_tag" then .error .attributeError
      else
        match blockOfPath g ownerPath with
        | some b =>
          if !isKind g t "data_array" then .error .typeError
          else if !inBlockStore g b "data_arrays" t then .error .runtimeError
          else .ok (createLinkIn g o.key "extents" t)
        | none => .error .runtimeError
    | "extents", none =>
      if ok != "multi_tag" then .error .attributeError
      else if g.hasChild o.key "extents" then .ok (g.delLink o.key "extents") else .ok g
    | "data", some t =>
      if ok != "feature" then .error .attributeError
      else
        match blockOfPath g ownerPath with
        | some b =>
          if isKind g t "data_array" then
            if !inBlockStore g b "data_arrays" t then .error .runtimeError
            else
              let g1 := g.setAttr o.key "target_type" (some "DataArray")
              .ok (createLinkIn g1 o.key "data" t)
          else if isKind g t "data_frame" then
            if !inBlockStore g b "data_frames" t then .error .runtimeError
            else if g.getAttr o.key "link_type" == some "tagged" then .error .valueError
            else
              let g1 := g.setAttr o.key "target_type" (some "DataFrame")
              .ok (createLinkIn g1 o.key "data" t)
          else .error .typeError
        | none => .error .runtimeError
    | "data", none => if ok != "feature" then .error .attributeError else .error .typeError
    | _, _ => .error .attributeError

/-! ## creation -/

def hasSlash (s : String) : Bool := s.toList.contains '/'

/-- `Entity.create_new`: returns the graph with the new (or re-initialised) node -/
def entityCreateNew (g : Graph) (ownerKey : Nat) (cname name type kind : String) :
    Except Err (Graph × Nat) :=
  let (g, name, id) :=
    if name == "" then
      let (g1, i) := g.freshId
      (g1, i, i)
    else if type != "" then
      let (g1, i) := g.freshId
      (g1, name, i)
    else (g, name, "")
  if hasSlash name then .error .valueError
  else if type == "" then .error .valueError
  else
    let (g1, c) := g.ensureGroup ownerKey cname
    let (g2, k) := g1.ensureGroup c name
    let g3 := g2.setAttr k "name" (some name)
    let g4 := g3.setAttr k "type" (some type)
    let g5 := g4.setAttr k "entity_id" (some id)
    .ok (g5.setAttr k "~kind" (some kind), k)

def checkNameType (name type : String) : Except Err Unit :=
  if name == "" then .error .valueError
  else if hasSlash name then .error .valueError
  else if type == "" then .error .valueError
  else .ok ()

/-- add a leaf dataset child (array data, tag position) -/
def addDataset (g : Graph) (k : Nat) (name : String) : Graph :=
  if g.hasChild k name then g
  else
    let (g1, d) := g.newNode .dataset
    g1.addLink k name d

/-- `File.create_block(name, type_)` -/
def createBlock (g : Graph) (name type : String) : Except Err Graph :=
  let (g0, dataK) := g.ensureGroup 0 "data"
  if name != "" && g0.hasChild dataK name then .error .duplicateName
  else (entityCreateNew g0 0 "data" name type "block").map (·.1)

/-- `File.create_section` / `Section.create_section` -/
def createSection (g : Graph) (ownerPath : Path) (name type : String) : Except Err Graph :=
  match ownerPath with
  | [] =>
    -- `if name in self.sections` is Container.__contains__(str)
    match openCont g [] "metadata" with
    | none => .error .keyError
    | some c =>
      match contHas g c (.str name) with
      | .error e => .error e
      | .ok true => .error .duplicateName
      | .ok false => (entityCreateNew g 0 "metadata" name type "section").map (·.1)
  | p =>
    match resolve g rootLoc p with
    | none => .error .keyError
    | some o =>
      if kindOf g o.key != "section" then .error .attributeError
      else
        match checkNameType name type with
        | .error e => .error e
        | .ok () =>
          let (g1, c) := g.ensureGroup o.key "sections"
          if g1.hasChild c name then .error .duplicateName
          else (entityCreateNew g1 o.key "sections" name type "section").map (·.1)

/-- `Block.create_group / create_tag / create_source / create_data_array / create_multi_tag`,
`Source.create_source` (what differs is the container, the kind and the extra children) -/
def createIn (g : Graph) (ownerPath : Path) (what name type : String) (extra : Option Nat) :
    Except Err Graph :=
  match resolve g rootLoc ownerPath with
  | none => .error .keyError
  | some o =>
    let ok := kindOf g o.key
    let spec : Option (String × String) :=
      match ok, what with
      | "block", "group" => some ("groups", "group")
      | "block", "data_array" => some ("data_arrays", "data_array")
      | "block", "tag" => some ("tags", "tag")
      | "block", "multi_tag" => some ("multi_tags", "multi_tag")
      | "block", "source" => some ("sources", "source")
      | "source", "source" => some ("sources", "source")
      | _, _ => none
    match spec with
    | none => .error .attributeError
    | some (cname, kind) =>
      match checkNameType name type with
      | .error e => .error e
      | .ok () =>
        -- Source.create_source opens its container eagerly, Block's create_* lazily
        let g0 := if ok == "source" then (g.ensureGroup o.key cname).1 else g
        if (match g0.child? o.key cname with | some c => g0.hasChild c name | none => false) then
          .error .duplicateName
        else if kind == "multi_tag" then
          -- positions must be an existing DataArray of the block (the only form generated)
          match extra with
          | none => .error .valueError     -- positions=None: create_data_array(data=None) refuses
          | some pos =>
            match entityCreateNew g0 o.key cname name type kind with
            | .error e => .error e
            | .ok (g1, k) =>
              if !isKind g1 pos "data_array" then .error .typeError
              else if !inBlockStore g1 o.key "data_arrays" pos then .error .runtimeError
              else .ok (createLinkIn g1 k "positions" pos)
        else
          match entityCreateNew g0 o.key cname name type kind with
          | .error e => .error e
          | .ok (g1, k) =>
            if kind == "data_array" then .ok (addDataset g1 k "data")
            else if kind == "tag" then .ok (addDataset g1 k "position")
            else .ok g1

/-- `Section.create_property(name, 0)` -/
def createProperty (g : Graph) (ownerPath : Path) (name : String) : Except Err Graph :=
  match resolve g rootLoc ownerPath with
  | none => .error .keyError
  | some o =>
    if kindOf g o.key != "section" then .error .attributeError
    else
      let (g1, c) := g.ensureGroup o.key "properties"
      if name != "" && g1.hasChild c name then .error .duplicateName
      else if name == "" then .error .valueError
      else if hasSlash name then .error .valueError
      else
        let (g2, d) := g1.newNode .dataset
        let g3 := g2.addLink c name d
        let g4 := g3.setAttr d "name" (some name)
        let (g5, i) := g4.freshId
        let g6 := g5.setAttr d "entity_id" (some i)
        .ok (g6.setAttr d "~kind" (some "property"))

/-- `BaseTag.create_feature(data, link_type)` -/
def createFeature (g : Graph) (ownerPath : Path) (data : Option Nat) (linkType : String) :
    Except Err Graph :=
  match resolve g rootLoc ownerPath with
  | none => .error .keyError
  | some o =>
    let ok := kindOf g o.key
    if ok != "tag" && ok != "multi_tag" then .error .attributeError
    else
      let lt := linkType.toLower
      if lt != "tagged" && lt != "untagged" && lt != "indexed" then .error .valueError
      else
        match data, blockOfPath g ownerPath with
        | none, _ => .error .typeError
        | some t, some b =>
          -- validation of the data object precedes any write (repaired order)
          if isKind g t "data_frame" && lt == "tagged" then .error .valueError
          else if !(isKind g t "data_array" || isKind g t "data_frame") then .error .typeError
          else if isKind g t "data_array" && !inBlockStore g b "data_arrays" t then .error .runtimeError
          else if isKind g t "data_frame" && !inBlockStore g b "data_frames" t then .error .runtimeError
          else
            let (g1, i) := g.freshId
            let (g2, c) := g1.ensureGroup o.key "features"
            let (g3, k) := g2.ensureGroup c i
            let g4 := g3.setAttr k "entity_id" (some i)
            let g5 := g4.setAttr k "~kind" (some "feature")
            let g6 := g5.setAttr k "link_type" (some lt)
            let g7 := g6.setAttr k "target_type"
              (some (if isKind g t "data_array" then "DataArray" else "DataFrame"))
            .ok (createLinkIn g7 k "data" t)
        | some _, none => .error .runtimeError

/-! ## attributes -/

/-- string attributes settable on an entity of a kind (None clears) -/
def attrAllowed (kind attr : String) : Bool :=
  match attr with
  | "definition" => kind != "feature" && kind != ""
  | "type" => kind != "feature" && kind != ""
  | "label" => kind == "data_array"
  | "unit" => kind == "data_array" || kind == "property"
  | "repository" => kind == "section"
  | "reference" => kind == "section"
  | _ => false

def setAttrOp (g : Graph) (p : Path) (attr : String) (v : Option String) : Except Err Graph :=
  match resolve g rootLoc p with
  | none => .error .keyError
  | some o =>
    let k := kindOf g o.key
    if !attrAllowed k attr then .error .attributeError
    else if attr == "type" && v.isNone then .error .attributeError
    else if attr == "unit" && v == some "" then .ok (g.setAttr o.key attr none)   -- "" clears the unit
    else .ok (g.setAttr o.key attr v)      -- (unit values of the generators are fixed points of the sanitizer)

end Nix.Store
