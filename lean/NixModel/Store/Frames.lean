import NixModel.Store.Step

/-!
# Data frames and auto-created multi-tag arrays (model extension used by C03)

`Store/Api.lean` transcribes the create functions that the structural histories of C02–C05 / C12
use. C03 quantifies over *every* owning container of a block, so this file adds

* `Block.create_data_frame` (`createFrame`) — the sixth `create_*` of `block.py`, with its own
  container `data_frames` and its own duplicate-name test;
* `Block.create_multi_tag` with positions / extents given as raw data (`createMultiTagAuto`):
  the call first creates ordinary data arrays `<name>-positions` / `<name>-extents` through
  `create_data_array`, and removes them again when a later step of the call is refused;

and the history type `OpX` = the operations of `Store/Step.lean` plus `create_data_frame`.
Names are unique **per parent and entity kind**: each function looks into its own container only.
-/
namespace Nix.Store
open Graph

/-- `Block.create_data_frame(name, type_, col_dict=…)`: name / type check, lazily opened
`data_frames`, duplicate test in *that* group, `DataFrame.create_new` (= `Entity.create_new` + the
compound dataset `data`) -/
def createFrame (g : Graph) (ownerPath : Path) (name type : String) : Except Err Graph :=
  match resolve g rootLoc ownerPath with
  | none => .error .keyError
  | some o =>
    if kindOf g o.key != "block" then .error .attributeError
    else
      match checkNameType name type with
      | .error e => .error e
      | .ok () =>
        if (match g.child? o.key "data_frames" with | some c => g.hasChild c name | none => false) then
          .error .duplicateName
        else
          match entityCreateNew g o.key "data_frames" name type "data_frame" with
          | .error e => .error e
          | .ok (g1, k) => .ok (addDataset g1 k "data")

/-- the array of block `b` called `n` (navigation by link name, as `block.data_arrays` stores it) -/
def blockArray? (g : Graph) (b : Nat) (n : String) : Option Nat :=
  (g.child? b "data_arrays").bind fun c => g.child? c n

/-- `Block.create_multi_tag(name, type_, positions=<raw data>, extents=<raw data> | None)`.
Order of the code: name / type check; duplicate test in `multi_tags`;
`create_data_array("<name>-positions", "<type>-positions")` (its own refusal — e.g. DuplicateName in
`data_arrays` — passes through, nothing was created); the same for `-extents` (on refusal the
positions array is deleted again: the call leaves nothing behind); `MultiTag.create_new`
(= `Entity.create_new` + the `positions` link) and the `extents` link. -/
def createMultiTagAuto (g : Graph) (ownerPath : Path) (name type : String) (withExtents : Bool) :
    Except Err Graph :=
  match resolve g rootLoc ownerPath with
  | none => .error .keyError
  | some o =>
    if kindOf g o.key != "block" then .error .attributeError
    else
      match checkNameType name type with
      | .error e => .error e
      | .ok () =>
        if (match g.child? o.key "multi_tags" with | some c => g.hasChild c name | none => false) then
          .error .duplicateName
        else
          match createIn g ownerPath "data_array" (name ++ "-positions") (type ++ "-positions") none with
          | .error e => .error e
          | .ok g1 =>
            let g2? : Except Err Graph :=
              if withExtents then
                createIn g1 ownerPath "data_array" (name ++ "-extents") (type ++ "-extents") none
              else .ok g1
            match g2? with
            | .error e => .error e          -- (rolled back: `del self.data_arrays["<name>-positions"]`)
            | .ok g2 =>
              match blockArray? g2 o.key (name ++ "-positions") with
              | none => .error .keyError
              | some pos =>
                match entityCreateNew g2 o.key "multi_tags" name type "multi_tag" with
                | .error e => .error e
                | .ok (g3, k) =>
                  let g4 := createLinkIn g3 k "positions" pos
                  if withExtents then
                    match blockArray? g2 o.key (name ++ "-extents") with
                    | none => .error .keyError
                    | some ext => .ok (createLinkIn g4 k "extents" ext)
                  else .ok g4

/-- the histories of C03's theorems: every operation of `Store/Step.lean` and `create_data_frame`
(`createMultiTagAuto` is exercised by the correspondence; it is a composition of `createIn` for the
arrays and of the steps of `createIn … "multi_tag"`, and is not a constructor of its own here) -/
inductive OpX where
  | base (op : Op)
  | createFrame (owner : Path) (name type : String)
  deriving Repr, Inhabited

def applyX (g : Graph) : OpX → Option (Except Err Graph)
  | .base op => apply g op
  | .createFrame o n t => some (createFrame g o n t)

/-- the state after the call: unchanged when the call is refused (or could not be formed) -/
def stepX (g : Graph) (op : OpX) : Graph :=
  match applyX g op with
  | some (.ok g') => g'
  | _ => g

def runX (g : Graph) (ops : List OpX) : Graph := ops.foldl stepX g

def ReachableX (g : Graph) : Prop := ∃ ops : List OpX, g = runX init ops

theorem stepX_base (g : Graph) (op : Op) : stepX g (.base op) = step g op := rfl

theorem runX_base (g : Graph) (ops : List Op) : runX g (ops.map .base) = run g ops := by
  induction ops generalizing g with
  | nil => rfl
  | cons op rest ih => simp only [List.map_cons, runX, List.foldl_cons, run] at *; rw [stepX_base]; exact ih _

end Nix.Store
