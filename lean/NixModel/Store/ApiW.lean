import NixModel.Store.Step

/-!
# The creating / mutating API as *writers*

`Store/Api.lean` returns `Except Err Graph`: a refused call has no graph at all, so "refused ⇒
unchanged" is true by construction there and says nothing about the order of checks and writes in
the Python code. Here every function returns the graph it has *reached* together with the error,
if any: the primitive writes (`ensureGroup` of eagerly opened containers, `freshId`, `newNode`,
`addLink`, `setAttr`, the roll-backs in `except` clauses) happen in the order of the code, and an
error raised after a write returns the graph with that write in it.

Arguments the structural model abstracts from (dtype, data, ticks, labels …) enter as a `Fault`:
the *place* in the Python function where the argument makes it raise, and the error class.

 * `Stage.pre`    — raised by the argument handling that precedes the name check
                    (`create_data_array`: neither data nor shape, ragged data, `shape != data.shape`)
 * `Stage.entity` — raised after the entity group exists, before its dataset does
                    (`create_dataset` with an unsupported dtype or object data; a scalar `position`;
                    invalid `labels`, `sampling_interval`, scalar `ticks` of a new dimension)
 * `Stage.data`   — raised after the dataset exists (`write_direct` of data that cannot be converted,
                    invalid `unit` / `label`; non-numeric `position`; unordered / non-numeric `ticks`)
-/
namespace Nix.Store
open Graph

/-- the graph reached, and the error if the call was refused -/
abbrev Reached := Graph × Option Err

def toExcept (r : Reached) : Except Err Graph :=
  match r.2 with
  | none => .ok r.1
  | some e => .error e

/-- an `Api.lean` function all of whose checks precede its first write (`contDel`, `contAppend`,
`setRole`, `setAttrOp`: every `.error` of their definitions stands before the first primitive) -/
def checked (g : Graph) (r : Except Err Graph) : Reached :=
  match r with
  | .ok g' => (g', none)
  | .error e => (g, some e)

inductive Stage where | pre | entity | data
  deriving DecidableEq, Repr, Inhabited

structure Fault where
  stage : Stage
  err : Err
  deriving DecidableEq, Repr, Inhabited

def stageFault (s : Stage) (f : Option Fault) : Option Err :=
  match f with
  | some ft => if ft.stage = s then some ft.err else none
  | none => none

/-- `Entity.create_new`: id from the supply, the name/type check, then the writes. Returns the
container group and the entity node. -/
def entityCreateNewW (g : Graph) (ownerKey : Nat) (cname name type kind : String) :
    Graph × Except Err (Nat × Nat) :=
  let (g, name, id) :=
    if name == "" then
      let (g1, i) := g.freshId
      (g1, i, i)
    else if type != "" then
      let (g1, i) := g.freshId
      (g1, name, i)
    else (g, name, "")
  if hasSlash name then (g, .error .valueError)
  else if type == "" then (g, .error .valueError)
  else
    let (g1, c) := g.ensureGroup ownerKey cname
    let (g2, k) := g1.ensureGroup c name
    let g3 := g2.setAttr k "name" (some name)
    let g4 := g3.setAttr k "type" (some type)
    let g5 := g4.setAttr k "entity_id" (some id)
    (g5.setAttr k "~kind" (some kind), .ok (c, k))

/-- `File.create_block` -/
def createBlockW (g : Graph) (name type : String) : Reached :=
  let (g0, dataK) := g.ensureGroup 0 "data"
  if name != "" && g0.hasChild dataK name then (g0, some .duplicateName)
  else
    match entityCreateNewW g0 0 "data" name type "block" with
    | (g1, .ok _) => (g1, none)
    | (g1, .error e) => (g1, some e)

/-- `File.create_section` / `Section.create_section` -/
def createSectionW (g : Graph) (ownerPath : Path) (name type : String) : Reached :=
  match ownerPath with
  | [] =>
    match openCont g [] "metadata" with
    | none => (g, some .keyError)
    | some c =>
      match contHas g c (.str name) with
      | .error e => (g, some e)
      | .ok true => (g, some .duplicateName)
      | .ok false =>
        match entityCreateNewW g 0 "metadata" name type "section" with
        | (g1, .ok _) => (g1, none)
        | (g1, .error e) => (g1, some e)
  | p =>
    match resolve g rootLoc p with
    | none => (g, some .keyError)
    | some o =>
      if kindOf g o.key != "section" then (g, some .attributeError)
      else
        match checkNameType name type with
        | .error e => (g, some e)
        | .ok () =>
          -- `open_group("sections", True)`: the container group is created before the duplicate test
          let (g1, c) := g.ensureGroup o.key "sections"
          if g1.hasChild c name then (g1, some .duplicateName)
          else
            match entityCreateNewW g1 o.key "sections" name type "section" with
            | (g2, .ok _) => (g2, none)
            | (g2, .error e) => (g2, some e)

/-- `name in <container group>` for the lazily opened container `cname` of `owner` -/
def hasEntry (g : Graph) (owner : Nat) (cname name : String) : Bool :=
  match g.child? owner cname with
  | some c => g.hasChild c name
  | none => false

def createSpec (ownerKind what : String) : Option (String × String) :=
  match ownerKind, what with
  | "block", "group" => some ("groups", "group")
  | "block", "data_array" => some ("data_arrays", "data_array")
  | "block", "tag" => some ("tags", "tag")
  | "block", "multi_tag" => some ("multi_tags", "multi_tag")
  | "block", "source" => some ("sources", "source")
  | "source", "source" => some ("sources", "source")
  | _, _ => none

/-- `Block.create_group / create_tag / create_source / create_data_array / create_multi_tag`
(positions an existing array), `Source.create_source`.

`create_data_array` and `Tag.create_new` write first and roll back in an `except` clause
(`del data_arrays[name]`, `del h5parent[name]`); `create_multi_tag` deletes the half-built tag. -/
def createInW (g : Graph) (ownerPath : Path) (what name type : String) (extra : Option Nat)
    (fault : Option Fault) : Reached :=
  match resolve g rootLoc ownerPath with
  | none => (g, some .keyError)
  | some o =>
    let ok := kindOf g o.key
    match createSpec ok what with
    | none => (g, some .attributeError)
    | some (cname, kind) =>
      -- create_data_array handles `data` / `shape` before it looks at the name
      match (if kind == "data_array" then stageFault .pre fault else none) with
      | some e => (g, some e)
      | none =>
      match checkNameType name type with
      | .error e => (g, some e)
      | .ok () =>
        let g0 := if ok == "source" then (g.ensureGroup o.key cname).1 else g
        if hasEntry g0 o.key cname name then (g0, some .duplicateName)
        else if kind == "multi_tag" then
          match extra with
          | none => (g0, some .valueError)
          | some pos =>
            match entityCreateNewW g0 o.key cname name type kind with
            | (g1, .error e) => (g1, some e)
            | (g1, .ok (c, k)) =>
              if !isKind g1 pos "data_array" then (g1.delLink c name, some .typeError)
              else if !inBlockStore g1 o.key "data_arrays" pos then (g1.delLink c name, some .runtimeError)
              else (createLinkIn g1 k "positions" pos, none)
        else
          match entityCreateNewW g0 o.key cname name type kind with
          | (g1, .error e) => (g1, some e)
          | (g1, .ok (c, k)) =>
            if kind == "data_array" || kind == "tag" then
              match stageFault .entity fault with
              | some e => (g1.delLink c name, some e)
              | none =>
                let g2 := addDataset g1 k (if kind == "data_array" then "data" else "position")
                match stageFault .data fault with
                | some e => (g2.delLink c name, some e)
                | none => (g2, none)
            else (g1, none)

/-- `Section.create_property(name, 0)`: `open_group("properties", True)` comes first -/
def createPropertyW (g : Graph) (ownerPath : Path) (name : String) : Reached :=
  match resolve g rootLoc ownerPath with
  | none => (g, some .keyError)
  | some o =>
    if kindOf g o.key != "section" then (g, some .attributeError)
    else
      let (g1, c) := g.ensureGroup o.key "properties"
      if name != "" && g1.hasChild c name then (g1, some .duplicateName)
      else if name == "" then (g1, some .valueError)
      else if hasSlash name then (g1, some .valueError)
      else
        let (g2, d) := g1.newNode .dataset
        let g3 := g2.addLink c name d
        let g4 := g3.setAttr d "name" (some name)
        let (g5, i) := g4.freshId
        let g6 := g5.setAttr d "entity_id" (some i)
        (g6.setAttr d "~kind" (some "property"), none)

/-- a DataFrame offered as a `tagged` feature (`UnsupportedLinkType`) -/
def dfTagged (g : Graph) (ownerPath : Path) (data : Option Nat) (lt : String) : Bool :=
  match data with
  | some t => (blockOfPath g ownerPath).isSome && isKind g t "data_frame" && lt == "tagged"
  | none => false

/-- `BaseTag.create_feature` → `Feature.create_new`: the feature group is created and its
`entity_id` and `link_type` written before the data object is examined; the `except` clause removes
it again (`del h5parent[id_]`). -/
def createFeatureW (g : Graph) (ownerPath : Path) (data : Option Nat) (linkType : String) : Reached :=
  match resolve g rootLoc ownerPath with
  | none => (g, some .keyError)
  | some o =>
    let ok := kindOf g o.key
    if ok != "tag" && ok != "multi_tag" then (g, some .attributeError)
    else
      let lt := linkType.toLower
      if lt != "tagged" && lt != "untagged" && lt != "indexed" then (g, some .valueError)
      else if dfTagged g ownerPath data lt then
        (g, some .valueError)        -- UnsupportedLinkType, raised before anything is written
      else
        let (g1, i) := g.freshId
        let (g2, c) := g1.ensureGroup o.key "features"
        let (g3, k) := g2.ensureGroup c i
        let g4 := g3.setAttr k "entity_id" (some i)
        let g5 := g4.setAttr k "~kind" (some "feature")
        let g6 := g5.setAttr k "link_type" (some lt)
        let back := g6.delLink c i
        match data, blockOfPath g ownerPath with
        | none, _ => (back, some .typeError)
        | some _, none => (back, some .runtimeError)
        | some t, some b =>
          if !(isKind g t "data_array" || isKind g t "data_frame") then (back, some .typeError)
          else if isKind g t "data_array" && !inBlockStore g b "data_arrays" t then (back, some .runtimeError)
          else if isKind g t "data_frame" && !inBlockStore g b "data_frames" t then (back, some .runtimeError)
          else
            let g7 := g6.setAttr k "target_type"
              (some (if isKind g t "data_array" then "DataArray" else "DataFrame"))
            (createLinkIn g7 k "data" t, none)

/-- `DataArray.append_set_dimension / append_sampled_dimension / append_range_dimension`:
`Dimension.__init__` opens (creates) the `dimensions` group, `_set_dimension_type` creates the
descriptor group; the labels / interval / ticks / label / unit / offset are written afterwards;
a refusal there removes the descriptor again (`_discard_dimension`). `withData`: the call carries
labels / ticks (a leaf dataset). -/
def appendDimW (g : Graph) (daPath : Path) (dimKind : String) (withData : Bool)
    (fault : Option Fault) : Reached :=
  match resolve g rootLoc daPath with
  | none => (g, some .keyError)
  | some o =>
    if kindOf g o.key != "data_array" then (g, some .attributeError)
    else if !(dimKind == "set" || dimKind == "sample" || dimKind == "range") then (g, some .attributeError)
    else
      let n := match g.child? o.key "dimensions" with
        | some d => (g.links d).length
        | none => 0
      let idx := toString (n + 1)
      let (g1, d) := g.ensureGroup o.key "dimensions"
      let (g2, k) := g1.ensureGroup d idx
      let g3 := g2.setAttr k "dimension_type" (some dimKind)
      match stageFault .entity fault with
      | some e => (g3.delLink d idx, some e)
      | none =>
        let g4 := if withData then addDataset g3 k (if dimKind == "set" then "labels" else "ticks") else g3
        match stageFault .data fault with
        | some e => (g4.delLink d idx, some e)
        | none => (g4, none)

/-! ## `Block.create_multi_tag` with positions / extents given as data

`positions` (and `extents`) that are not DataArrays are first stored in auto-created arrays
`<name>-positions` / `<name>-extents`; when anything fails afterwards the `except` clause deletes
the half-built tag and then the auto-created arrays through `del self.data_arrays[...]`
(`Container.__delitem__` → `delete_all([id])`). -/

inductive ArrArg where
  | ref (k : Nat)                       -- an existing entity object
  | data (fault : Option Fault)         -- array-like data (stored in an auto-created array)
  | absent                              -- None
  deriving DecidableEq, Repr, Inhabited

/-- `Block.create_data_array(name, type, data=…)` as `create_multi_tag` calls it: the same steps as
`createInW … "data_array"`, returning the new array itself (the Python code holds the object) -/
def autoArray (g : Graph) (blockPath : Path) (name type : String) (fault : Option Fault) :
    Graph × Except Err Nat :=
  match resolve g rootLoc blockPath with
  | none => (g, .error .keyError)
  | some o =>
    if kindOf g o.key != "block" then (g, .error .attributeError)
    else
      match stageFault .pre fault with
      | some e => (g, .error e)
      | none =>
      match checkNameType name type with
      | .error e => (g, .error e)
      | .ok () =>
        if hasEntry g o.key "data_arrays" name then (g, .error .duplicateName)
        else
          match entityCreateNewW g o.key "data_arrays" name type "data_array" with
          | (g1, .error e) => (g1, .error e)
          | (g1, .ok (c, k)) =>
            match stageFault .entity fault with
            | some e => (g1.delLink c name, .error e)
            | none =>
              let g2 := addDataset g1 k "data"
              match stageFault .data fault with
              | some e => (g2.delLink c name, .error e)
              | none => (g2, .ok k)

/-- `del self.data_arrays[name]` for an auto-created array -/
def dropAuto (g : Graph) (k : Option Nat) : Graph :=
  match k with
  | some a => g.deleteObjs [a]
  | none => g

/-- `isinstance(x, DataArray)`: any other object is handed to `create_data_array(data=x)`, where
NumPy wraps it in an object array that `create_dataset` refuses (TypeError) -/
def normArr (g : Graph) : ArrArg → ArrArg
  | .ref k => if isKind g k "data_array" then .ref k else .data (some { stage := .entity, err := .typeError })
  | a => a

/-- the end of `create_multi_tag` — `MultiTag.create_new`, the positions / extents setters (the extents
inside the rolled-back section) and the `except` clause: `del multi_tags[name]`, then `undo` deletes the
auto-created arrays. `gB` is the graph in which those arrays may already exist. -/
def mtagTail (gB : Graph) (undo : Graph → Graph) (o : Nat) (n t : String) (pk : Nat) (ek : Option Nat) : Reached :=
  match entityCreateNewW gB o "multi_tags" n t "multi_tag" with
  | (g3, .error e) => (undo g3, some e)
  | (g3, .ok (c, k)) =>
    -- MultiTag.positions setter
    if !isKind g3 pk "data_array" then (undo (g3.delLink c n), some .typeError)
    else if !inBlockStore g3 o "data_arrays" pk then (undo (g3.delLink c n), some .runtimeError)
    else
      match ek with
      | none => (createLinkIn g3 k "positions" pk, none)
      | some e =>
        -- MultiTag.extents setter
        if !isKind (createLinkIn g3 k "positions" pk) e "data_array" then
          (undo ((createLinkIn g3 k "positions" pk).delLink c n), some .typeError)
        else if !inBlockStore (createLinkIn g3 k "positions" pk) o "data_arrays" e then
          (undo ((createLinkIn g3 k "positions" pk).delLink c n), some .runtimeError)
        else (createLinkIn (createLinkIn g3 k "positions" pk) k "extents" e, none)

def createMultiTagW (g : Graph) (blockPath : Path) (name type : String) (pos ext : ArrArg) : Reached :=
  match resolve g rootLoc blockPath with
  | none => (g, some .keyError)
  | some o =>
    if kindOf g o.key != "block" then (g, some .attributeError)
    else
      match checkNameType name type with
      | .error e => (g, some e)
      | .ok () =>
        if hasEntry g o.key "multi_tags" name then (g, some .duplicateName)
        else
          -- try:
          let (g1, p?) : Graph × Except Err (Nat × Bool) :=
            match normArr g pos with
            | .ref k => (g, .ok (k, false))
            | .absent => (g, .error .valueError)        -- create_data_array(data=None) refuses first
            | .data f =>
              match autoArray g blockPath (name ++ "-positions") (type ++ "-positions") f with
              | (g1, .ok k) => (g1, .ok (k, true))
              | (g1, .error e) => (g1, .error e)
          match p? with
          | .error e => (g1, some e)                    -- nothing of ours exists yet
          | .ok (pk, pcreated) =>
            let (g2, e?) : Graph × Except Err (Option Nat × Bool) :=
              match normArr g1 ext with
              | .ref k => (g1, .ok (some k, false))
              | .absent => (g1, .ok (none, false))
              | .data f =>
                match autoArray g1 blockPath (name ++ "-extents") (type ++ "-extents") f with
                | (g2, .ok k) => (g2, .ok (some k, true))
                | (g2, .error e) => (g2, .error e)
            let undoPos (h : Graph) : Graph := if pcreated then dropAuto h (some pk) else h
            match e? with
            | .error e => (undoPos g2, some e)
            | .ok (ek, ecreated) =>
              let undo (h : Graph) : Graph :=
                let h1 := undoPos h
                if ecreated then dropAuto h1 ek else h1
              mtagTail g2 undo o.key name type pk ek

/-! ## `LinkContainer.extend`

`extend(items)` checks every item (`_accept`, the checks of `append`) before the first link is
written, then links them in order. `contExtendLoopW` is the loop of `append` calls the method used
to be: it refuses a later item after the leading ones have been linked. -/

/-- the checks of `LinkContainer.append` / `SourceLinkContainer.append` (`_accept`): the entity to be
linked and its id -/
def acceptItem (g : Graph) (c : Cont) (key : Key) : Except Err (Nat × String) :=
  match c.info.flavour with
  | .link | .sourceLink =>
    let item? : Except Err Nat :=
      match key with
      | .ent k => .ok k
      | .str x =>
        if isUuid x then
          match getById g c.node x with
          | some l => .ok l.2
          | none => .error .keyError
        else .error .typeError
      | .pos _ => .error .typeError
    match item? with
    | .error e => .error e
    | .ok k =>
      match g.entityId k with
      | none => .error .typeError
      | some id =>
        let accepted : Except Err Bool :=
          match c.info.flavour, c.block with
          | .link, some b =>
            if kindOf g k != c.info.item then .error .typeError
            else
              match g.getAttr k "name" with
              | some nm =>
                match getByName g (g.child? b c.info.store) nm with
                | some l => .ok (l.2 == k)
                | none => .ok false
              | none => .ok false
          | .sourceLink, some b => .ok (inSourceTree g b id && inSourceTreeObj g b k)
          | _, _ => .ok false
        match accepted with
        | .error e => .error e
        | .ok false => .error .runtimeError
        | .ok true => .ok (k, id)
  | _ => .error .attributeError

/-- `self._backend.create_link(item, item.id)` -/
def linkItem (g : Graph) (c : Cont) (it : Nat × String) : Graph :=
  let (g1, cn) := g.ensureGroup c.owner.key c.cname
  createLinkIn g1 cn it.2 it.1

def contExtendW (g : Graph) (c : Cont) (keys : List Key) : Reached :=
  match keys.mapM (acceptItem g c) with
  | .error e => (g, some e)
  | .ok items => (items.foldl (fun h it => linkItem h c it) g, none)

/-- the former implementation: `for item in items: self.append(item)` -/
def contExtendLoopW (g : Graph) (c : Cont) : List Key → Reached
  | [] => (g, none)
  | key :: rest =>
    match acceptItem g c key with
    | .error e => (g, some e)
    | .ok it => contExtendLoopW (linkItem g c it) c rest

/-! ## operations -/

inductive OpW where
  | createBlock (name type : String)
  | createSection (owner : Path) (name type : String)
  | createIn (owner : Path) (what name type : String) (extra : Option Path) (fault : Option Fault)
  | createProperty (owner : Path) (name : String)
  | createFeature (owner : Path) (data : Option Path) (linkType : String)
  | appendDim (da : Path) (dimKind : String) (withData : Bool) (fault : Option Fault)
  | del (owner : Path) (cname : String) (key : KeyArg)
  | append (owner : Path) (cname : String) (key : KeyArg)
  | setRole (owner : Path) (role : String) (target : Option Path)
  | setAttr (p : Path) (attr : String) (v : Option String)
  deriving Repr, Inhabited

/-- the ops of `Step.lean` as writer ops (no fault) -/
def OpW.ofOp : Op → Option OpW
  | .createBlock n t => some (.createBlock n t)
  | .createSection o n t => some (.createSection o n t)
  | .createIn o w n t e => some (.createIn o w n t e none)
  | .createProperty o n => some (.createProperty o n)
  | .createFeature o d lt => some (.createFeature o d lt)
  | .del o c k => some (.del o c k)
  | .append o c k => some (.append o c k)
  | .setRole o r t => some (.setRole o r t)
  | .setAttr p a v => some (.setAttr p a v)
  | .reopen => none

def applyW (g : Graph) : OpW → Option Reached
  | .createBlock n t => some (createBlockW g n t)
  | .createSection o n t => some (createSectionW g o n t)
  | .createIn o w n t none f => some (createInW g o w n t none f)
  | .createIn o w n t (some ep) f =>
    (resolve g rootLoc ep).map fun l => createInW g o w n t (some l.key) f
  | .createProperty o n => some (createPropertyW g o n)
  | .createFeature o none lt => some (createFeatureW g o none lt)
  | .createFeature o (some dp) lt =>
    (resolve g rootLoc dp).map fun l => createFeatureW g o (some l.key) lt
  | .appendDim p kd wd f => some (appendDimW g p kd wd f)
  | .del o c k =>
    match openCont g o c, resolveKeyArg g k with
    | some cont, some key => some (checked g (contDel g cont key))
    | _, _ => none
  | .append o c k =>
    match openCont g o c, resolveKeyArg g k with
    | some cont, some key => some (checked g (contAppend g cont key))
    | _, _ => none
  | .setRole o r none => some (checked g (setRole g o r none))
  | .setRole o r (some tp) => (resolve g rootLoc tp).map fun l => checked g (setRole g o r (some l.key))
  | .setAttr p a v => some (checked g (setAttrOp g p a v))

/-- the graph the file is in after the call, *whether or not it was refused* -/
def stepW (g : Graph) (op : OpW) : Graph :=
  match applyW g op with
  | some r => r.1
  | none => g

def runW (g : Graph) (ops : List OpW) : Graph := ops.foldl stepW g

end Nix.Store
