import NixModel.Generated.CopyShape

/-!
# Data frames in the copy histories (C20)

`Block.create_data_frame(name, type_, col_dict=…)` (creation, as far as the object graph goes: the
entity group and its compound dataset `data`) and `Block.create_data_frame(copy_from=…)`. The copy
has no hand-written model: it is the interpretation (`CopyShape.callerBy`) of the entry-point shape
that `harness/extract/copyshape.py` generates from `block.py` (`Gen.blockCreateDataFrame`) over the
generated shape of `H5Group.copy` — `Props/C20.entry_point_source_is_generic` shows it is the generic
copy routine, so every C20 theorem holds for it.
-/
namespace Nix.Store
open Graph

/-- `Block.create_data_frame(name, type_, col_dict=…)`: name / type check, duplicate test in the
(lazily opened) `data_frames` group, `DataFrame.create_new` = `Entity.create_new` + the dataset `data` -/
def createDataFrame (g : Graph) (ownerPath : Path) (name type : String) : Except Err Graph :=
  match resolve g rootLoc ownerPath with
  | none => .error .keyError
  | some o =>
    if kindOf g o.key != "block" then .error .attributeError
    else
      match checkNameType name type with
      | .error e => .error e
      | .ok () =>
        if (match g.child? o.key "data_frames" with | some c => g.hasChild c name | none => false) then
          .error .duplicateName
        else
          match entityCreateNew g o.key "data_frames" name type "data_frame" with
          | .error e => .error e
          | .ok (g1, k) => .ok (addDataset g1 k "data")

/-- `Block.create_data_frame(copy_from=obj, name, keep_copy_id)` on the block at `destBlockPath` -/
def copyFrameIntoBlock (src dst : Graph) (destBlockPath : Path) (obj : Nat) (name : String) (keepId : Bool) :
    Except Err Graph :=
  match resolve dst rootLoc destBlockPath with
  | none => .error .keyError
  | some b =>
    if kindOf dst b.key != "block" then .error .attributeError
    else
      (CopyShape.callerBy CopyShape.Gen.h5GroupCopy CopyShape.Gen.blockCreateDataFrame src dst b.key obj name
        true keepId).map (·.1)

/-! ## `SourceLinkContainer.append` after an id-keeping block copy

`Store/Api.contAppend` decides "is this source part of the block's source tree?" by id
(`inSourceTree`), which coincides with the code on the copy-free histories of the other properties.
The code (fix a440b8d) asks for the very object: `find_sources(filtr = same id **and** same HDF5
object)`. After an id-keeping block copy the two differ — a source *object* of the other block
carries an id that also occurs in this block. `contAppend20` adds that test; when it accepts, it is
`contAppend` (`Props/C20.contAppend20_refines`), so every theorem about appended links carries over. -/

-- `bfsKeys` / `subtreeKeys` (keys of a section / source subtree, breadth first) live in `Store/Api.lean`
-- since deletion is by object.

/-- is the source *object* `k` somewhere in the source tree of block `b`? -/
def inSourceTreeObj (g : Graph) (b : Nat) (k : Nat) : Bool :=
  match g.child? b "sources" with
  | some c => ((g.links c).map (·.2)).any fun top => (subtreeKeys g "sources" top).contains k
  | none => false

/-- `LinkContainer.append` / `SourceLinkContainer.append` with the object test of the source link lists -/
def contAppend20 (g : Graph) (c : Cont) (key : Key) : Except Err Graph :=
  match c.info.flavour, c.block, key with
  | .sourceLink, some b, .ent k =>
    match g.entityId k with
    | some id => if inSourceTree g b id && !inSourceTreeObj g b k then .error .runtimeError else contAppend g c key
    | none => contAppend g c key
  | _, _, _ => contAppend g c key

end Nix.Store
