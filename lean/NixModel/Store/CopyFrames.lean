import NixModel.Generated.CopyShape

/-!
# Data frames in the copy histories (C20)

`Block.create_data_frame(name, type_, col_dict=…)` (creation, as far as the object graph goes: the
entity group and its compound dataset `data`) and `Block.create_data_frame(copy_from=…)`. The copy
has no hand-written model: it is the interpretation (`CopyShape.callerBy`) of the entry-point shape
that `harness/extract/copyshape.py` generates from `block.py` (`Gen.blockCreateDataFrame`) over the
generated shape of `H5Group.copy` — `Props/C20.entry_point_source_is_generic` shows it is the generic
copy routine, so every C20 theorem holds for it.
-/
namespace Nix.Store
open Graph

/-- `Block.create_data_frame(name, type_, col_dict=…)`: name / type check, duplicate test in the
(lazily opened) `data_frames` group, `DataFrame.create_new` = `Entity.create_new` + the dataset `data` -/
def createDataFrame (g : Graph) (ownerPath : Path) (name type : String) : Except Err Graph :=
  match resolve g rootLoc ownerPath with
  | none => .error .keyError
  | some o =>
    if kindOf g o.key != "block" then .error .attributeError
    else
      match checkNameType name type with
      | .error e => .error e
      | .ok () =>
        if (match g.child? o.key "data_frames" with | some c => g.hasChild c name | none => false) then
          .error .duplicateName
        else
          match entityCreateNew g o.key "data_frames" name type "data_frame" with
          | .error e => .error e
          | .ok (g1, k) => .ok (addDataset g1 k "data")

/-- `Block.create_data_frame(copy_from=obj, name, keep_copy_id)` on the block at `destBlockPath` -/
def copyFrameIntoBlock (src dst : Graph) (destBlockPath : Path) (obj : Nat) (name : String) (keepId : Bool) :
    Except Err Graph :=
  match resolve dst rootLoc destBlockPath with
  | none => .error .keyError
  | some b =>
    if kindOf dst b.key != "block" then .error .attributeError
    else
      (CopyShape.callerBy CopyShape.Gen.h5GroupCopy CopyShape.Gen.blockCreateDataFrame src dst b.key obj name
        true keepId).map (·.1)

/-! ## `SourceLinkContainer.append` after an id-keeping copy

The code (fix a440b8d) asks for the very object: `find_sources(filtr = same id **and** same HDF5 object)`. After an
id-keeping copy a source *object* of the other block — or the detached duplicate that an id-keeping array copy
links — carries an id that also occurs in this block's source tree. `Store/Api.contAppend` makes that test itself
(`inSourceTreeObj`) since the histories of C04 contain id-keeping copies too; `contAppend20` is kept as the name the
C20 / C04 drivers and `Props/C20.contAppend20_refines` use. -/

-- `bfsKeys` / `subtreeKeys` (keys of a section / source subtree, breadth first) and `inSourceTreeObj` live in
-- `Store/Api.lean`.

/-- `LinkContainer.append` / `SourceLinkContainer.append` with the object test of the source link lists -/
def contAppend20 (g : Graph) (c : Cont) (key : Key) : Except Err Graph := contAppend g c key

end Nix.Store
