import NixModel.Store.Api

/-!
# Operation histories over the structural model

`Op` is one public API call with its arguments addressed by path; `step` applies it (a refused
call leaves the graph as it is and reports the error class); `run` folds a history.
Queries (`len`, iteration, `c[key]`, `key in c`) are pure functions of the graph.
-/
namespace Nix.Store

/-- a key as the caller writes it: resolved against the current graph when the op runs -/
inductive KeyArg where
  | str (s : String)         -- a literal name or id text
  | idOf (p : Path)          -- the id of the entity at `p`
  | nameOf (p : Path)        -- the name of the entity at `p`
  | pos (i : Int)
  | obj (p : Path)           -- the entity object at `p`
  deriving DecidableEq, Repr, Inhabited

def resolveKeyArg (g : Graph) : KeyArg → Option Key
  | .str s => some (.str s)
  | .idOf p => ((resolve g rootLoc p).bind fun l => g.entityId l.key).map Key.str
  | .nameOf p => ((resolve g rootLoc p).bind fun l => g.getAttr l.key "name").map Key.str
  | .pos i => some (.pos i)
  | .obj p => (resolve g rootLoc p).map fun l => Key.ent l.key

inductive Op where
  | createBlock (name type : String)
  | createSection (owner : Path) (name type : String)
  | createIn (owner : Path) (what name type : String) (extra : Option Path)
  | createProperty (owner : Path) (name : String)
  | createFeature (owner : Path) (data : Option Path) (linkType : String)
  | del (owner : Path) (cname : String) (key : KeyArg)
  | append (owner : Path) (cname : String) (key : KeyArg)
  | setRole (owner : Path) (role : String) (target : Option Path)
  | setAttr (p : Path) (attr : String) (v : Option String)
  | reopen
  deriving Repr, Inhabited

/-- `none` = the op could not even be formed (a path argument does not resolve): the harness
never sends such an op to the implementation either -/
def apply (g : Graph) : Op → Option (Except Err Graph)
  | .createBlock n t => some (createBlock g n t)
  | .createSection o n t => some (createSection g o n t)
  | .createIn o w n t none => some (createIn g o w n t none)
  | .createIn o w n t (some ep) =>
    (resolve g rootLoc ep).map fun l => createIn g o w n t (some l.key)
  | .createProperty o n => some (createProperty g o n)
  | .createFeature o none lt => some (createFeature g o none lt)
  | .createFeature o (some dp) lt =>
    (resolve g rootLoc dp).map fun l => createFeature g o (some l.key) lt
  | .del o c k =>
    match openCont g o c, resolveKeyArg g k with
    | some cont, some key => some (contDel g cont key)
    | _, _ => none
  | .append o c k =>
    match openCont g o c, resolveKeyArg g k with
    | some cont, some key => some (contAppend g cont key)
    | _, _ => none
  | .setRole o r none => some (setRole g o r none)
  | .setRole o r (some tp) => (resolve g rootLoc tp).map fun l => setRole g o r (some l.key)
  | .setAttr p a v => some (setAttrOp g p a v)
  | .reopen => some (.ok g)       -- close + open: nixio keeps no state outside the file

/-- the state after the call: unchanged when the call is refused (or could not be formed) -/
def step (g : Graph) (op : Op) : Graph :=
  match apply g op with
  | some (.ok g') => g'
  | _ => g

def run (g : Graph) (ops : List Op) : Graph := ops.foldl step g

/-- a freshly created file: `File.__init__` creates the two root groups, `data` then `metadata` -/
def init : Graph := ((({} : Graph).ensureGroup 0 "data").1.ensureGroup 0 "metadata").1

def Reachable (g : Graph) : Prop := ∃ ops : List Op, g = run init ops

/-! ## container views (what `len`, iteration, indexing and membership return) -/

/-- the entries of a container: iteration order = link creation order -/
def contEntries (g : Graph) (c : Cont) : List (String × Nat) := cLinks g c.node

def contLen (g : Graph) (c : Cont) : Nat := (contEntries g c).length

end Nix.Store
