import NixModel.Store.Api

/-!
# Vocabulary of the container-lookup decision trees (C03)

`harness/extract/c03_contshape.py` reads `Container.__contains__`, `LinkContainer.__contains__`,
`Container.__getitem__`, `LinkContainer.__getitem__` (nixio/container.py) and `H5Group.get_by_id_or_name`
(nixio/hdf5/h5group.py) into decision trees `DT` over the atoms below (`NixModel/Generated/ContShape.lean`). Each
atom stands for ONE expression of the Python code and gets the meaning of that expression over the HDF5 graph, on its
own — not the meaning of the function it occurs in. The evaluators run a tree for a container and a key; the
theorems of `Lemmas/C03ContShape.lean` say that the generated trees compute `contHas` / `contGet` /
`getByIdOrName`.

A key is what the caller passed: `Key.ent k` an entity object (its HDF5 object is node `k`), `Key.str x` a str,
`Key.pos i` an int.
-/
namespace Nix.Store
open Graph

/-- the tests of the code -/
inductive TAtom where
  | hasId                -- `hasattr(item, "id")`
  | isItemClass          -- `isinstance(item, self._itemclass)`
  | nameNotInBackend     -- `item.name not in self._backend`
  | isUuid               -- `util.is_uuid(item)`
  | isInt                -- `isinstance(item, int)`
  | inBackend            -- `item in self._backend`  (H5Group.__contains__: a link of that name)
  | getByIdOk            -- `self._backend.get_by_id(item)` does not raise KeyError
  | scanNameFinds        -- `for grp in self._backend: if item == grp.get_attr("name")` finds one
  -- nixio/hdf5/h5group.py (`self.group`: the h5py group of the container, None when it does not exist)
  | groupThere           -- `self.group` (truth value)
  | groupIsNone          -- `self.group is None`
  | nameInGroup          -- `item in self.group`
  | scanIdFinds          -- `for grp in self: if grp.get_attr("entity_id") == item` finds one
  deriving DecidableEq, Repr

/-- the returned expressions of the code -/
inductive RAtom where
  | true | false
  | inBackend            -- `return item in self._backend`
  | sameObjUnderName     -- `return self._backend.group[item.name] == <the HDF5 object of item>`
  | idInBackend          -- `return item.id in self._backend`
  | instGetByIdOrName    -- `return self._inst_item(self._backend.get_by_id_or_name(item))`
  | instGetByName        -- `return self._inst_item(self._backend.get_by_name(item))`
  | instScan             -- `return self._inst_item(grp)` of the scan by name attribute
  | byPos                -- the positional branch of `Container.__getitem__` (pinned as a whole by the translator)
  | getById              -- `return self.get_by_id(item)`   (H5Group)
  | getByName            -- `return self.get_by_name(item)` (H5Group)
  | fromGroup            -- `return self.create_from_h5obj(self.group[item])`
  | scanIdItem           -- `return grp` of the scan by `entity_id`
  | inGroup              -- `return item in self.group`
  deriving DecidableEq, Repr

inductive DT where
  | test (a : TAtom) (yes no : DT)
  | ret (r : RAtom)
  | raise (e : Err)
  deriving Repr

/-- the value of a test for container `c` and key `key` -/
def testVal (g : Graph) (c : Cont) (key : Key) : TAtom → Bool
  | .hasId => match key with | .ent _ => true | _ => false
  | .isItemClass => match key with | .ent k => kindOf g k == c.info.item | _ => false
  | .nameNotInBackend =>
    match key with
    | .ent k => (match g.getAttr k "name" with | some nm => (getByName g c.node nm).isNone | none => true)
    | _ => true
  | .isUuid => match key with | .str x => isUuid x | _ => false
  | .isInt => match key with | .pos _ => true | _ => false
  | .inBackend => match key with | .str x => (getByName g c.node x).isSome | _ => false
  | .getByIdOk => match key with | .str x => (getById g c.node x).isSome | _ => false
  | .scanNameFinds => match key with | .str x => (scanByNameAttr g c.node x).isSome | _ => false
  | .groupThere => c.node.isSome
  | .groupIsNone => c.node.isNone
  | .nameInGroup =>
    match key, c.node with
    | .str x, some k => (g.links k).any fun l => l.1 == x
    | _, _ => false
  | .scanIdFinds =>
    match key with
    | .str x => (cLinks g c.node).any fun l => g.entityId l.2 == some x
    | _ => false

/-- a returned expression as the result of a membership test (`none`: not a truth value) -/
def retHas (g : Graph) (c : Cont) (key : Key) : RAtom → Option (Except Err Bool)
  | .true => some (.ok true)
  | .false => some (.ok false)
  | .inBackend => some (.ok (testVal g c key .inBackend))
  | .sameObjUnderName =>
    match key with
    | .ent k =>
      (match g.getAttr k "name" with
       | some nm => (match getByName g c.node nm with
         | some l => some (.ok (l.2 == k))      -- HDF5 object identity
         | none => some (.ok false))
       | none => some (.ok false))
    | _ => none
  | .idInBackend =>
    match key with
    | .ent k => (match g.entityId k with
      | some i => some (.ok (getByName g c.node i).isSome)
      | none => some (.ok false))
    | _ => none
  | .inGroup => some (.ok (testVal g c key .nameInGroup))
  | _ => none

def orKeyError (o : Option (String × Nat)) : Except Err (String × Nat) :=
  match o with | some l => .ok l | none => .error .keyError

/-- a returned expression as the result of a lookup (`none`: not an entity) -/
def retGet (g : Graph) (c : Cont) (key : Key) : RAtom → Option (Except Err (String × Nat))
  | .instGetByIdOrName => match key with | .str x => some (orKeyError (getByIdOrName g c.node x)) | _ => none
  | .instGetByName => match key with | .str x => some (orKeyError (getByName g c.node x)) | _ => none
  | .instScan => match key with | .str x => some (orKeyError (scanByNameAttr g c.node x)) | _ => none
  | .byPos => match key with | .pos i => some (contGet g c (.pos i)) | _ => none
  | _ => none

/-- a returned expression of an `H5Group` lookup: the entry found, or KeyError (`none` inside) -/
def retLookup (g : Graph) (c : Cont) (key : Key) : RAtom → Option (Option (String × Nat))
  | .getById => match key with | .str x => some (getById g c.node x) | _ => none
  | .getByName => match key with | .str x => some (getByName g c.node x) | _ => none
  | .fromGroup =>        -- `self.group[item]`: the link of that name
    match key, c.node with
    | .str x, some k => some ((g.links k).find? fun l => l.1 == x)
    | _, _ => none
  | .scanIdItem =>       -- the first member, in iteration order, whose `entity_id` is the text
    match key with
    | .str x => some ((cLinks g c.node).find? fun l => g.entityId l.2 == some x)
    | _ => none
  | _ => none

def DT.evalHas (g : Graph) (c : Cont) (key : Key) : DT → Option (Except Err Bool)
  | .test a y n => bif testVal g c key a then y.evalHas g c key else n.evalHas g c key
  | .ret r => retHas g c key r
  | .raise e => some (.error e)

def DT.evalGet (g : Graph) (c : Cont) (key : Key) : DT → Option (Except Err (String × Nat))
  | .test a y n => bif testVal g c key a then y.evalGet g c key else n.evalGet g c key
  | .ret r => retGet g c key r
  | .raise e => some (.error e)

def DT.evalLookup (g : Graph) (c : Cont) (key : Key) : DT → Option (Option (String × Nat))
  | .test a y n => bif testVal g c key a then y.evalLookup g c key else n.evalLookup g c key
  | .ret r => retLookup g c key r
  | .raise _ => some none

end Nix.Store
