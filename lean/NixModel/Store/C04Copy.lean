import NixModel.Store.C04Ext
import NixModel.Store.Copy

/-!
# C04 — the operation language of the correspondence histories: `Op4` plus copies within the file

The histories of `harness/props/c04.py` copy arrays, tags, multi-tags, sections, properties and whole
blocks inside the file (`create_*(copy_from=…, keep_copy_id=…)`, `copy_section`), mostly keeping ids — two
objects then carry one `entity_id`, often under one name in different parents — and then delete on either
side. `Op5` adds these calls (the copy model of `Store/Copy.lean`, source file = destination file) to
`Op4`; the arguments are paths resolved in the current graph, as the driver does (`Driver/C04.lean`).
-/
namespace Nix.Store

inductive Op5 where
  | base (op : Op4)
  | copyBlock (src : Path) (name : String) (keepId : Bool)
  | copyInto (destBlock : Path) (what : String) (src : Path) (name : String) (keepId : Bool)
  | copySection (dest : Option Path) (src : Path) (children keepId : Bool) (name : String)
  | copyProperty (destSec src : Path) (name : String) (keepId : Bool)
  deriving Repr, Inhabited

/-- the node at a path -/
def keyAt (g : Graph) (p : Path) : Option Nat := (resolve g rootLoc p).map (·.key)

def orSame (g : Graph) (r : Option (Except Err Graph)) : Graph :=
  match r with
  | some (.ok g') => g'
  | _ => g

/-- the state after the call: unchanged when the call is refused (or an argument path does not resolve) -/
def step5 (g : Graph) : Op5 → Graph
  | .base op => step4 g op
  | .copyBlock sp name keep => orSame g ((keyAt g sp).map fun k => copyBlock g g k name keep)
  | .copyInto dp what sp name keep => orSame g ((keyAt g sp).map fun k => copyIntoBlock g g dp what k name keep)
  | .copySection dest sp children keep name =>
    orSame g ((keyAt g sp).map fun k => copySection g g dest k children keep name)
  | .copyProperty dp sp name keep =>
    orSame g ((keyAt g dp).bind fun d => (keyAt g sp).map fun k => copyProperty g g d k name keep)

def run5 (g : Graph) (ops : List Op5) : Graph := ops.foldl step5 g

/-- a deletion as an operation of the largest language -/
def Op5.del (owner : Path) (cname : String) (key : KeyArg) : Op5 := .base (.base (.del owner cname key))

end Nix.Store
