import NixModel.Store.Step

/-!
# Copies (`H5Group.copy` = HDF5 object copy) over the graph model, between two files

`h5py.Group.copy` duplicates the object and everything reachable from it by hard links — each
object once, links among the copied objects re-targeted to the copies (so an array referenced
by a copied tag is duplicated with it, as a detached object). With `shallow=True` only the
immediate members are copied and member groups are left empty. nixio then renames the root of
the copy and, unless ids are kept, gives every copied object that has an `entity_id` a fresh one.
-/
namespace Nix.Store

/-- nodes reachable from `k` by links, each once, in depth-first link order -/
def reachAux (g : Graph) : Nat → List Nat → List Nat → List Nat
  | 0, _, seen => seen
  | _ + 1, [], seen => seen
  | fuel + 1, k :: todo, seen =>
    if seen.contains k then reachAux g fuel todo seen
    else reachAux g fuel (((g.links k).map (·.2)) ++ todo) (seen ++ [k])

def reachFrom (g : Graph) (k : Nat) : List Nat :=
  reachAux g (g.nodes.length * (g.nodes.length + 1) + (g.nodes.foldl (fun a kn => a + kn.2.links.length) 0) + 2) [k] []

def mapKey (m : List (Nat × Nat)) (k : Nat) : Nat :=
  match m.find? (fun p => p.1 == k) with
  | some p => p.2
  | none => k

/-- duplicate the nodes `ks` of `src` into `dst` (fresh keys); links are re-targeted through the
key map; `emptied` lists nodes copied without their links (shallow copy of member groups) -/
def copyNodes (src dst : Graph) (ks : List Nat) (emptied : List Nat) : Graph × List (Nat × Nat) :=
  let m : List (Nat × Nat) := ks.zipIdx.map fun ki => (ki.1, dst.nextKey + ki.2)
  let newNodes : List (Nat × Node) := ks.map fun k =>
    let n := (src.node? k).getD {}
    let ls := if emptied.contains k then [] else n.links.map fun l => (l.1, mapKey m l.2)
    (mapKey m k, { n with links := ls })
  ({ dst with nodes := dst.nodes ++ newNodes, nextKey := dst.nextKey + ks.length }, m)

/-- fresh ids for every copied node that carries an `entity_id` -/
def regenIds (g : Graph) : List Nat → Graph
  | [] => g
  | k :: ks =>
    match g.entityId k with
    | some _ =>
      let (g1, i) := g.freshId
      regenIds (g1.setAttr k "entity_id" (some i)) ks
    | none => regenIds g ks

/-- `H5Group.copy(source, dest, name, cls, shallow, keep_id)`: `srcKey` is the object found at
`source`; the copy is linked as `name` into the (created if missing) group `cls` of `destOwner` -/
def h5Copy (src dst : Graph) (srcKey destOwner : Nat) (cls name : String) (shallow keepId : Bool) :
    Graph × Nat :=
  let (d0, c) := dst.ensureGroup destOwner cls
  let members := (src.links srcKey).map (·.2)
  let ks := if shallow then (srcKey :: members).eraseDups else reachFrom src srcKey
  let emptied := if shallow then members.filter (· != srcKey) else []
  let (d1, m) := copyNodes src d0 ks emptied
  let root := mapKey m srcKey
  let d2 := d1.addLink c name root
  let d3 := d2.setAttr root "name" (some name)
  let d4 := if keepId then d3 else regenIds d3 (ks.map (mapKey m))
  (d4, root)

/-! ## the callers -/

/-- `File.create_block(copy_from=blk, name, keep_copy_id)` -/
def copyBlock (src dst : Graph) (srcBlock : Nat) (name : String) (keepId : Bool) : Except Err Graph :=
  if kindOf src srcBlock != "block" then .error .typeError
  else
    let name := if name == "" then (src.getAttr srcBlock "name").getD "" else name
    let (d0, dataK) := dst.ensureGroup 0 "data"
    if d0.hasChild dataK name then .error .duplicateName
    else .ok (h5Copy src d0 srcBlock 0 "data" name false keepId).1

/-- `Block.create_data_array / create_tag / create_multi_tag (copy_from=obj, name, keep_copy_id)` -/
def copyIntoBlock (src dst : Graph) (destBlockPath : Path) (what : String) (obj : Nat) (name : String)
    (keepId : Bool) : Except Err Graph :=
  match resolve dst rootLoc destBlockPath with
  | none => .error .keyError
  | some b =>
    if kindOf dst b.key != "block" then .error .attributeError
    else
      let cls? : Option String :=
        match what with
        | "data_array" => some "data_arrays"
        | "tag" => some "tags"
        | "multi_tag" => some "multi_tags"
        | _ => none
      match cls? with
      | none => .error .attributeError
      | some cls =>
        if kindOf src obj != what then .error .typeError
        else
          let name := if name == "" then (src.getAttr obj "name").getD "" else name
          let (d0, c) := dst.ensureGroup b.key cls
          if d0.hasChild c name then .error .duplicateName
          else .ok (h5Copy src d0 obj b.key cls name false keepId).1

/-- properties of a section node, in order (for the re-adding loop of a shallow section copy) -/
def propsOf (g : Graph) (sec : Nat) : List (String × Nat) :=
  match g.child? sec "properties" with
  | some c => g.links c
  | none => []

/-- `Section.create_property(copy_from=prop, name, keep_copy_id)` -/
def copyProperty (src dst : Graph) (destSec : Nat) (prop : Nat) (name : String) (keepId : Bool) :
    Except Err Graph :=
  if kindOf dst destSec != "section" then .error .attributeError
  else if kindOf src prop != "property" then .error .typeError
  else
    let name := if name == "" then (src.getAttr prop "name").getD "" else name
    let (d0, c) := dst.ensureGroup destSec "properties"
    if d0.hasChild c name then .error .duplicateName
    else .ok (h5Copy src d0 prop destSec "properties" name false keepId).1

/-- re-add the properties after a shallow section copy -/
def readdProps (src : Graph) (keepId : Bool) : List (String × Nat) → Graph → Nat → Except Err Graph
  | [], d, _ => .ok d
  | p :: ps, d, sec =>
    match copyProperty src d sec p.2 "" keepId with
    | .error e => .error e
    | .ok d' => readdProps src keepId ps d' sec

/-- `File.copy_section` (`destOwner = none`) / `Section.copy_section` (`destOwner = some path`) -/
def copySection (src dst : Graph) (destOwner : Option Path) (obj : Nat) (children keepId : Bool)
    (name : String) : Except Err Graph :=
  let dest? : Option (Nat × String) :=
    match destOwner with
    | none => some (0, "metadata")
    | some p =>
      match resolve dst rootLoc p with
      | some l => if kindOf dst l.key == "section" then some (l.key, "sections") else none
      | none => none
  match dest? with
  | none => .error .attributeError          -- only File and Section have copy_section
  | some (owner, cls) =>
    if kindOf src obj != "section" then .error .typeError
    else
      let name := if name == "" then (src.getAttr obj "name").getD "" else name
      let (d0, c) := dst.ensureGroup owner cls
      if d0.hasChild c name then .error .duplicateName
      else
        let (d1, root) := h5Copy src d0 obj owner cls name (!children) keepId
        if children then .ok d1
        else readdProps src keepId (propsOf src obj) d1 root

end Nix.Store
