import NixModel.Store.Api

/-!
# `util/find.py` as an interpreted statement list   (property C04)

`harness/extract/delshape.py` renders the bodies of `_find_sections` / `_find_sources` statement by statement
(`FindProg`: the statements before the `while len(fifo) > 0:` loop and the loop body; `if` nests at most twice,
anything else is an `ExtractError`). This file gives the statements a meaning over the HDF5 graph: the local
variables `fifo` (a list of `Cont(elem, level)`), `result`, `level`, `child`; the arguments `with_<sub>` (a node),
`filtr` (a predicate on nodes) and `limit` (`none`: `sys.maxsize`, which no depth reaches).
`Lemmas/C04Find.lean` proves that the generated programs compute the breadth-first collection `bfsKeys` of the
model (filtered by `filtr`), so that the subtree handed to `delete_all` is the one the source collects.
-/
namespace Nix.Store.FindProg
open Nix.Store Nix.Store.Graph

inductive FSimple where
  | initFifo                          -- `fifo = []`
  | initResult                        -- `result = []`
  | setLevel (n : Nat)                -- `level = n`
  | incLevel (n : Nat)                -- `level += n`
  | pushStart                         -- `fifo.append(Cont(with_<sub>, level))`
  | pushKidsOfStart (sub : String)    -- `fifo += [Cont(e, level) for e in with_<sub>.<sub>]`
  | pushKidsOfChild (sub : String)    -- `fifo += [Cont(e, level) for e in child.elem.<sub>]`
  | popFront                          -- `child = fifo.pop(0)`
  | levelFromChild (n : Nat)          -- `level = child.level + n`
  | appendResult                      -- `result.append(child.elem)`
  deriving DecidableEq, Repr, Inhabited

inductive FCond where
  | startIsEntity                     -- `isinstance(with_<sub>, <class searched for>)`
  | levelLeLimit                      -- `level <= limit`
  | filtrChild                        -- `filtr(child.elem)`
  deriving DecidableEq, Repr, Inhabited

/-- statements inside an `if` branch: simple ones and one more level of `if` -/
inductive FInner where
  | simple (s : FSimple)
  | ite (c : FCond) (t e : List FSimple)
  deriving DecidableEq, Repr, Inhabited

inductive FStmt where
  | simple (s : FSimple)
  | ite (c : FCond) (t e : List FInner)
  deriving DecidableEq, Repr, Inhabited

/-- `<prologue>; while len(fifo) > 0: <body>; return result` -/
structure FindProg where
  prologue : List FStmt
  body : List FStmt
  deriving DecidableEq, Repr, Inhabited

structure Env where
  g : Graph
  start : Nat
  /-- is `with_<sub>` an entity of the searched class (a Section / Source) — or a File / Block? -/
  startIsEntity : Bool
  limit : Option Nat
  filtr : Nat → Bool

structure FState where
  fifo : List (Nat × Nat) := []       -- (elem, level)
  result : List Nat := []
  level : Nat := 0
  child : Option (Nat × Nat) := none
  deriving Repr, Inhabited

/-- `entity.<sub>` iterated: the targets of the links of the entity's `<sub>` group, in order -/
def kidsOf (g : Graph) (sub : String) (k : Nat) : List Nat :=
  match g.child? k sub with
  | some c => (g.links c).map (·.2)
  | none => []

/-- `none`: the statement raises (pop from an empty list, `child` not bound) -/
def stepSimple (E : Env) (st : FState) : FSimple → Option FState
  | .initFifo => some { st with fifo := [] }
  | .initResult => some { st with result := [] }
  | .setLevel n => some { st with level := n }
  | .incLevel n => some { st with level := st.level + n }
  | .pushStart => some { st with fifo := st.fifo ++ [(E.start, st.level)] }
  | .pushKidsOfStart sub => some { st with fifo := st.fifo ++ (kidsOf E.g sub E.start).map fun e => (e, st.level) }
  | .pushKidsOfChild sub =>
    match st.child with
    | some c => some { st with fifo := st.fifo ++ (kidsOf E.g sub c.1).map fun e => (e, st.level) }
    | none => none
  | .popFront =>
    match st.fifo with
    | c :: rest => some { st with fifo := rest, child := some c }
    | [] => none
  | .levelFromChild n =>
    match st.child with
    | some c => some { st with level := c.2 + n }
    | none => none
  | .appendResult =>
    match st.child with
    | some c => some { st with result := st.result ++ [c.1] }
    | none => none

def evalCond (E : Env) (st : FState) : FCond → Option Bool
  | .startIsEntity => some E.startIsEntity
  | .levelLeLimit => some (match E.limit with | none => true | some n => decide (st.level ≤ n))
  | .filtrChild => st.child.map fun c => E.filtr c.1

def runSimples (E : Env) : List FSimple → FState → Option FState
  | [], st => some st
  | s :: rest, st => (stepSimple E st s).bind (runSimples E rest)

def stepInner (E : Env) (st : FState) : FInner → Option FState
  | .simple s => stepSimple E st s
  | .ite c t e => (evalCond E st c).bind fun b => runSimples E (if b then t else e) st

def runInners (E : Env) : List FInner → FState → Option FState
  | [], st => some st
  | s :: rest, st => (stepInner E st s).bind (runInners E rest)

def stepStmt (E : Env) (st : FState) : FStmt → Option FState
  | .simple s => stepSimple E st s
  | .ite c t e => (evalCond E st c).bind fun b => runInners E (if b then t else e) st

def runStmts (E : Env) : List FStmt → FState → Option FState
  | [], st => some st
  | s :: rest, st => (stepStmt E st s).bind (runStmts E rest)

/-- `while len(fifo) > 0: <body>` — at most `fuel` rounds (the traversal of the model is fuel-based too) -/
def loop (E : Env) (body : List FStmt) : Nat → FState → Option FState
  | 0, st => some st
  | n + 1, st =>
    if st.fifo.isEmpty then some st
    else (runStmts E body st).bind (loop E body n)

/-- the value `_find_<sub>(with_<sub>, filtr, limit)` returns -/
def runFind (P : FindProg) (E : Env) (fuel : Nat) : Option (List Nat) :=
  ((runStmts E P.prologue {}).bind (loop E P.body fuel)).map (·.result)

end Nix.Store.FindProg
