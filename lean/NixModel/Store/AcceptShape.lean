import NixModel.Store.Step

/-!
# `LinkContainer._accept` / `SourceLinkContainer._accept` / `append` / `extend`, statement by statement  (C05)

`harness/extract/linkshape.py` renders the bodies of the two `_accept` methods as lists of `AStmt`
(`Generated/LinkShape.lean`): every statement of the source must be one of the five below, in particular there is
no statement that RETURNS the item before the membership test (a "fast path" for handles that merely look like the
block's own: kept across a deletion, taken out of a copied tag …).  `execAccept` runs such a list on the graph;
`Props/C05.lean` proves that the generated lists, run on any graph, container and key, decide exactly as the shared
model `contAppend` does (`shape_accept_*`).

`contExtend` models `LinkContainer.extend`: every item goes through `_accept` in the graph AS IT IS BEFORE the call,
and only when all were accepted the links are written, in order.
-/
namespace Nix.Store
open Graph

/-- the statements an `_accept` body may consist of -/
inductive AStmt where
  /-- `if util.is_uuid(item): item = self._inst_item(self._backend.get_by_id(item))` -/
  | resolveId
  /-- `if not hasattr(item, "id"): raise TypeError(...)` -/
  | requireEntity
  /-- `if item not in self._itemstore: raise RuntimeError(...)` (`Container.__contains__`: TypeError for an entity
  of another class, else: the object stored under the item's name is this very object) -/
  | requireMember
  /-- `mine = <the item's HDF5 object>`; `if not block.find_sources(filtr = same id and same object): raise RuntimeError` -/
  | requireInSourceTree
  /-- `return item` -/
  | returnItem
  deriving DecidableEq, Repr, Inhabited

/-- run an `_accept` body: the item is what the caller handed in (a str, a number, an entity object) until
`resolveId` replaces an id text by the list's own entry of that id -/
def execAccept (g : Graph) (c : Cont) : List AStmt → Key → Except Err Nat
  | [], _ => .error .attributeError       -- falls off the end: `None`, and `append` fails on `None.id`
  | .resolveId :: rest, item =>
    match item with
    | .str x =>
      if isUuid x then
        match getById g c.node x with
        | some l => execAccept g c rest (.ent l.2)
        | none => .error .keyError
      else execAccept g c rest item
    | _ => execAccept g c rest item
  | .requireEntity :: rest, item =>
    match item with
    | .ent k => if (g.entityId k).isSome then execAccept g c rest item else .error .typeError
    | _ => .error .typeError
  | .requireMember :: rest, item =>
    match item with
    | .ent k =>
      match c.block with
      | some b =>
        if kindOf g k != c.info.item then .error .typeError
        else if inBlockStore g b c.info.store k then execAccept g c rest item else .error .runtimeError
      | none => .error .runtimeError      -- (a link list outside any block: does not occur)
    | _ => .error .typeError
  | .requireInSourceTree :: rest, item =>
    match item with
    | .ent k =>
      match g.entityId k, c.block with
      | some id, some b =>
        if inSourceTree g b id && inSourceTreeObj g b k then execAccept g c rest item else .error .runtimeError
      | some _, none => .error .runtimeError
      | none, _ => .error .typeError
    | _ => .error .typeError
  | .returnItem :: _, item =>
    match item with
    | .ent k => .ok k
    | _ => .error .typeError

/-- `self._backend.create_link(item, item.id)` on what `_accept` returned -/
def linkAccepted (g : Graph) (c : Cont) (k : Nat) : Except Err Graph :=
  match g.entityId k with
  | none => .error .typeError
  | some id =>
    let (g1, cn) := g.ensureGroup c.owner.key c.cname
    .ok (createLinkIn g1 cn id k)

/-- `LinkContainer.append`: `item = self._accept(item)`, `self._backend.create_link(item, item.id)` -/
def appendVia (g : Graph) (c : Cont) (accepted : Except Err Nat) : Except Err Graph :=
  match accepted with
  | .error e => .error e
  | .ok k => linkAccepted g c k

/-- the `_accept` of a link list, as the hand model has it -/
def acceptBodyOf (c : Cont) : List AStmt :=
  match c.info.flavour with
  | .sourceLink => [.resolveId, .requireEntity, .requireInSourceTree, .returnItem]
  | _ => [.resolveId, .requireEntity, .requireMember, .returnItem]

/-- all items through `_accept`, in the unchanged graph; the first refusal is the call's -/
def acceptAll (g : Graph) (c : Cont) : List Key → Except Err (List Nat)
  | [] => .ok []
  | key :: rest =>
    match execAccept g c (acceptBodyOf c) key with
    | .error e => .error e
    | .ok k =>
      match acceptAll g c rest with
      | .error e => .error e
      | .ok ks => .ok (k :: ks)

/-- the links of the accepted items, one after the other -/
def linkAll (g : Graph) (c : Cont) : List Nat → Except Err Graph
  | [] => .ok g
  | k :: ks =>
    match linkAccepted g c k with
    | .error e => .error e
    | .ok g1 => linkAll g1 c ks

/-- `LinkContainer.extend(items)`: `accepted = [self._accept(item) for item in items]`, then the links -/
def contExtend (g : Graph) (c : Cont) (keys : List Key) : Except Err Graph :=
  match c.info.flavour with
  | .link | .sourceLink =>
    match acceptAll g c keys with
    | .error e => .error e
    | .ok ks => linkAll g c ks
  | _ => .error .attributeError

/-- the statements `LinkContainer.extend` may consist of -/
inductive EStmt where
  /-- `if not isinstance(items, Iterable): raise TypeError(...)` (the model's `items` is a list) -/
  | requireIterable
  /-- `accepted = [self._accept(item) for item in items]` -/
  | acceptEvery
  /-- `for item in accepted: self._backend.create_link(item, item.id)` -/
  | linkEvery
  deriving DecidableEq, Repr, Inhabited

/-- run an `extend` body; `accepted` is the local variable of that name (unbound until `acceptEvery` ran: linking
before accepting is a NameError) -/
def execExtend (c : Cont) (keys : List Key) : List EStmt → Graph → Option (List Nat) → Except Err Graph
  | [], g, _ => .ok g
  | .requireIterable :: rest, g, acc => execExtend c keys rest g acc
  | .acceptEvery :: rest, g, _ =>
    match acceptAll g c keys with
    | .error e => .error e
    | .ok ks => execExtend c keys rest g (some ks)
  | .linkEvery :: rest, g, acc =>
    match acc with
    | none => .error .attributeError
    | some ks =>
      match linkAll g c ks with
      | .error e => .error e
      | .ok g1 => execExtend c keys rest g1 acc

/-! ## the `MultiTag.positions` / `MultiTag.extents` setters, statement by statement -/

inductive RStmt where
  /-- `if da is None: raise TypeError(...)` -/
  | refuseNone
  /-- `if not isinstance(da, DataArray): raise TypeError(...)` -/
  | requireArray
  /-- `if da not in self._parent.<store>: raise RuntimeError(...)` -/
  | requireMember (store : String)
  /-- `if "<role>" in self._h5group: del self._h5group["<role>"]` -/
  | dropOld (role : String)
  /-- `self._h5group.create_link(da, "<role>")` -/
  | link (role : String)
  /-- `if self.file.auto_update_timestamps: self.force_updated_at()` (C19's statement; no link is touched) -/
  | stamp
  deriving DecidableEq, Repr, Inhabited

/-- run a setter body on the multi-tag node `o` of block `b` with the assigned value (`none` = Python's None) -/
def execRole (o b : Nat) : List RStmt → Graph → Option Nat → Except Err Graph
  | [], g, _ => .ok g
  | .refuseNone :: rest, g, t =>
    match t with
    | none => .error .typeError
    | some _ => execRole o b rest g t
  | .requireArray :: rest, g, t =>
    match t with
    | some k => if isKind g k "data_array" then execRole o b rest g t else .error .typeError
    | none => .error .typeError
  | .requireMember store :: rest, g, t =>
    match t with
    | some k => if inBlockStore g b store k then execRole o b rest g t else .error .runtimeError
    | none => .error .typeError
  | .dropOld role :: rest, g, t =>
    execRole o b rest (if g.hasChild o role then g.delLink o role else g) t
  | .link role :: rest, g, t =>
    match t with
    | some k => execRole o b rest (createLinkIn g o role k) t
    | none => .error .typeError
  | .stamp :: rest, g, t => execRole o b rest g t

/-- `if da is None: <noneBody> else: <setBody>`, then `<tail>` (the shape of the `extents` setter) -/
def execRoleIfNone (o b : Nat) (noneBody setBody tail : List RStmt) (g : Graph) (t : Option Nat) : Except Err Graph :=
  match t with
  | none => execRole o b (noneBody ++ tail) g t
  | some _ => execRole o b (setBody ++ tail) g t

/-! ## the `Feature.data` setter, statement by statement -/

inductive FStmt where
  /-- `if dataobj is None: raise TypeError(...)` -/
  | refuseNone
  /-- `parblock = self._parent._parent` -/
  | bindBlock
  /-- `if isinstance(dataobj, DataArray): <a> elif isinstance(dataobj, DataFrame): <f> else: raise TypeError(...)` -/
  | classChain (arrayBranch frameBranch : List FStmt)
  /-- `if dataobj not in parblock.<store>: raise RuntimeError(...)` -/
  | requireMember (store : String)
  /-- `if self.link_type == LinkType.Tagged: raise UnsupportedLinkType(...)` -/
  | refuseTagged
  /-- `objtype = "<text>"` -/
  | setObjType (text : String)
  /-- `self._h5group.set_attr("target_type", objtype)` -/
  | writeTargetType
  /-- `if "data" in self._h5group: del self._h5group["data"]` -/
  | dropOld
  /-- `self._h5group.create_link(dataobj, "data")` -/
  | link
  /-- the time stamp (C19's statement) -/
  | stamp
  deriving Repr, Inhabited

/-- run a `Feature.data` setter body on the feature node `o` of block `b`; `objtype` is the local variable of that
name (writing `target_type` before it is bound is a NameError) -/
def execFeat (o b : Nat) (t : Option Nat) : Nat → List FStmt → Graph → Option String → Except Err (Graph × Option String)
  | 0, _, _, _ => .error .runtimeError
  | _ + 1, [], g, ot => .ok (g, ot)
  | fuel + 1, st :: rest, g, ot =>
    match st, t with
    | .refuseNone, none => .error .typeError
    | .refuseNone, some _ => execFeat o b t fuel rest g ot
    | .bindBlock, _ => execFeat o b t fuel rest g ot
    | .classChain ab fb, some k =>
      if isKind g k "data_array" then
        match execFeat o b t fuel ab g ot with
        | .error e => .error e
        | .ok (g1, ot1) => execFeat o b t fuel rest g1 ot1
      else if isKind g k "data_frame" then
        match execFeat o b t fuel fb g ot with
        | .error e => .error e
        | .ok (g1, ot1) => execFeat o b t fuel rest g1 ot1
      else .error .typeError
    | .classChain _ _, none => .error .typeError
    | .requireMember store, some k =>
      if inBlockStore g b store k then execFeat o b t fuel rest g ot else .error .runtimeError
    | .requireMember _, none => .error .typeError
    | .refuseTagged, _ =>
      if g.getAttr o "link_type" == some "tagged" then .error .valueError else execFeat o b t fuel rest g ot
    | .setObjType text, _ => execFeat o b t fuel rest g (some text)
    | .writeTargetType, _ =>
      match ot with
      | some text => execFeat o b t fuel rest (g.setAttr o "target_type" (some text)) ot
      | none => .error .attributeError
    | .dropOld, _ => execFeat o b t fuel rest (if g.hasChild o "data" then g.delLink o "data" else g) ot
    | .link, some k => execFeat o b t fuel rest (createLinkIn g o "data" k) ot
    | .link, none => .error .typeError
    | .stamp, _ => execFeat o b t fuel rest g ot

/-! ## `H5Group.create_link`, statement by statement: a link is a second NAME of the target object, never a copy -/

inductive CStmt where
  /-- `self._create_h5obj()` (the group comes into being if it was only named so far) -/
  | ensureObject
  /-- `h5target = target._h5group.group`: the target's own HDF5 object -/
  | bindTarget
  /-- `if h5target.file != self.group.file: raise ValueError(...)` (one file in the model) -/
  | refuseOtherFile
  /-- `if name in self.group: del self.group[name]` -/
  | dropExisting
  /-- `self.group[name] = h5target`: HDF5 hard link to the object itself -/
  | hardLink
  deriving DecidableEq, Repr, Inhabited

def execCreateLink (grp : Nat) (name : String) (t : Nat) : List CStmt → Graph → Graph
  | [], g => g
  | .dropExisting :: rest, g => execCreateLink grp name t rest (if g.hasChild grp name then g.delLink grp name else g)
  | .hardLink :: rest, g => execCreateLink grp name t rest (g.addLink grp name t)
  | _ :: rest, g => execCreateLink grp name t rest g

/-! ## kept handles

An entity handle (`H5Group`) is a parent group OBJECT, a link name in it, and the HDF5 object it opened.  Its
`group` property answers with the opened object as long as that still has its name in the file; once the link it was
opened through has been removed (`h5py` then reports no name for the object), the handle looks its name up in the
parent again: when the name exists there (another entity was created under it, the entry was appended again) the
handle henceforth stands for THAT object, otherwise it keeps the object it opened — which HDF5 keeps alive although
no group links it any more. -/

structure Handle where
  parent : Nat
  lname : String
  key : Nat
  deriving DecidableEq, Repr, Inhabited

/-- the node a kept handle stands for in the graph `g` -/
def Handle.node (g : Graph) (h : Handle) : Nat :=
  match g.child? h.parent h.lname with
  | some k => k
  | none => h.key

/-- the handle of the entity at a resolved location -/
def Handle.ofLoc (l : Loc) : Handle := { parent := l.parent, lname := l.lname, key := l.key }

/-! ## histories in which kept handles are offered

`HOp` extends the path-addressed operations of `Store/Step.lean` by the calls a program makes with a handle it kept:
`list.append(handle)`, `list.extend([…])` with handles and path-addressed items mixed, `multi_tag.positions = handle`
(`extents`, `feature.data`), `tag.create_feature(handle, …)`.  The handle is resolved (`Handle.node`) in the graph
the call meets. -/

inductive ItemArg where
  | key (k : KeyArg)
  | handle (h : Handle)
  deriving Repr, Inhabited

def resolveItem (g : Graph) : ItemArg → Option Key
  | .key k => resolveKeyArg g k
  | .handle h => some (.ent (h.node g))

inductive HOp where
  | op (o : Op)
  | appendH (owner : Path) (cname : String) (h : Handle)
  | extend (owner : Path) (cname : String) (items : List ItemArg)
  /-- `positions`, `extents` (of a multi-tag) or `data` (of a feature) -/
  | setRoleH (owner : Path) (role : String) (h : Handle)
  | createFeatureH (owner : Path) (h : Handle) (linkType : String)
  deriving Repr, Inhabited

def isLinkRole (role : String) : Bool := role == "positions" || role == "extents" || role == "data"

def applyH (g : Graph) : HOp → Option (Except Err Graph)
  | .op o => apply g o
  | .appendH o c h => (openCont g o c).map fun cont => contAppend g cont (.ent (h.node g))
  | .extend o c items =>
    match openCont g o c, items.mapM (resolveItem g) with
    | some cont, some keys => some (contExtend g cont keys)
    | _, _ => none
  | .setRoleH o r h => if isLinkRole r then some (setRole g o r (some (h.node g))) else none
  | .createFeatureH o h lt => some (createFeature g o (some (h.node g)) lt)

def stepH (g : Graph) (op : HOp) : Graph :=
  match applyH g op with
  | some (.ok g') => g'
  | _ => g

def runH (g : Graph) (ops : List HOp) : Graph := ops.foldl stepH g

end Nix.Store
