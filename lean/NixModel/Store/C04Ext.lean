import NixModel.Store.Step

/-!
# C04 — two more creation paths over the HDF5 graph: data frames and dimension links

`Store/Api.lean` (shared) has no `create_data_frame` and no dimension descriptors; both matter for
deletion (a data frame is linked from `Group.data_frames` and feature `data`; a range dimension
*links* the array / frame that provides its ticks by one more hard link, named by the target's id,
from the `link` group of the descriptor). They are modelled here, and `Op4` extends the operation
language of `Store/Step.lean` by them.
-/
namespace Nix.Store

/-- `Block.create_data_frame(name, type_, col_dict=…)`: name / type check, duplicate check in the
lazily opened `data_frames` group, `create_new`, the `data` dataset -/
def createFrame (g : Graph) (ownerPath : Path) (name type : String) : Except Err Graph :=
  match resolve g rootLoc ownerPath with
  | none => .error .keyError
  | some o =>
    if kindOf g o.key != "block" then .error .attributeError
    else
      match checkNameType name type with
      | .error e => .error e
      | .ok () =>
        if (match g.child? o.key "data_frames" with | some c => g.hasChild c name | none => false) then
          .error .duplicateName
        else
          match entityCreateNew g o.key "data_frames" name type "data_frame" with
          | .error e => .error e
          | .ok (g1, k) => .ok (addDataset g1 k "data")

/-- `rd = array.append_range_dimension(); rd.link_data_array(target, [-1])` (or
`rd.link_data_frame(target, 0)`): a new descriptor group `dimensions/<n+1>`, in it the group `link`
(`DimensionLink.create_new`: `open_group("link", True)`, a fresh `entity_id`, then
`create_link(dataobj, dataobj.id)`) -/
def dimLink (g : Graph) (arrPath targetPath : Path) : Except Err Graph :=
  match resolve g rootLoc arrPath, resolve g rootLoc targetPath with
  | some a, some t =>
    if kindOf g a.key != "data_array" then .error .attributeError
    else if !(isKind g t.key "data_array" || isKind g t.key "data_frame") then .error .attributeError
    else
      match g.entityId t.key with
      | none => .error .typeError
      | some tid =>
        let (g1, dims) := g.ensureGroup a.key "dimensions"
        let idx := (g1.links dims).length + 1
        let (g2, d) := g1.ensureGroup dims (toString idx)
        let (g3, lk) := g2.ensureGroup d "link"
        let (g4, i) := g3.freshId
        let g5 := g4.setAttr lk "entity_id" (some i)
        .ok (createLinkIn g5 lk tid t.key)
  | _, _ => .error .keyError

/-- the operation language of `Store/Step.lean` plus the two calls above -/
inductive Op4 where
  | base (op : Op)
  | createFrame (owner : Path) (name type : String)
  | dimLink (arr target : Path)
  deriving Repr, Inhabited

def step4 (g : Graph) : Op4 → Graph
  | .base op => step g op
  | .createFrame o n t => match createFrame g o n t with | .ok g' => g' | .error _ => g
  | .dimLink a t => match dimLink g a t with | .ok g' => g' | .error _ => g

def run4 (g : Graph) (ops : List Op4) : Graph := ops.foldl step4 g

/-- the group a range dimension's link lives in: `array/dimensions/<n>/link` -/
def dimLinkGroup (g : Graph) (arr : Nat) (n : Nat) : Option Nat :=
  ((g.child? arr "dimensions").bind fun ds => g.child? ds (toString n)).bind fun d => g.child? d "link"

end Nix.Store
