import NixModel.Pure.DataView
import NixModel.Lemmas.C06Slice
import NixModel.Lemmas.C06View
import NixModel.Lemmas.C06Array
import NixModel.Lemmas.C06Gen
import NixModel.Lemmas.C06Data

/-!
# C06 — index expressions on arrays and views mean what they mean in NumPy

Property theorems only; helper lemmas live in `Lemmas/C06Slice.lean` and `Lemmas/C06View.lean`.
The statements are about the model `Pure/DataView.lean` (+ `Py/Slice.lean`, `Pure/NdIndex.lean`)
of the code as repaired by the three `fix:` commits for C06 (negative window start/extent ⇒
invalid view; surplus indices ⇒ `IndexError`; `view[0] = x` addresses element 0).

Vocabulary (definitions in `Lemmas/C06View.lean`):
* `WindowsIn ws shape` — as many windows as dimensions and `0 ≤ start ≤ stop ≤ extent` on each;
* `ViewOK v`          — `v.valid` and `WindowsIn v.window v.parent`;
* `PosSteps ix`       — every slice in the tuple has step `None` or ≥ 1 (the property's tuples);
* `npSelect shape ix` — NumPy basic indexing (`Pure/NdIndex.lean`), the specification;
* `shiftSel offs sel` — the selection translated by the window starts;
* `v.extents`, `v.offsets` — the view's shape and window starts.
All theorems hold for every rank, every extent and every tuple length (induction over the tuple).
-/
namespace Nix.C06
open Nix.Py Nix.NdIndex Nix.DataView

/-- `slice.indices(len)` for a positive step yields bounds inside `[0, len]`, is idempotent,
and everything the slice selects is an index of the sequence -/
theorem C06_slice_indices (s : PySlice) (len : Nat) (h : s.PosStep) :
    ∃ a b k, s.indices len = .ok (a, b, k) ∧ k ≥ 1 ∧ 0 ≤ a ∧ a ≤ len ∧ 0 ≤ b ∧ b ≤ len ∧
      (PySlice.mk (some a) (some b) (some k)).indices len = .ok (a, b, k) ∧
      ∀ x ∈ pyRange a b k, 0 ≤ x ∧ x < (len : Int) := by
  obtain ⟨a, b, k, hi, hk, ha0, ha, hb0, hb⟩ := indices_pos s len h
  refine ⟨a, b, k, hi, hk, ha0, ha, hb0, hb, indices_idem s len h a b k hi, ?_⟩
  intro x hx
  have := mem_pyRange_pos a b k hk x hx
  omega

/-- **Window validity (full strength).** A view requested with integer windows is valid exactly
when there are as many windows as dimensions and every window satisfies
`0 ≤ start ≤ stop ≤ extent`; then the stored window is the requested one.  A request that is
`None` or contains a `None` entry is invalid.  An invalid view reads empty for every index
expression and refuses every assignment. -/
theorem C06_window (shape : List Nat) (ws : List Win) :
    ((mkView shape (some (ws.map some))).valid = true ↔ WindowsIn ws shape) ∧
    (WindowsIn ws shape → mkView shape (some (ws.map some)) = ⟨shape, true, ws⟩) ∧
    (mkView shape none).valid = false ∧
    (∀ sl, none ∈ sl → (mkView shape (some sl)).valid = false) ∧
    (∀ v : View, v.valid = false → ∀ ix, viewRead v ix = .ok .empty ∧
      viewWrite v ix = .error .invalidSlice) := by
  refine ⟨mkView_valid_iff shape ws, mkView_ok shape ws, rfl, ?_, ?_⟩
  · intro sl h
    simp [mkView, allSome_none_mem sl h]
  · intro v hv ix
    simp [viewRead, viewWrite, hv]

/-- `get_slice(positions, extents)` in index mode with matching ranks is `DataView` on the
windows `[p, p + e)`; hence valid iff `0 ≤ p`, `0 ≤ e`, `p + e ≤ extent` on every axis -/
theorem C06_get_slice (shape : List Nat) (pos ext : List Int) (hp : pos.length = shape.length)
    (he : ext.length = shape.length) :
    getSlice shape pos (some ext) = .ok (mkView shape (some ((zipWindows pos ext).map some))) ∧
    ((mkView shape (some ((zipWindows pos ext).map some))).valid = true ↔
      WindowsIn (zipWindows pos ext) shape) := by
  refine ⟨?_, mkView_valid_iff shape _⟩
  unfold getSlice
  simp [hp, he]

/-- a valid view read without an index (`view._read_data()`, `np.array(view)`) is the window of
the parent, `parent[start:stop]` on every axis — which is also what NumPy selects -/
theorem C06_window_read (v : View) (hv : ViewOK v) :
    viewRead v none = .ok (.sel (windowSel v.window)) ∧
    npSelect v.parent (windowIx v.window) = .ok (windowSel v.window) ∧
    viewWrite v none = .ok (windowSel v.window) := by
  obtain ⟨hval, hw⟩ := hv
  have hs := window_scan v.parent.length false (windowIx v.window).length v.window v.parent hw
  have hl := windowsIn_length v.window v.parent hw
  have hne := windowIx_noEllipsis v.window
  have hlen : (windowIx v.window).length = v.parent.length := by simp [windowIx, hl]
  refine ⟨?_, ?_, ?_⟩
  · simp [viewRead, hval, daRead, h5Select, hs.1]
  · have := expandIx_noEllipsis (windowIx v.window) hne
    rw [hlen] at this
    simp [npSelect, this, hs.2]
  · simp [viewWrite, hval, daWrite, h5Select, hs.1]

/-- **Transformation (core theorem).** For a valid view and any index tuple of integers,
positive-step slices (any start/stop, `None` included, beyond the extent on both sides) and
ellipses: if NumPy, applied to an array of the view's shape, selects `sel`, then the
transformed tuple exists and selects in the parent — by NumPy's rules and by h5py's — exactly
`sel` shifted by the window starts. -/
theorem C06_transform (v : View) (hv : ViewOK v) (ix : List Ix) (hp : PosSteps ix)
    (sel : List AxisSel) (h : npSelect v.extents ix = .ok sel) :
    ∃ tix, transform v ix = .ok tix ∧
      npSelect v.parent tix = .ok (shiftSel v.offsets sel) ∧
      h5Select v.parent tix = .ok (shiftSel v.offsets sel) := by
  obtain ⟨_, hw⟩ := hv
  unfold npSelect at h
  have hrank : v.extents.length = v.window.length := by simp [View.extents]
  rw [hrank] at h
  split at h
  · cases h
  · rename_i full hfull
    obtain ⟨hl, hne, hps⟩ := expandIx_ok _ _ _ hfull
    have hwl := windowsIn_length v.window v.parent hw
    obtain ⟨t1, _⟩ := tuple_transform v.parent.length false v.parent.length v.window v.parent hw full
      hl hne (hps hp)
    obtain ⟨tix, ht, htl, htne, _, hsel, hscan⟩ := t1 sel h
    refine ⟨tix, ?_, ?_, ?_⟩
    · simp [transform, expandUser_eq, hfull, ht]
    · have := expandIx_noEllipsis tix htne
      rw [htl] at this
      simp only [npSelect, this]
      exact hsel
    · simp only [h5Select, htl]
      exact hscan

/-- … and if NumPy refuses the tuple on the view's shape (integer outside the view, surplus
indices, second ellipsis) the transformation refuses it with `OutOfBounds` or `IndexError`:
nothing is read from or written to the parent. -/
theorem C06_transform_refuses (v : View) (hv : ViewOK v) (ix : List Ix) (hp : PosSteps ix)
    (e : Err) (h : npSelect v.extents ix = .error e) :
    e = .indexError ∧
      (transform v ix = .error .outOfBounds ∨ transform v ix = .error .indexError) := by
  obtain ⟨_, hw⟩ := hv
  unfold npSelect at h
  have hrank : v.extents.length = v.window.length := by simp [View.extents]
  rw [hrank] at h
  split at h
  · rename_i e1 he1
    injection h with h
    subst h
    have := expandIx_err _ _ _ he1
    subst this
    exact ⟨rfl, Or.inr (by simp [transform, expandUser_eq, he1])⟩
  · rename_i full hfull
    obtain ⟨hl, hne, hps⟩ := expandIx_ok _ _ _ hfull
    obtain ⟨_, t2⟩ := tuple_transform v.parent.length false v.parent.length v.window v.parent hw full
      hl hne (hps hp)
    obtain ⟨h1, h2⟩ := t2 e h
    exact ⟨h1, Or.inl (by simp [transform, expandUser_eq, hfull, h2])⟩

/-- **Reading through a view = NumPy on the window.** `view[ix]` returns the parent elements
at `window start + (NumPy's selection on the view's shape)`, in NumPy's order and shape (a rank-0
result as a one-element array), and is refused with `OutOfBounds`/`IndexError` iff NumPy refuses. -/
theorem C06_view_read (v : View) (hv : ViewOK v) (ix : List Ix) (hp : PosSteps ix) :
    match npSelect v.extents ix with
    | .ok sel =>
      viewRead v (some ix) = .ok (.sel (shiftSel v.offsets sel)) ∧
      selIndices (shiftSel v.offsets sel) = (selIndices sel).map (addOffs v.offsets) ∧
      resultShape (shiftSel v.offsets sel) = resultShape sel
    | .error _ =>
      viewRead v (some ix) = .error .outOfBounds ∨ viewRead v (some ix) = .error .indexError := by
  split
  · rename_i sel hsel
    obtain ⟨tix, ht, _, hh⟩ := C06_transform v hv ix hp sel hsel
    have hbox := shift_facts v hv ix hp sel hsel
    refine ⟨?_, hbox.1, hbox.2.1⟩
    simp [viewRead, hv.1, ht, daRead, hh]
  · rename_i e he
    obtain ⟨_, h⟩ := C06_transform_refuses v hv ix hp e he
    rcases h with h | h
    · exact Or.inl (by simp [viewRead, hv.1, h])
    · exact Or.inr (by simp [viewRead, hv.1, h])

/-- **Assignment through a view addresses exactly NumPy's elements.** `view[ix] = data`
addresses, in the parent, exactly the elements `window start + m` for `m` in NumPy's selection
on the view's shape (in that order, so the k-th datum lands on the k-th of them); every one of
them lies inside the window; no other element of the parent is touched (frame property of
`assign`, for any content and data); and when NumPy refuses the tuple nothing is written. -/
theorem C06_write_exact (v : View) (hv : ViewOK v) (ix : List Ix) (hp : PosSteps ix) :
    match npSelect v.extents ix with
    | .ok sel =>
      viewWrite v (some ix) = .ok (shiftSel v.offsets sel) ∧
      selIndices (shiftSel v.offsets sel) = (selIndices sel).map (addOffs v.offsets) ∧
      (∀ m ∈ selIndices sel, InBox m v.extents) ∧
      (∀ {α : Type} (content : List Int → α) (data : List α) (m : List Int),
        m ∉ selIndices (shiftSel v.offsets sel) →
          assign content (selIndices (shiftSel v.offsets sel)) data m = content m)
    | .error _ =>
      viewWrite v (some ix) = .error .outOfBounds ∨ viewWrite v (some ix) = .error .indexError := by
  split
  · rename_i sel hsel
    obtain ⟨tix, ht, _, hh⟩ := C06_transform v hv ix hp sel hsel
    have hbox := shift_facts v hv ix hp sel hsel
    refine ⟨?_, hbox.1, hbox.2.2, ?_⟩
    · simp [viewWrite, hv.1, ht, daWrite, hh]
    · intro α content data m hm
      exact assign_frame content _ data m hm
  · rename_i e he
    obtain ⟨_, h⟩ := C06_transform_refuses v hv ix hp e he
    rcases h with h | h
    · exact Or.inl (by simp [viewWrite, hv.1, h])
    · exact Or.inr (by simp [viewWrite, hv.1, h])

/-- **Indexing a DataArray = NumPy** (on the h5py stand-in `h5Select`): for every shape and every
tuple of integers, positive-step slices and ellipses, `array[ix]` / `array[ix] = data` address
exactly NumPy's selection (a rank-0 read comes back with `resultShape = [1]`); whenever NumPy
refuses the tuple (integer out of range, surplus indices, second ellipsis) the read is refused
with `IndexError` and the assignment is refused. -/
theorem C06_array (shape : List Nat) (ix : List Ix) (hp : PosSteps ix) :
    match npSelect shape ix with
    | .ok sel => daRead shape ix = .ok sel ∧ daWrite shape ix = .ok sel
    | .error _ => daRead shape ix = .error .indexError ∧ ∃ e, daWrite shape ix = .error e := by
  by_cases hw : countEllipsis ix ≤ 1 ∧ countAxes ix ≤ shape.length
  · have heq := h5Select_eq_npSelect shape ix hp hw.1 hw.2
    split
    · rename_i sel hsel
      rw [← heq] at hsel
      simp [daRead, daWrite, hsel]
    · rename_i e he
      rw [← heq] at he
      have hc := h5Scan_err_class _ _ _ _ _ _ he
      exact ⟨by simp [daRead, he, hc], e, by simp [daWrite, he]⟩
  · have hbad : countEllipsis ix > 1 ∨ countAxes ix > shape.length := by omega
    obtain ⟨e, he⟩ := h5Select_refuses shape ix hbad
    have hc := h5Scan_err_class _ _ _ _ _ _ he
    have hnp : npSelect shape ix = .error .indexError := by
      unfold npSelect expandIx
      rcases hbad with h | h
      · simp [h]
      · by_cases h' : countEllipsis ix > 1 <;> simp [h, h']
    rw [hnp]
    exact ⟨by simp [daRead, he, hc], e, by simp [daWrite, he]⟩


/-! ## The model is the source

`Generated/ViewShape.lean` is compiled from the Python AST of `nixio/data_view.py` and
`nixio/data_array.py` on every run (`harness/extract/viewshape.py`): every test, arithmetic
expression and `raise` of the functions below becomes a Lean term.  The theorems state that
this generated code — put together by the control-flow interpreters of `Pure/ViewGen.lean` — is
the hand-written model all theorems above are about, for **all** inputs.  An edit of the source
(a comparison, a sign, `if sl:` for `if sl is not None:`, a reordered or dropped test, another
exception class, another callee) changes a generated definition and breaks the named theorem. -/

open Nix.ViewGen Nix.Generated.ViewShape

/-- `DataView.__init__` as written in the source = `mkView` -/
theorem C06_source_init (shape : List Nat) (slices : Option (List (Option Win))) :
    mkViewG initSteps initNorm shape slices = mkView shape slices :=
  mkViewG_eq shape slices

/-- `DataView._expand_user_slices` as written in the source = `expandUser` = NumPy's expansion -/
theorem C06_source_expand (ix : List Ix) (rank : Nat) :
    expandUserSlices ix (rank : Int) = expandUser rank ix ∧
      expandUserSlices ix (rank : Int) = expandIx rank ix :=
  ⟨expand_eq ix rank, (expand_eq ix rank).trans (expandUser_eq rank ix)⟩

/-- `DataView._transform_coordinates` as written in the source (integer branch, slice branch with
the local `transform_slice`, the `else`, the statements around the loop) = `transform` -/
theorem C06_source_transform (v : View) (ix : List Ix) :
    transformG expandUserSlices (transformAxisG transformInt transformSlice transformOther) v ix =
      transform v ix ∧
    (∀ dv i, transformAxisG transformInt transformSlice transformOther dv i = transformAxis dv i) ∧
    transformFrame = ["dvslices = self._slices",
      "user_slices = self._expand_user_slices(user_slices)", "tslices = list()",
      "for uslice, dvslice in zip(user_slices, dvslices)", "tslices.append(tslice)",
      "return tuple(tslices)"] :=
  ⟨transform_eq v ix, transformAxis_eq, by decide⟩

/-- `DataView._read_data` / `_write_data` as written in the source (what an invalid view does,
the test on `sl`, the callees) = `viewRead` / `viewWrite`; the argument is the object handed to
`__getitem__`, a bare component or a tuple -/
theorem C06_source_read_write (v : View) (sl : Option IxArg) :
    viewReadG readInvalid readTest
      (transformG expandUserSlices (transformAxisG transformInt transformSlice transformOther)) v sl =
      viewRead v (sl.map IxArg.toList) ∧
    viewWriteG writeInvalid writeTest
      (transformG expandUserSlices (transformAxisG transformInt transformSlice transformOther)) v sl =
      viewWrite v (sl.map IxArg.toList) ∧
    readCallee = "self.array._read_data" ∧ writeCallee = "super(DataView, self)._write_data" :=
  ⟨viewRead_eq v sl, viewWrite_eq v sl, by decide, by decide⟩

/-- the single-value rule of `DataArray._read_data` as written in the source = `resultShape` -/
theorem C06_source_single (sel : List AxisSel) :
    resultShapeG singleTest singleShape (selShape sel) = resultShape sel ∧
    singleSource = "np.array(super(DataArray, self)._read_data(sl))" :=
  ⟨resultShape_eq sel, by decide⟩

/-- `DataArray.get_slice` (guards, index-mode window, dispatch) as written in the source = `getSlice` -/
theorem C06_source_get_slice (shape : List Nat) (positions : List Int) (extents : Option (List Int)) :
    getSliceG getSliceGuard1 getSliceErr1 getSliceGuard2 getSliceErr2 getSliceWindow
      (mkViewG initSteps initNorm) shape positions extents = getSlice shape positions extents ∧
    getSliceOtherModes = ["elif mode == DataSliceMode.Data: return self._get_slice_bydim(positions, extents)",
      "else: raise ValueError"] :=
  ⟨getSlice_eq shape positions extents, by decide⟩

/-- **End to end over the generated code.** For a view built by the generated `__init__` from
windows inside the array, the generated `_read_data` applied to any index object of the
property's kind returns NumPy's selection on the window, shifted by the window starts, with the
generated single-value rule giving NumPy's shape (`[1]` for a rank-0 result); it is refused
(`OutOfBounds` / `IndexError`) exactly when NumPy refuses. -/
theorem C06_generated_view_read (shape : List Nat) (ws : List Win) (hw : WindowsIn ws shape)
    (arg : IxArg) (hp : PosSteps arg.toList) :
    let v := mkViewG initSteps initNorm shape (some (ws.map some))
    let rd := viewReadG readInvalid readTest
      (transformG expandUserSlices (transformAxisG transformInt transformSlice transformOther)) v (some arg)
    v = ⟨shape, true, ws⟩ ∧
    match npSelect (extentsOf ws) arg.toList with
    | .ok sel =>
      rd = .ok (.sel (shiftSel (offsetsOf ws) sel)) ∧
      resultShapeG singleTest singleShape (selShape (shiftSel (offsetsOf ws) sel)) =
        (match selShape sel with | [] => [1] | s => s)
    | .error _ => rd = .error .outOfBounds ∨ rd = .error .indexError := by
  intro v rd
  have hv : v = ⟨shape, true, ws⟩ := by
    show mkViewG initSteps initNorm shape (some (ws.map some)) = _
    rw [mkViewG_eq]; exact mkView_ok shape ws hw
  have hok : ViewOK (⟨shape, true, ws⟩ : View) := ⟨rfl, hw⟩
  have hrd : rd = viewRead ⟨shape, true, ws⟩ (some arg.toList) := by
    show viewReadG _ _ _ v (some arg) = _
    rw [viewRead_eq, hv]; rfl
  refine ⟨hv, ?_⟩
  have key := C06_view_read ⟨shape, true, ws⟩ hok arg.toList hp
  have he : (⟨shape, true, ws⟩ : View).extents = extentsOf ws := rfl
  have ho : (⟨shape, true, ws⟩ : View).offsets = offsetsOf ws := rfl
  rw [he, ho] at key
  split
  · rename_i sel hsel
    rw [hsel] at key
    obtain ⟨k1, _, k3⟩ := key
    refine ⟨by rw [hrd]; exact k1, ?_⟩
    rw [resultShape_eq]
    exact k3
  · rename_i e hsel
    rw [hsel] at key
    rw [hrd]
    exact key


/-! ## `get_slice` in DATA mode (positions in the units of the dimension descriptors)

`Pure/ViewData.lean` models `_get_slice_bydim`; the conversions are C07's `index_of`
(`Pure/Dim.lean`), so C07's order-theoretic characterisation composes with the window theorems. -/

open Nix.ViewData Nix.Dim in
/-- **DATA-mode slice = index-mode window.**  With as many positions and extents as dimensions,
`get_slice(positions, extents, DataSliceMode.Data)` is decided by the per-dimension loop:
an error of a conversion propagates; a negative extent anywhere gives an invalid view (reads
empty, refuses writes); otherwise the view is `DataView` on the windows the loop produced, hence
valid exactly when every window lies inside the array — and then it is the view all C06
theorems speak about (`ViewOK`), reading `parent[start:stop]` on every axis. -/
theorem C06_data_slice (shape : List Nat) (dims : List DimDesc) (pos ext : List Rat)
    (hp : pos.length = shape.length) (he : ext.length = shape.length) :
    match bydimLoop dims pos ext with
    | .error e => getSliceData shape dims pos (some ext) = .error e
    | .ok none =>
      ∃ v, getSliceData shape dims pos (some ext) = .ok v ∧ v.valid = false ∧
        ∀ ix, viewRead v ix = .ok .empty ∧ viewWrite v ix = .error .invalidSlice
    | .ok (some ws) =>
      getSliceData shape dims pos (some ext) = .ok (mkView shape (some (ws.map some))) ∧
      ((mkView shape (some (ws.map some))).valid = true ↔ WindowsIn ws shape) ∧
      (WindowsIn ws shape →
        mkView shape (some (ws.map some)) = ⟨shape, true, ws⟩ ∧ ViewOK ⟨shape, true, ws⟩ ∧
        viewRead ⟨shape, true, ws⟩ none = .ok (.sel (windowSel ws))) := by
  have hg : ∀ r, bydimLoop dims pos ext = r → getSliceData shape dims pos (some ext) =
      (match r with
        | .error e => .error e
        | .ok none => .ok (mkView shape none)
        | .ok (some ws) => .ok (mkView shape (some (ws.map some)))) := by
    intro r hr
    unfold getSliceData
    simp only [hp, he, ne_eq, not_true_eq_false, and_false, if_false, hr]
    cases r with
    | error e => rfl
    | ok o => cases o <;> rfl
  split
  · rename_i e h; rw [hg _ h]
  · rename_i h
    refine ⟨mkView shape none, by rw [hg _ h], rfl, ?_⟩
    intro ix
    exact (C06_window shape []).2.2.2.2 (mkView shape none) rfl ix
  · rename_i ws h
    refine ⟨by rw [hg _ h], mkView_valid_iff shape ws, ?_⟩
    intro hw
    have hok : ViewOK (⟨shape, true, ws⟩ : View) := ⟨rfl, hw⟩
    exact ⟨mkView_ok shape ws hw, hok, (C06_window_read _ hok).1⟩

open Nix.ViewData Nix.Dim in
/-- the windows the loop hands over: one per dimension (as many as the shortest of descriptors,
positions, extents — an array with fewer descriptors than dimensions cannot give a valid view),
each `(start, start + extent)` of that dimension's conversion with `extent ≥ 0` -/
theorem C06_data_windows (d : DimDesc) (ds : List DimDesc) (p : Rat) (ps : List Rat) (e : Rat)
    (es : List Rat) (w : Win) (ws : List Win) :
    (bydimLoop (d :: ds) (p :: ps) (e :: es) = .ok (some (w :: ws)) ↔
      ∃ s x, bydimAxis d p e = .ok (s, x) ∧ 0 ≤ x ∧ w = (s, s + x) ∧
        bydimLoop ds ps es = .ok (some ws)) ∧
    (∀ ws', bydimLoop (d :: ds) (p :: ps) (e :: es) = .ok (some ws') →
      ws'.length = min (ds.length + 1) (min (ps.length + 1) (es.length + 1))) ∧
    bydimAxis .set p e = .ok (truncRat p, truncRat e) :=
  ⟨bydimLoop_cons d ds p ps e es w ws,
   fun ws' h => by simpa using bydimLoop_length (d :: ds) (p :: ps) (e :: es) ws' h, rfl⟩

open Nix.ViewData Nix.Dim in
/-- **What a DATA-mode window contains, range dimension (full strength: every ascending tick
list, every position and extent).**  When the loop keeps the dimension (`extent ≥ 0`), `start` is
the first tick at or after `pos` and `start + extent` the last tick at or before `pos + ext`
(C07's `index_of` theorem); every sample read through the view has its tick in `[pos, pos + ext]`,
and every tick in `[pos, pos + ext]` is read or is the end sample `start + extent` itself.
The conversion yields `(-1, -1)` — an invalid, empty view — only when no tick lies at or after
`pos` or none at or before `pos + ext`. -/
theorem C06_data_axis_range (ticks : List Rat) (hasc : AscendingList ticks) (pos ext : Rat) :
    (∀ s x, bydimAxis (.range ticks) pos ext = .ok (s, x) → 0 ≤ x →
      WindowMeaning (tickCoord ticks) (some ticks.length) pos (pos + ext) s x) ∧
    ((∃ s x, bydimAxis (.range ticks) pos ext = .ok (s, x) ∧
        startExtent (rangeIndexOf ticks pos .geq) (rangeIndexOf ticks (pos + ext) .leq) = .ok (s, x)) ∨
     (bydimAxis (.range ticks) pos ext = .ok (-1, -1) ∧
        ((∀ k, ¬ IsFirstAtOrAfter (tickCoord ticks) (some ticks.length) pos k) ∨
         (∀ k, ¬ IsLastAtOrBefore (tickCoord ticks) (some ticks.length) (pos + ext) k)))) :=
  ⟨fun s x h hx => range_axis_meaning ticks hasc pos ext s x h hx, range_axis_cases ticks hasc pos ext⟩

open Nix.ViewData Nix.Dim in
/-- the same for a sampled dimension (any offset, positive interval), under C07's `Separated`
hypothesis at `pos` and at `pos + ext` (the position is on a sample or outside the `np.isclose`
band of every sample) -/
theorem C06_data_axis_sampled (off si pos ext : Rat) (hsi : 0 < si)
    (hs1 : Nix.ViewData.SeparatedSampled off si pos)
    (hs2 : Nix.ViewData.SeparatedSampled off si (pos + ext))
    (s x : Int) (h : bydimAxis (.sampled off si) pos ext = .ok (s, x)) (hx : 0 ≤ x) :
    WindowMeaning (sampledCoord off si) none pos (pos + ext) s x :=
  sampled_axis_meaning off si pos ext hsi hs1 hs2 s x h hx

open Nix.ViewData Nix.Dim in
/-- `_get_slice_bydim` as written in the source has the statement shape `Pure/ViewData.lean` was
written against (which conversion with which mode, the `IndexError` handler of the range branch
only, `int(…)` for sets, the early `return DataView(self, None)` on a negative extent, the window
`slice(p, p + e)`), and `index_of` called without a mode means `LessOrEqual` for every descriptor
class — the `.leq` of `bydimAxis` -/
theorem C06_source_bydim :
    bydimShape = [
      "dpos, dext = ([], [])",
      "for (dim, pos, ext) in zip(self.dimensions, positions, extents):",
      "  if dim.dimension_type == DimensionType.Sample:",
      "    start_pos = dim.index_of(pos, mode=IndexMode.GreaterOrEqual)",
      "    extent = dim.index_of(pos + ext) - start_pos",
      "  elif dim.dimension_type == DimensionType.Range:",
      "    try:",
      "      start_pos = dim.index_of(pos, mode=IndexMode.GreaterOrEqual)",
      "      extent = dim.index_of(pos + ext) - start_pos",
      "    except IndexError:",
      "      start_pos = -1",
      "      extent = -1",
      "    except Exception:",
      "      raise e",
      "  elif dim.dimension_type == DimensionType.Set:",
      "    start_pos = int(pos)",
      "    extent = int(ext)",
      "  else:",
      "    raise IncompatibleDimensions",
      "  if extent < 0:",
      "    return DataView(self, None)",
      "  dpos.append(start_pos)",
      "  dext.append(extent)",
      "slices = tuple((slice(p, p + e) for p, e in zip(dpos, dext)))",
      "return DataView(self, slices)"] ∧
    indexOfDefaultMode.map Prod.fst = ["SampledDimension", "RangeDimension", "SetDimension"] ∧
    (∀ p ∈ indexOfDefaultMode, IndexMode.ofName p.2 = .leq) ∧
    IndexMode.ofName "GreaterOrEqual" = .geq := by
  refine ⟨by decide, by decide, by decide, by decide⟩

/-! Non-vacuity: concrete views and tuples meeting the hypotheses, evaluated by the kernel. -/

/-- `da.get_slice((1, 1), (2, 2))` on a 3×4 array -/
def exView : View := mkView [3, 4] (some [some (1, 3), some (1, 3)])

example : ViewOK exView := by
  have : exView = ⟨[3, 4], true, [(1, 3), (1, 3)]⟩ := by decide
  rw [this]
  simp [ViewOK, WindowsIn, WinIn]
example : PosSteps [Ix.ellipsis, Ix.int (-1)] := by
  intro i hi; simp at hi; rcases hi with rfl | rfl <;> trivial
/-- `view[..., -1]` reads parent offsets 6 and 10 (column 2 of rows 1–2) -/
example : (match viewRead exView (some [Ix.ellipsis, Ix.int (-1)]) with
    | .ok (.sel s) => (selIndices s).map (flatIndex [3, 4])
    | _ => []) = [6, 10] := by decide
example : viewRead exView (some [Ix.int 2]) = .error .outOfBounds := by rfl
example : viewRead exView (some [Ix.int 0, Ix.int 0, Ix.int 0]) = .error .indexError := by rfl
/-- D14 and the `view[0] = x` defect, as repaired -/
example : (mkView [10] (some [some (-3, -1)])).valid = false := by decide
example : (mkView [10] (some [some (-1, 1)])).valid = false := by decide
example : (mkView [10] (some [some (2, -1)])).valid = false := by decide
example : viewWrite (mkView [10] (some [some (2, 7)])) (some [Ix.int 0]) = .ok [.pick 2] := by rfl

/-- the compiled branches on concrete numbers: `view[-1]` on the window `[1, 3)`, and the slice
`view[-5:100:2]` on the window `[2, 7)` -/
example : transformInt (-1) 1 3 = .ok 2 := by decide
example : transformInt 2 1 3 = .error .outOfBounds := by decide
example : transformSlice ⟨some (-5), some 100, some 2⟩ 2 7 = .ok (2, 7, 2) := by decide
example : expandUserSlices [.int 0, .ellipsis] 3 = .ok [.int 0, .slice PySlice.full, .slice PySlice.full] := by
  decide
/-- DATA mode on ticks 1, 2, 3, 5: `get_slice([2.0], [3.0], Data)` is the window `[1, 3)`
(ticks 2 and 3; the end sample 5 = `pos + ext` itself is left out), and positions beyond the last
tick give the invalid, empty view -/
example : Nix.ViewData.bydimLoop [.range [1, 2, 3, 5]] [2] [3] = .ok (some [(1, 3)]) := by decide +kernel
example : Nix.ViewData.bydimLoop [.range [1, 2, 3, 5]] [6] [1] = .ok none := by decide +kernel
example : Nix.Dim.AscendingList [1, 2, 3, 5] := by
  unfold Nix.Dim.AscendingList; decide +kernel

end Nix.C06
