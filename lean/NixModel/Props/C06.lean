import NixModel.Pure.DataView

namespace Nix.C06
open Nix.Py Nix.NdIndex Nix.DataView

/-- placeholder while the harness is brought up -/
theorem C06_invalid_read (shape : List Nat) (ix : Option (List Ix)) :
    viewRead (mkView shape none) ix = .ok .empty := by
  simp [viewRead, mkView]

end Nix.C06
