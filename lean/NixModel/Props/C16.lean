import NixModel.Lemmas.C16Read
/-!
# C16 — a data frame is a faithful table of named, typed columns

Model: `NixModel/Pure/Frame.lean` (nixio/data_frame.py, Block.create_data_frame, h5dataset string conversion).
All four theorems quantify over every frame reachable from any of the four creation variants by any history of
operations (refused ones included), and over every further operation.  `Created f0` = `f0` is the result of a
successful `create_data_frame` in one of its four variants.
-/
namespace Nix.C16
open Nix Nix.Frame

/-- `f0` was returned by one of the four creation variants of `create_data_frame` -/
inductive Created : Frame → Prop where
  | dict {cols data f} : createDict cols data = .ok f → Created f
  | namesTypes {names types data f} : createNamesTypes names types data = .ok f → Created f
  | namesData {names data f} : createNamesData names data = .ok f → Created f
  | struct {cols data f} : createStruct cols data = .ok f → Created f

theorem created_wf {f : Frame} (h : Created f) : WF f := by
  cases h with
  | dict h => exact wf_createWith h
  | namesTypes h =>
    unfold createNamesTypes at h
    simp only at h
    split at h
    · cases h
    · exact wf_createWith h
  | namesData h =>
    unfold createNamesData at h
    split at h
    · cases h
    · cases h
    · unfold createNamesTypes at h
      simp only at h
      split at h
      · cases h
      · exact wf_createWith h
  | struct h =>
    unfold createStruct at h
    split at h
    · cases h
    · exact wf_createWith h

/-- what an accepted write guarantees about the reads afterwards, operation by operation -/
def ReadBack (f : Frame) (f' : Frame) : Op → Prop
  | .appendRows rows =>
      f'.cols = f.cols ∧ f'.units = f.units ∧ f'.rows.length = f.rows.length + rows.length ∧
      ∀ k (hk : k < rows.length), ∃ w, convRow f.types rows[k] = .ok w ∧
        readRow f' ((f.rows.length + k : Nat) : Int) = .ok w
  | .appendColumn col _ dt =>
      ∃ t, f'.types = f.types ++ [t] ∧ (∀ t0, dt = some t0 → t = t0) ∧ f'.rows.length = f.rows.length ∧
        ∀ r (_ : r < f.rows.length), ∃ v w, col[r]? = some v ∧ conv t v = .ok w ∧
          f'.cell r f.cols.length = some w
  | .writeRows rows idx =>
      f'.cols = f.cols ∧ f'.units = f.units ∧ f'.rows.length = f.rows.length ∧ rows.length = idx.length ∧
      ∀ j (hj : j < idx.length) (hj' : j < rows.length), ∃ w, convRow f.types rows[j] = .ok w ∧
        readRow f' idx[j] = .ok w
  | .writeRowFlat row idx =>
      f'.cols = f.cols ∧ f'.rows.length = f.rows.length ∧
      ∃ i w, idx = [i] ∧ convRow f.types row = .ok w ∧ readRow f' i = .ok w
  | .writeColumn col index name =>
      f.rows = [] ∨
      ∃ c ct, colTarget f index name = some c ∧ f.cols[c]? = some ct ∧ f'.cols = f.cols ∧
        ∀ r (_ : r < f.rows.length), ∃ v w, col[r]? = some v ∧ conv ct.2 v = .ok w ∧ f'.cell r c = some w
  | .writeCellPos cell pos =>
      ∃ ri ci r c ct w, pos = [ri, ci] ∧ normIdx f.rows.length ri = some r ∧ normIdx f.cols.length ci = some c ∧
        f.cols[c]? = some ct ∧ conv ct.2 cell = .ok w ∧ f'.cell r c = some w ∧ f'.cols = f.cols
  | .writeCellName cell name ri =>
      ∃ r c ct w, normIdx f.rows.length ri = some r ∧ findCol f.cols name = some c ∧
        f.cols[c]? = some ct ∧ conv ct.2 cell = .ok w ∧ f'.cell r c = some w ∧ f'.cols = f.cols
  | .setUnits us =>
      us.length = f.cols.length ∧ f'.cols = f.cols ∧ f'.rows = f.rows ∧
      unitsOf f' = some (us.map (fun u => if u = some "" then none else u))

/-- **read what was written**: after any history, an accepted write is returned by the reads — every appended /
    overwritten row through `read_rows`, every cell of an overwritten or appended column and every overwritten cell
    through the cell read, converted to the column's type (`conv`; the identity on well-typed cells, `conv_id`) -/
theorem C16_read_what_written (f0 : Frame) (hist : List Op) (op : Op) (f' : Frame)
    (hc : Created f0) (h : step (run f0 hist) op = (f', none)) : ReadBack (run f0 hist) f' op := by
  have wf := wf_run (created_wf hc) hist
  generalize run f0 hist = f at h wf ⊢
  cases op with
  | appendRows rows => exact read_appendRows h
  | appendColumn col name dt => exact read_appendColumn wf h
  | writeRows rows idx => exact read_writeRows h
  | writeRowFlat row idx =>
    simp only [step, writeRowFlat] at h
    split at h
    · simp at h
    · split at h
      · simp at h
      · rename_i hl
        obtain ⟨h1, _, h3, _, h5⟩ := read_writeRows h
        match idx, hl with
        | [i], _ =>
          obtain ⟨w, hw1, hw2⟩ := h5 0 (by simp) (by simp)
          exact ⟨h1, h3, i, w, rfl, by simpa using hw1, by simpa using hw2⟩
        | [], hl => simp at hl
        | _ :: _ :: _, hl => simp at hl
  | writeColumn col index name =>
    by_cases hne : f.rows = []
    · exact Or.inl hne
    · exact Or.inr (read_writeColumn wf h hne)
  | writeCellPos cell pos => exact read_writeCellPos wf h
  | writeCellName cell name ri => exact read_writeCellName wf h
  | setUnits us => exact read_setUnits h

/-- **frame**: after any history, an operation — accepted or refused — changes no cell it does not address
    (`touched`: appended rows / the appended column / the rows named by the index list / the column named by index
    or name / the one addressed cell; `set_units` addresses none), and only `append_column` changes the columns -/
theorem C16_frame (f0 : Frame) (hist : List Op) (op : Op) (r c : Nat)
    (hc : Created f0) (h : ¬ touched (run f0 hist) op r c) :
    (step (run f0 hist) op).1.cell r c = (run f0 hist).cell r c := by
  have wf := wf_run (created_wf hc) hist
  generalize run f0 hist = f at h wf ⊢
  cases op with
  | appendRows rows => exact frame_appendRows (by simpa [touched] using h)
  | appendColumn col name dt => exact frame_appendColumn wf (by simpa [touched] using h)
  | writeRows rows idx => exact frame_writeRows h
  | writeRowFlat row idx => exact frame_writeRowFlat h
  | writeColumn col index name => exact frame_writeColumn h
  | writeCellPos cell pos => exact frame_writeCellPos h
  | writeCellName cell name ri => exact frame_writeCellName h
  | setUnits us => exact frame_setUnits

/-- what the report functions say about a frame -/
def Describes (f : Frame) : Prop :=
  dfShape f = (f.rows.length, f.cols.length) ∧ rowCount f = f.rows.length ∧
  (∀ r ∈ f.rows, r.length = f.cols.length ∧ rowOK f.types r = true) ∧
  hasDup f.names = false ∧
  (∀ us, unitsOf f = some us → us.length = f.cols.length) ∧
  (columns f).map (fun x => (x.1, x.2.1)) = f.cols

theorem zip3_fst : ∀ (cols : List (String × ColType)) (us : List (Option String)), us.length = cols.length →
    (zip3 cols us).map (fun x => (x.1, x.2.1)) = cols
  | [], [], _ => rfl
  | (n, t) :: cs, u :: us, h => by
    simp [zip3, zip3_fst cs us (by simpa using h)]
  | [], _ :: _, h => by simp at h
  | _ :: _, [], h => by simp at h

/-- **shape consistent**: after any history the reported row and column counts, column names, types and units
    describe the stored table: every row has one stored cell of the column's type per column, names are distinct,
    units (when set) are one per column and `columns` lists every column -/
theorem C16_shape_consistent (f0 : Frame) (hist : List Op) (hc : Created f0) : Describes (run f0 hist) := by
  have wf := wf_run (created_wf hc) hist
  generalize run f0 hist = f at wf ⊢
  refine ⟨rfl, rfl, ?_, wf.nodup, wf.units, ?_⟩
  · intro r hr
    have := wf.rows r hr
    exact ⟨by simpa [Frame.types] using rowOK_length this, this⟩
  · unfold columns
    split
    · rename_i us hus
      split
      · exact zip3_fst _ _ (wf.units us hus)
      · simp [List.map_map, Function.comp_def]
    · simp [List.map_map, Function.comp_def]

/-- **refused unchanged**: after any history, a refused write leaves the table exactly as it was.  The one
    exception the code has: `write_column` writes row by row, so a cell that the column's type refuses (not one of
    the refusal causes the property lists) stops it after the earlier rows were written. -/
theorem C16_refused_unchanged (f0 : Frame) (hist : List Op) (op : Op) (e : Err)
    (h : (step (run f0 hist) op).2 = some e) :
    (step (run f0 hist) op).1 = run f0 hist ∨
    ∃ col index name, op = .writeColumn col index name ∧
      ∃ ct ∈ (run f0 hist).cols, ∃ v ∈ col, conv ct.2 v = .error e := by
  generalize run f0 hist = f at h ⊢
  cases op with
  | appendRows rows => exact Or.inl (appendRows_refused h)
  | appendColumn col name dt => exact Or.inl (appendColumn_refused h)
  | writeRows rows idx => exact Or.inl (writeRows_refused h)
  | writeRowFlat row idx => exact Or.inl (writeRowFlat_refused h)
  | writeColumn col index name =>
    rcases writeColumn_refused h with h | h
    · exact Or.inl h
    · exact Or.inr ⟨col, index, name, rfl, h⟩
  | writeCellPos cell pos => exact Or.inl (writeCellPos_refused h)
  | writeCellName cell name ri => exact Or.inl (writeCellName_refused h)
  | setUnits us => exact Or.inl (setUnits_refused h)

/-- well-typed cells are stored unchanged (so "converted" in `ReadBack` is the identity for them) -/
theorem C16_welltyped_stored (t : ColType) (v : Val) (h : wellTyped t v = true) : conv t v = .ok v := conv_id h

/-- under distinct names, `write_column(index=k)` addresses column k itself (index 0 included) -/
theorem C16_index_addresses_itself (f : Frame) (wf : WF f) (k : Nat) (hk : k < f.cols.length) :
    colTarget f (some (k : Int)) none = some k := by
  have hn : normIdx f.cols.length (k : Int) = some k := normIdx_self hk
  have hg : f.cols[k]? = some f.cols[k] := List.getElem?_eq_getElem hk
  simp only [colTarget, resolveColName, hn, hg]
  -- distinct names: the first column called like column k is column k
  have key : ∀ (cols : List (String × ColType)) (k : Nat) (hk : k < cols.length),
      hasDup (cols.map (·.1)) = false → findCol cols (cols[k]).1 = some k := by
    intro cols
    induction cols with
    | nil => intro k hk; simp at hk
    | cons c cs ih =>
      intro k hk hd
      simp only [List.map_cons, hasDup, Bool.or_eq_false_iff] at hd
      cases k with
      | zero => simp [findCol, List.findIdx?_cons]
      | succ k =>
        have hk' : k < cs.length := by simpa using hk
        have hne : (c.1 == (cs[k]).1) = false := by
          have : (cs[k]).1 ∈ cs.map (·.1) := List.mem_map.2 ⟨cs[k], List.getElem_mem hk', rfl⟩
          have hc := hd.1
          simp only [List.contains_eq_mem, decide_eq_false_iff_not] at hc
          simp only [beq_eq_false_iff_ne, ne_eq]
          intro e
          exact hc (e ▸ this)
        have := ih k hk' hd.2
        simp only [findCol] at this ⊢
        simp [List.findIdx?_cons, hne, this]
  exact key f.cols k hk wf.nodup

-- ---------------------------------------------------------------------------------------
-- non-vacuity: a concrete created frame, accepted and refused operations

def exFrame : Frame :=
  ⟨[("a", .i8), ("s", .text)], [[.int 1, .str "x"], [.int 2, .str "y"]], none⟩

theorem exFrame_created :
    createDict [("a", .i8), ("s", .text)] (some [[.int 1, .str "x"], [.int 2, .str "y"]]) = .ok exFrame := by
  rfl
example : Created exFrame := Created.dict exFrame_created
/-- column index 0 is writable (D18), and the write is read back -/
example : (step exFrame (.writeColumn [.int 7, .int 8] (some 0) none)).2 = none ∧
    (step exFrame (.writeColumn [.int 7, .int 8] (some 0) none)).1.cell 1 0 = some (.int 8) := by decide
/-- append_rows after append_column is accepted (D19) and units follow the columns -/
example : (run exFrame [.setUnits [some "mV", none], .appendColumn [.bool true, .bool false] "flag" none,
    .appendRows [[.int 3, .str "z", .bool true]]]).rows.length = 3 ∧
    (run exFrame [.setUnits [some "mV", none], .appendColumn [.bool true, .bool false] "flag" none]).units
      = some [some "mV", none, none] := by decide
/-- refusals: out-of-range row, unknown column, wrong length, duplicate column name, overflow -/
example : (step exFrame (.writeRows [[.int 1, .str "q"]] [2])).2 = some .outOfBounds := by decide
example : (step exFrame (.writeColumn [.int 1, .int 2] none (some "nope"))).2 = some .valueError := by decide
example : (step exFrame (.appendRows [[.int 1]])).2 = some .valueError := by decide
example : (step exFrame (.appendColumn [.int 1, .int 2] "a" (some .i64))).2 = some .valueError := by decide
example : (step exFrame (.writeCellPos (.int 300) [0, 0])).2 = some .valueError := by decide
/-- the exception in `C16_refused_unchanged` is real: a refused cell in row 1 leaves row 0 written -/
example : (step exFrame (.writeColumn [.int 5, .str "x"] (some 0) none)).2 = some .valueError ∧
    (step exFrame (.writeColumn [.int 5, .str "x"] (some 0) none)).1.cell 0 0 = some (.int 5) := by decide

end Nix.C16
