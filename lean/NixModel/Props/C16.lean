import NixModel.Lemmas.C16Schema
import NixModel.Lemmas.C16Rec
import NixModel.Lemmas.C16Bytes
import NixModel.Lemmas.C16Getitem
import NixModel.Lemmas.C16Unfit
import NixModel.Lemmas.C16Fx
import NixModel.Lemmas.C16Block
import NixModel.Pure.FrameShape
import NixModel.Generated.FrameShape
/-!
# C16 — a data frame is a faithful table of named, typed columns

Model: `NixModel/Pure/Frame.lean` (nixio/data_frame.py, Block.create_data_frame, h5dataset string conversion).
All four theorems quantify over every frame reachable from any of the four creation variants by any history of
operations (refused ones included), and over every further operation.  `Created f0` = `f0` is the result of a
successful `create_data_frame` in one of its four variants.
-/
namespace Nix.C16
open Nix Nix.Frame

/-- `f0` was returned by one of the four creation variants of `create_data_frame` -/
inductive Created : Frame → Prop where
  | dict {cols data f} : createDict cols data = .ok f → Created f
  | namesTypes {names types data f} : createNamesTypes names types data = .ok f → Created f
  | namesData {names data f} : createNamesData names data = .ok f → Created f
  | struct {cols data f} : createStruct cols data = .ok f → Created f

theorem created_wf {f : Frame} (h : Created f) : WF f := by
  cases h with
  | dict h => exact wf_createWith h
  | namesTypes h =>
    unfold createNamesTypes at h
    simp only at h
    split at h
    · cases h
    · exact wf_createWith h
  | namesData h =>
    unfold createNamesData at h
    split at h
    · cases h
    · cases h
    · unfold createNamesTypes at h
      simp only at h
      split at h
      · cases h
      · exact wf_createWith h
  | struct h =>
    unfold createStruct at h
    split at h
    · cases h
    · exact wf_createWith h

/-- what an accepted write guarantees about the reads afterwards, operation by operation -/
def ReadBack (f : Frame) (f' : Frame) : Op → Prop
  | .appendRows rows =>
      f'.cols = f.cols ∧ f'.units = f.units ∧ f'.rows.length = f.rows.length + rows.length ∧
      ∀ k (hk : k < rows.length), ∃ w, convRow f.types rows[k] = .ok w ∧
        readRow f' ((f.rows.length + k : Nat) : Int) = .ok w
  | .appendColumn col _ dt =>
      ∃ t, f'.types = f.types ++ [t] ∧ (∀ t0, dt = some t0 → t = t0) ∧ f'.rows.length = f.rows.length ∧
        ∀ r (_ : r < f.rows.length), ∃ v w, col[r]? = some v ∧ conv t v = .ok w ∧
          f'.cell r f.cols.length = some w
  | .writeRows rows idx =>
      f'.cols = f.cols ∧ f'.units = f.units ∧ f'.rows.length = f.rows.length ∧ rows.length = idx.length ∧
      ∀ j (hj : j < idx.length) (hj' : j < rows.length), ∃ w, convRow f.types rows[j] = .ok w ∧
        readRow f' idx[j] = .ok w
  | .writeRowFlat row idx =>
      f'.cols = f.cols ∧ f'.rows.length = f.rows.length ∧
      ∃ i w, idx = [i] ∧ convRow f.types row = .ok w ∧ readRow f' i = .ok w
  | .writeColumn col index name =>
      f.rows = [] ∨
      ∃ c ct, colTarget f index name = some c ∧ f.cols[c]? = some ct ∧ f'.cols = f.cols ∧
        ∀ r (_ : r < f.rows.length), ∃ v w, col[r]? = some v ∧ conv ct.2 v = .ok w ∧ f'.cell r c = some w
  | .writeCellPos cell pos =>
      ∃ ri ci r c ct w, pos = [ri, ci] ∧ normIdx f.rows.length ri = some r ∧ normIdx f.cols.length ci = some c ∧
        f.cols[c]? = some ct ∧ conv ct.2 cell = .ok w ∧ f'.cell r c = some w ∧ f'.cols = f.cols
  | .writeCellName cell name ri =>
      ∃ r c ct w, normIdx f.rows.length ri = some r ∧ findCol f.cols name = some c ∧
        f.cols[c]? = some ct ∧ conv ct.2 cell = .ok w ∧ f'.cell r c = some w ∧ f'.cols = f.cols
  | .setUnits us =>
      us.length = f.cols.length ∧ f'.cols = f.cols ∧ f'.rows = f.rows ∧
      unitsOf f' = some (us.map (fun u => if u = some "" then none else u))

/-- **read what was written**: after any history, an accepted write is returned by the reads — every appended /
    overwritten row through `read_rows`, every cell of an overwritten or appended column and every overwritten cell
    through the cell read, converted to the column's type (`conv`; the identity on well-typed cells, `conv_id`) -/
theorem C16_read_what_written (f0 : Frame) (hist : List Op) (op : Op) (f' : Frame)
    (hc : Created f0) (h : step (run f0 hist) op = (f', none)) : ReadBack (run f0 hist) f' op := by
  have wf := wf_run (created_wf hc) hist
  generalize run f0 hist = f at h wf ⊢
  cases op with
  | appendRows rows => exact read_appendRows h
  | appendColumn col name dt => exact read_appendColumn wf h
  | writeRows rows idx => exact read_writeRows h
  | writeRowFlat row idx =>
    simp only [step, writeRowFlat] at h
    split at h
    · simp at h
    · split at h
      · simp at h
      · rename_i hl
        obtain ⟨h1, _, h3, _, h5⟩ := read_writeRows h
        match idx, hl with
        | [i], _ =>
          obtain ⟨w, hw1, hw2⟩ := h5 0 (by simp) (by simp)
          exact ⟨h1, h3, i, w, rfl, by simpa using hw1, by simpa using hw2⟩
        | [], hl => simp at hl
        | _ :: _ :: _, hl => simp at hl
  | writeColumn col index name =>
    by_cases hne : f.rows = []
    · exact Or.inl hne
    · exact Or.inr (read_writeColumn wf h hne)
  | writeCellPos cell pos => exact read_writeCellPos wf h
  | writeCellName cell name ri => exact read_writeCellName wf h
  | setUnits us => exact read_setUnits h

/-- **frame**: after any history, an operation — accepted or refused — changes no cell it does not address
    (`touched`: appended rows / the appended column / the rows named by the index list / the column named by index
    or name / the one addressed cell; `set_units` addresses none), and only `append_column` changes the columns -/
theorem C16_frame (f0 : Frame) (hist : List Op) (op : Op) (r c : Nat)
    (hc : Created f0) (h : ¬ touched (run f0 hist) op r c) :
    (step (run f0 hist) op).1.cell r c = (run f0 hist).cell r c := by
  have wf := wf_run (created_wf hc) hist
  generalize run f0 hist = f at h wf ⊢
  cases op with
  | appendRows rows => exact frame_appendRows (by simpa [touched] using h)
  | appendColumn col name dt => exact frame_appendColumn wf (by simpa [touched] using h)
  | writeRows rows idx => exact frame_writeRows h
  | writeRowFlat row idx => exact frame_writeRowFlat h
  | writeColumn col index name => exact frame_writeColumn h
  | writeCellPos cell pos => exact frame_writeCellPos h
  | writeCellName cell name ri => exact frame_writeCellName h
  | setUnits us => exact frame_setUnits

/-- **frame for the schema**: only `append_column` changes the columns (names, types, order); only `units = …`
    and `append_column` change the units; only `append_rows` changes the number of rows — for every operation,
    accepted or refused -/
theorem C16_schema_frame (f : Frame) (op : Op) :
    ((∀ col name dt, op ≠ .appendColumn col name dt) → (step f op).1.cols = f.cols) ∧
    ((∀ col name dt, op ≠ .appendColumn col name dt) → (∀ us, op ≠ .setUnits us) →
      (step f op).1.units = f.units) ∧
    ((∀ rows, op ≠ .appendRows rows) → (step f op).1.rows.length = f.rows.length) :=
  ⟨step_cols f op, step_units f op, step_nrows f op⟩

theorem created_namesOK {f : Frame} (h : Created f) : NamesOK f := by
  cases h with
  | dict h => exact namesOK_createWith h
  | namesTypes h => exact namesOK_createWith (createNamesTypes_spec h).2.2
  | namesData h =>
    obtain ⟨_, _, _, h2⟩ := createNamesData_spec h
    exact namesOK_createWith (createNamesTypes_spec h2).2.2
  | struct h => exact namesOK_createWith (createStruct_spec h).2

/-- **the appended column carries the given name**: after any history, an accepted `append_column(col, name)`
    (proper name) leaves the existing columns as they are and adds `(name, type)` as the last column, the type
    being the requested one or, without one, the Python type of the first cell -/
theorem C16_append_column_named (f0 : Frame) (hist : List Op) (hc : Created f0) (col : List Val) (name : String)
    (dt : Option ColType) (f' : Frame) (hne : name ≠ "")
    (h : step (run f0 hist) (.appendColumn col name dt) = (f', none)) :
    ∃ t, f'.cols = (run f0 hist).cols ++ [(name, t)] ∧ (∀ t0, dt = some t0 → t = t0) ∧
      (dt = none → ∃ v, col.head? = some v ∧ t = typeOfVal v) :=
  appendColumn_named (namesOK_run (created_namesOK hc) hist) hne h

/-- what the report functions say about a frame -/
def Describes (f : Frame) : Prop :=
  dfShape f = (f.rows.length, f.cols.length) ∧ rowCount f = f.rows.length ∧
  (∀ r ∈ f.rows, r.length = f.cols.length ∧ rowOK f.types r = true) ∧
  hasDup f.names = false ∧
  (∀ us, unitsOf f = some us → us.length = f.cols.length) ∧
  (columns f).map (fun x => (x.1, x.2.1)) = f.cols

theorem zip3_fst : ∀ (cols : List (String × ColType)) (us : List (Option String)), us.length = cols.length →
    (zip3 cols us).map (fun x => (x.1, x.2.1)) = cols
  | [], [], _ => rfl
  | (n, t) :: cs, u :: us, h => by
    simp [zip3, zip3_fst cs us (by simpa using h)]
  | [], _ :: _, h => by simp at h
  | _ :: _, [], h => by simp at h

/-- **shape consistent**: after any history the reported row and column counts, column names, types and units
    describe the stored table: every row has one stored cell of the column's type per column, names are distinct,
    units (when set) are one per column and `columns` lists every column -/
theorem C16_shape_consistent (f0 : Frame) (hist : List Op) (hc : Created f0) : Describes (run f0 hist) := by
  have wf := wf_run (created_wf hc) hist
  generalize run f0 hist = f at wf ⊢
  refine ⟨rfl, rfl, ?_, wf.nodup, wf.units, ?_⟩
  · intro r hr
    have := wf.rows r hr
    exact ⟨by simpa [Frame.types] using rowOK_length this, this⟩
  · unfold columns
    split
    · rename_i us hus
      split
      · exact zip3_fst _ _ (wf.units us hus)
      · simp [List.map_map, Function.comp_def]
    · simp [List.map_map, Function.comp_def]

/-- **refused unchanged**: after any history, a refused write — whatever the cause: wrong length, unknown column,
    out-of-range row or column, duplicate column name, unordered index list, a cell the column's type refuses —
    leaves the table exactly as it was.  (Until `fix:` 2f1693f `write_column` was an exception: it wrote row by row
    and a refused cell left the earlier rows written.) -/
theorem C16_refused_unchanged (f0 : Frame) (hist : List Op) (op : Op) (e : Err)
    (h : (step (run f0 hist) op).2 = some e) :
    (step (run f0 hist) op).1 = run f0 hist := by
  generalize run f0 hist = f at h ⊢
  cases op with
  | appendRows rows => exact appendRows_refused h
  | appendColumn col name dt => exact appendColumn_refused h
  | writeRows rows idx => exact writeRows_refused h
  | writeRowFlat row idx => exact writeRowFlat_refused h
  | writeColumn col index name => exact writeColumn_refused h
  | writeCellPos cell pos => exact writeCellPos_refused h
  | writeCellName cell name ri => exact writeCellName_refused h
  | setUnits us => exact setUnits_refused h

/-- well-typed cells are stored unchanged (so "converted" in `ReadBack` is the identity for them) -/
theorem C16_welltyped_stored (t : ColType) (v : Val) (h : wellTyped t v = true) : conv t v = .ok v := conv_id h

/-- under distinct names, `write_column(index=k)` addresses column k itself (index 0 included) -/
theorem C16_index_addresses_itself (f : Frame) (wf : WF f) (k : Nat) (hk : k < f.cols.length) :
    colTarget f (some (k : Int)) none = some k := by
  have hn : normIdx f.cols.length (k : Int) = some k := normIdx_self hk
  have hg : f.cols[k]? = some f.cols[k] := List.getElem?_eq_getElem hk
  simp only [colTarget, resolveColName, hn, hg]
  exact findCol_self f.cols k hk wf.nodup

-- ---------------------------------------------------------------------------------------
-- every read API is a view of the one stored table

/-- **`read_cell` is the table**: after any history, `read_cell(position=[row, col])` and
    `read_cell(col_name=, row_idx=)` return exactly the stored cell at the (normalised) row and column — first, last
    and negative addresses included — and fail exactly when the address names no cell -/
theorem C16_read_cell_is_table (f0 : Frame) (hist : List Op) (hc : Created f0) (ri ci : Int) (name : String)
    (v : Val) :
    (readCellPos (run f0 hist) [ri, ci] = .ok v ↔
      ∃ r c, normIdx (run f0 hist).rows.length ri = some r ∧ normIdx (run f0 hist).cols.length ci = some c ∧
        (run f0 hist).cell r c = some v) ∧
    (readCellName (run f0 hist) name ri = .ok v ↔
      ∃ r c, normIdx (run f0 hist).rows.length ri = some r ∧ findCol (run f0 hist).cols name = some c ∧
        (run f0 hist).cell r c = some v) :=
  ⟨readCellPos_iff (wf_run (created_wf hc) hist), readCellName_iff⟩

/-- **`read_rows` is the table**: `read_rows(i)` returns stored row `i` (normalised); `read_rows([i, j, …])`
    returns, in the order of the list, exactly the rows `read_rows(i)`, `read_rows(j)`, … return -/
theorem C16_read_rows_is_table (f : Frame) :
    (∀ i row, readRow f i = .ok row ↔ ∃ k, normIdx f.rows.length i = some k ∧ f.rows[k]? = some row) ∧
    (∀ idx rs, readRows f idx = .ok rs → rs.length = idx.length ∧
      ∀ j (hj : j < idx.length), ∃ row, rs[j]? = some row ∧ readRow f idx[j] = .ok row) :=
  ⟨fun _ _ => readRow_iff, fun _ _ h => readRows_spec h⟩

/-- **`read_columns` is the table**: by index or by name, with any slice `lo:hi`: result row `r`, position `j` is
    the stored cell of table row `start + r` in the column the j-th index / name addresses (requested order kept) -/
theorem C16_read_columns_is_table (f : Frame) (lo hi : Option Int) (out : List Row) :
    (∀ idx, readColumns f (colsByIndex f.cols.length idx) lo hi = .ok out →
      out.length = (sliceList f.rows lo hi).length ∧
      ∀ r (_ : r < out.length) j (hj : j < idx.length), ∃ c, normIdx f.cols.length idx[j] = some c ∧
        (out[r]?).bind (·[j]?) = f.cell (sliceStart f.rows.length lo + r) c) ∧
    (∀ ns unk, readColumns f (colsByName f.cols unk ns) lo hi = .ok out →
      out.length = (sliceList f.rows lo hi).length ∧
      ∀ r (_ : r < out.length) j (hj : j < ns.length), ∃ c, findCol f.cols ns[j] = some c ∧
        (out[r]?).bind (·[j]?) = f.cell (sliceStart f.rows.length lo + r) c) := by
  constructor
  · intro idx h
    cases hs : colsByIndex f.cols.length idx with
    | error e => rw [hs] at h; simp [readColumns] at h
    | ok ks =>
      rw [hs] at h
      obtain ⟨h1, h2⟩ := readColumns_spec h
      obtain ⟨c1, c2⟩ := colsByIndex_spec hs
      refine ⟨h1, ?_⟩
      intro r hr j hj
      obtain ⟨k, k1, k2⟩ := h2 r hr j (by rw [c1]; exact hj)
      obtain ⟨k', e1, e2⟩ := c2 j hj
      rw [k1] at e1
      injection e1 with e1; subst e1
      exact ⟨k, e2, k2⟩
  · intro ns unk h
    cases hs : colsByName f.cols unk ns with
    | error e => rw [hs] at h; simp [readColumns] at h
    | ok ks =>
      rw [hs] at h
      obtain ⟨h1, h2⟩ := readColumns_spec h
      obtain ⟨c1, c2⟩ := colsByName_spec hs
      refine ⟨h1, ?_⟩
      intro r hr j hj
      obtain ⟨k, k1, k2⟩ := h2 r hr j (by rw [c1]; exact hj)
      obtain ⟨k', e1, e2⟩ := c2 j hj
      rw [k1] at e1
      injection e1 with e1; subst e1
      exact ⟨k, e2, k2⟩

/-- **a written cell is read back along every path**: after any history, an accepted `write_cell(position=)` is
    returned by `read_cell(position=)`, by `read_cell(col_name=<that column's name>, row_idx=)` and sits at its
    column in what `read_rows(row)` returns -/
theorem C16_cell_write_read_everywhere (f0 : Frame) (hist : List Op) (hc : Created f0) (cell : Val)
    (pos : List Int) (f' : Frame) (h : step (run f0 hist) (.writeCellPos cell pos) = (f', none)) :
    ∃ ri ci c ct w, pos = [ri, ci] ∧ normIdx (run f0 hist).cols.length ci = some c ∧
      (run f0 hist).cols[c]? = some ct ∧ conv ct.2 cell = .ok w ∧
      readCellPos f' [ri, ci] = .ok w ∧ readCellName f' ct.1 ri = .ok w ∧
      ∃ row, readRow f' ri = .ok row ∧ row[c]? = some w := by
  have wf := wf_run (created_wf hc) hist
  have wf' : WF f' := by
    have := wf_step wf (.writeCellPos cell pos)
    rw [h] at this; exact this
  have hlen : f'.rows.length = (run f0 hist).rows.length := by
    have := writeCellPos_rows_length (run f0 hist) cell pos
    simp only [step] at h
    rw [h] at this; exact this
  obtain ⟨ri, ci, r, c, ct, w, hp, hr, hcn, hct, hw, hcell, hcols⟩ := C16_read_what_written f0 hist _ f' hc h
  generalize run f0 hist = f at *
  have hclt : c < f.cols.length := normIdx_lt hcn
  have hname : findCol f'.cols ct.1 = some c := by
    rw [hcols]
    have := findCol_self f.cols c hclt wf.nodup
    have hg : f.cols[c] = ct := by
      have := List.getElem?_eq_getElem hclt
      rw [this] at hct; injection hct
    rw [hg] at this; exact this
  refine ⟨ri, ci, c, ct, w, hp, hcn, hct, hw, ?_, ?_, ?_⟩
  · exact (readCellPos_iff wf').2 ⟨r, c, by rw [hlen]; exact hr, by rw [hcols]; exact hcn, hcell⟩
  · exact readCellName_iff.2 ⟨r, c, by rw [hlen]; exact hr, hname, hcell⟩
  · simp only [Frame.cell] at hcell
    cases hrow : f'.rows[r]? with
    | none => simp [hrow] at hcell
    | some row =>
      simp only [hrow, Option.bind_some] at hcell
      exact ⟨row, readRow_iff.2 ⟨r, by rw [hlen]; exact hr, hrow⟩, hcell⟩

-- ---------------------------------------------------------------------------------------
-- every refusal class is refused (and leaves the table unchanged)

/-- **wrong length is refused**: a column (append / overwrite) whose length is not the row count, a units list
    whose length is not the column count, a row list whose length is not that of the index list, a row with
    another number of cells than there are columns — each is refused and the frame is returned unchanged -/
theorem C16_refuses_wrong_length (f : Frame) :
    (∀ col name dt, col.length ≠ f.rows.length → step f (.appendColumn col name dt) = (f, some .valueError)) ∧
    (∀ col index name, col.length ≠ f.rows.length → step f (.writeColumn col index name) = (f, some .valueError)) ∧
    (∀ us, us.length ≠ f.cols.length → step f (.setUnits us) = (f, some .valueError)) ∧
    (∀ rows idx, rows.length ≠ idx.length → step f (.writeRows rows idx) = (f, some .indexError)) ∧
    (∀ rows, (∃ r ∈ rows, r.length ≠ f.cols.length) → ∃ e, step f (.appendRows rows) = (f, some e)) ∧
    (∀ rows idx, (∃ r ∈ rows, r.length ≠ f.cols.length) → ∃ e, step f (.writeRows rows idx) = (f, some e)) :=
  ⟨fun _ _ _ h => refuse_appendColumn_length h, fun _ _ _ h => refuse_writeColumn_length h,
   fun _ h => refuse_setUnits_length h, fun _ _ h => refuse_writeRows_count h,
   fun _ h => refuse_appendRows_rowLength h, fun _ _ h => refuse_writeRows_rowLength h⟩

/-- **an unknown column is refused**: a name no column has (`write_column` on a non-empty table, `write_cell`,
    `read_cell`), a column index outside `-m ≤ i < m`, neither index nor name.  The code's one quirk is stated
    too: `write_column` on a table without rows never looks at the name (nothing is written) -/
theorem C16_refuses_unknown_column (f : Frame) :
    (∀ col index nm, col.length = f.rows.length → f.rows ≠ [] → findCol f.cols nm = none →
      step f (.writeColumn col index (some nm)) = (f, some .valueError)) ∧
    (∀ col i, col.length = f.rows.length → normIdx f.cols.length i = none →
      step f (.writeColumn col (some i) none) = (f, some .indexError)) ∧
    (∀ col, col.length = f.rows.length → step f (.writeColumn col none none) = (f, some .valueError)) ∧
    (∀ cell nm ri, findCol f.cols nm = none → ∃ e, step f (.writeCellName cell nm ri) = (f, some e)) ∧
    (∀ cell ri ci, normIdx f.cols.length ci = none → step f (.writeCellPos cell [ri, ci]) = (f, some .indexError)) ∧
    (∀ nm ri, findCol f.cols nm = none → ∃ e, readCellName f nm ri = .error e) ∧
    (∀ index nm, f.rows = [] → step f (.writeColumn [] index (some nm)) = (f, none)) := by
  refine ⟨fun _ index _ hl hne h => refuse_writeColumn_unknown (index := index) hl hne h, fun _ _ hl h => refuse_writeColumn_index hl h,
    fun _ hl => refuse_writeColumn_noaddr hl, fun _ _ _ h => refuse_writeCellName_unknown h,
    fun _ _ _ h => refuse_writeCellPos_col h, fun _ _ h => refuse_readCellName_unknown h, ?_⟩
  intro index nm h
  simp [step, writeColumn, h, resolveColName]

/-- **an out-of-range row is refused**: any entry of `write_rows`' index list, the row of `write_cell` (both
    forms) and of `read_rows` outside `-n ≤ i < n` -/
theorem C16_refuses_out_of_range_row (f : Frame) :
    (∀ rows idx, (∃ i ∈ idx, normIdx f.rows.length i = none) → ∃ e, step f (.writeRows rows idx) = (f, some e)) ∧
    (∀ cell ri ci, normIdx f.rows.length ri = none → step f (.writeCellPos cell [ri, ci]) = (f, some .indexError)) ∧
    (∀ cell nm ri, normIdx f.rows.length ri = none → step f (.writeCellName cell nm ri) = (f, some .indexError)) ∧
    (∀ ri, normIdx f.rows.length ri = none → readRow f ri = .error .indexError) :=
  ⟨fun _ _ h => refuse_writeRows_oob h, fun _ _ _ h => refuse_writeCellPos_row h,
   fun _ _ _ h => refuse_writeCellName_row h, fun _ h => refuse_readRow h⟩

/-- **a duplicate column name is refused** by `append_column` (an empty name is named `f<k>` by NumPy and is a
    different case), and by creation from a name list -/
theorem C16_refuses_duplicate_column_name (f : Frame) :
    (∀ col name dt, name ∈ f.names → name ≠ "" → ∃ e, step f (.appendColumn col name dt) = (f, some e)) ∧
    (∀ names types data f', createNamesTypes names types data = .ok f' → hasDup names = false) :=
  ⟨fun _ _ _ hm hne => refuse_appendColumn_dup hm hne, fun _ _ _ _ h => (createNamesTypes_spec h).2.1⟩

/-- **negative, repeated and unordered row indices of `write_rows`**: every entry is normalised (`-n ≤ i < 0`
    addresses row `n + i`: `ReadBack` is stated through `readRow`, which normalises the same way); a list that
    is not strictly increasing after normalisation — unordered, or one row named twice, also as `i` and `i - n` —
    is refused and nothing is written -/
theorem C16_refuses_unordered_rows (f : Frame) (rows : List (List Val)) (idx : List Int) (ks : List Nat)
    (hn : normList f.rows.length idx = .ok ks) (hi : increasing ks = false) :
    ∃ e, step f (.writeRows rows idx) = (f, some e) := refuse_writeRows_unordered hn hi

/-- **a cell the column's type refuses is refused**, by `write_cell` (both forms) and by `write_column`, which
    converts every cell before the first row is written (fix 2f1693f) -/
theorem C16_refuses_unfit_cell (f : Frame) :
    (∀ cell ri ci r c ct e, normIdx f.rows.length ri = some r → normIdx f.cols.length ci = some c →
      f.cols[c]? = some ct → conv ct.2 cell = .error e → step f (.writeCellPos cell [ri, ci]) = (f, some e)) ∧
    (∀ cell nm ri r c ct e, normIdx f.rows.length ri = some r → findCol f.cols nm = some c →
      f.cols[c]? = some ct → conv ct.2 cell = .error e → step f (.writeCellName cell nm ri) = (f, some e)) ∧
    (∀ col index name c ct, col.length = f.rows.length → colTarget f index name = some c → f.cols[c]? = some ct →
      (∃ v ∈ col, ∃ e, conv ct.2 v = .error e) → ∃ e, step f (.writeColumn col index name) = (f, some e)) :=
  ⟨fun _ _ _ _ _ _ _ hr hc hct he => refuse_writeCellPos_cell hr hc hct he,
   fun _ _ _ _ _ _ _ hr hc hct he => refuse_writeCellName_cell hr hc hct he,
   fun _ _ _ _ _ hl hc hct hb => refuse_writeColumn_cell hl hc hct hb⟩

/-- **a number an integer column cannot hold is refused by every write**: for every integer column type and every
    number outside its range (300 or -1 for a `uint8` column, …) the conversion refuses it, and so does every write
    that carries it — a row appended or overwritten (lists of cells or a structured array), an appended column of
    that type, a cell or column overwritten — leaving the table unchanged.  (Until `fix:` ac50c5b NumPy scalars,
    arrays and structured arrays were cast without a range check: `write_column([300, 5])` stored 44.) -/
theorem C16_refuses_out_of_range_number (f : Frame) (t : ColType) (lo hi n : Int) (ht : t.range = some (lo, hi))
    (hn : n < lo ∨ hi < n) :
    conv t (.int n) = .error .valueError ∧
    (∀ rows, (∃ r ∈ rows, ∃ j : Nat, f.types[j]? = some t ∧ r[j]? = some (.int n)) →
      (∃ e, step f (.appendRows rows) = (f, some e)) ∧ ∀ idx, ∃ e, step f (.writeRows rows idx) = (f, some e)) ∧
    (∀ r : RecArray, (∃ row ∈ r.rows, ∃ j : Nat, f.types[j]? = some t ∧ row[j]? = some (.int n)) →
      ∃ e, stepR f (.appendRowsRec r) = (f, some e)) ∧
    (∀ col name, Val.int n ∈ col → ∃ e, step f (.appendColumn col name (some t)) = (f, some e)) ∧
    (∀ ri ci r c name, normIdx f.rows.length ri = some r → normIdx f.cols.length ci = some c →
      f.cols[c]? = some (name, t) → step f (.writeCellPos (.int n) [ri, ci]) = (f, some .valueError)) ∧
    (∀ col index name c nm, col.length = f.rows.length → colTarget f index name = some c →
      f.cols[c]? = some (nm, t) → Val.int n ∈ col → ∃ e, step f (.writeColumn col index name) = (f, some e)) := by
  have hc := conv_out_of_range ht n hn
  refine ⟨hc, ?_, ?_, ?_, ?_, ?_⟩
  · intro rows ⟨r, hr, j, h1, h2⟩
    exact ⟨refuse_appendRows_cell ⟨r, hr, j, t, _, _, h1, h2, hc⟩,
      fun idx => refuse_writeRows_cell ⟨r, hr, j, t, _, _, h1, h2, hc⟩⟩
  · intro r ⟨row, hr, j, h1, h2⟩
    exact refuse_appendRows_cell (rows := r.tuples) ⟨row, hr, j, t, _, _, h1, h2, hc⟩
  · intro col name hm
    exact refuse_appendColumn_cell ⟨_, hm, _, hc⟩
  · intro ri ci r c name hr hcn hct
    exact refuse_writeCellPos_cell hr hcn hct hc
  · intro col index name c nm hl hcol hct hm
    exact refuse_writeColumn_cell hl hcol hct ⟨_, hm, _, hc⟩

-- ---------------------------------------------------------------------------------------
-- creation variants, units

/-- **the schema each creation variant derives**: `col_dict` and structured array: the given columns (NumPy's
    dtype of them: unnamed fields become `f<k>`, proper names are kept as they are); `col_names + col_dtypes`:
    distinct names zipped with at least as many types; `col_names + data`: the Python types of the first row's
    cells.  Every variant: at least one column, no units, the column types in the given order -/
theorem C16_creation_schema :
    (∀ cols data f, createDict cols data = .ok f →
      mkDtype cols = .ok f.cols ∧ f.cols ≠ [] ∧ f.units = none ∧ f.types = cols.map (·.2) ∧
      ((∀ c ∈ cols, c.1 ≠ "") → f.cols = cols)) ∧
    (∀ names types data f, createNamesTypes names types data = .ok f →
      names.length ≤ types.length ∧ hasDup names = false ∧ f.cols ≠ [] ∧ f.units = none ∧
      f.types = (names.zip types).map (·.2) ∧ ((∀ n ∈ names, n ≠ "") → f.cols = names.zip types)) ∧
    (∀ names data f, createNamesData names data = .ok f →
      ∃ r rs, data = some (r :: rs) ∧ names.length ≤ r.length ∧
        f.types = (names.zip (r.map typeOfVal)).map (·.2)) ∧
    (∀ cols data f, createStruct cols data = .ok f →
      data ≠ [] ∧ mkDtype cols = .ok f.cols ∧ f.types = cols.map (·.2) ∧ f.units = none) := by
  refine ⟨?_, ?_, ?_, ?_⟩
  · intro cols data f h
    obtain ⟨h1, h2, h3, h4, _⟩ := createWith_spec h
    exact ⟨h1, h2, h3, h4, createWith_cols h⟩
  · intro names types data f h
    obtain ⟨h1, h2, h3⟩ := createNamesTypes_spec h
    obtain ⟨_, g2, g3, g4, _⟩ := createWith_spec h3
    refine ⟨h1, h2, g2, g3, g4, ?_⟩
    intro hn
    apply createWith_cols h3
    intro c hc
    exact hn c.1 (List.of_mem_zip hc).1
  · intro names data f h
    obtain ⟨r, rs, hd, h2⟩ := createNamesData_spec h
    obtain ⟨h1, _, h3⟩ := createNamesTypes_spec h2
    obtain ⟨_, _, _, g4, _⟩ := createWith_spec h3
    exact ⟨r, rs, hd, by simpa using h1, g4⟩
  · intro cols data f h
    obtain ⟨h1, h2⟩ := createStruct_spec h
    obtain ⟨g1, _, g3, g4, _⟩ := createWith_spec h2
    exact ⟨h1, g1, g4, g3⟩

/-- **what was written at creation is read back**: in every variant the table has one row per data row, and
    `read_rows(k)` returns the k-th data row converted to the column types (the identity on well-typed rows) -/
theorem C16_created_reads_back :
    (∀ cols rows f, createDict cols (some rows) = .ok f →
      f.rows.length = rows.length ∧
      ∀ k (hk : k < rows.length), ∃ w, convRow f.types rows[k] = .ok w ∧ readRow f (k : Int) = .ok w) ∧
    (∀ names types rows f, createNamesTypes names types (some rows) = .ok f →
      f.rows.length = rows.length ∧
      ∀ k (hk : k < rows.length), ∃ w, convRow f.types rows[k] = .ok w ∧ readRow f (k : Int) = .ok w) ∧
    (∀ names rows f, createNamesData names (some rows) = .ok f →
      f.rows.length = rows.length ∧
      ∀ k (hk : k < rows.length), ∃ w, convRow f.types rows[k] = .ok w ∧ readRow f (k : Int) = .ok w) ∧
    (∀ cols rows f, createStruct cols rows = .ok f →
      f.rows.length = rows.length ∧
      ∀ k (hk : k < rows.length), ∃ w, convRow f.types rows[k] = .ok w ∧ readRow f (k : Int) = .ok w) ∧
    (∀ cols f, createDict cols none = .ok f → f.rows = []) := by
  refine ⟨fun _ _ _ h => created_rows_read h, fun _ _ _ _ h => created_rows_read (createNamesTypes_spec h).2.2,
    ?_, fun _ _ _ h => created_rows_read (createStruct_spec h).2, fun _ _ h => (createWith_spec h).2.2.2.2.1 rfl⟩
  intro names rows f h
  obtain ⟨r, rs, hd, h2⟩ := createNamesData_spec h
  injection hd with hd
  subst hd
  exact created_rows_read (createNamesTypes_spec h2).2.2

/-- **`columns` and `units` agree**: after any history the unit `columns` lists for each column is the one `units`
    reports, None for every column when no units are set -/
theorem C16_columns_units (f0 : Frame) (hist : List Op) (hc : Created f0) :
    (columns (run f0 hist)).map (fun x => x.2.2) =
      match unitsOf (run f0 hist) with
      | some us => us
      | none => List.replicate (run f0 hist).cols.length none :=
  columns_units (wf_run (created_wf hc) hist)

-- ---------------------------------------------------------------------------------------
-- rows and tables handed over as NumPy structured arrays (`Pure/FrameRec.lean`)

/-- `f0` was returned by `create_data_frame` in one of its variants, the data given as a list of rows or as a
    structured array -/
inductive CreatedR : Frame → Prop where
  | lists {f} : Created f → CreatedR f
  | dictRec {cols r f} : createDictRec cols r = .ok f → CreatedR f
  | namesTypesRec {names types r f} : createNamesTypesRec names types r = .ok f → CreatedR f
  | namesRec {names r f} : createNamesRec names r = .ok f → CreatedR f
  | structRec {r f} : createStructRec r = .ok f → CreatedR f

theorem createdR_created {f : Frame} (h : CreatedR f) : Created f := by
  cases h with
  | lists h => exact h
  | dictRec h => exact Created.dict (createWithRec_ok h)
  | namesTypesRec h => exact Created.namesTypes (createNamesTypesRec_ok h)
  | namesRec h => exact Created.namesTypes (createNamesRec_ok h).2
  | structRec h => exact Created.struct h

/-- **rows given as a structured array are taken by position**: `append_rows` and `write_rows` (array of records,
    list of records, one record) store exactly what the same call with the records taken apart into tuples stores —
    so two structured arrays with the same cells in `dtype.names` order are stored alike whatever their field names
    (matching the column names, some or all renamed, the same names at other positions), field offsets and padding -/
theorem C16_record_rows_positional (f : Frame) (r r' : RecArray) (idx : List Int) (record : Row)
    (h : r.rows = r'.rows) :
    appendRowsRec f r = step f (.appendRows r.rows) ∧ writeRowsRec f r idx = step f (.writeRows r.rows idx) ∧
    writeRowVoid f record idx = step f (.writeRowFlat record idx) ∧
    appendRowsRec f r = appendRowsRec f r' ∧ writeRowsRec f r idx = writeRowsRec f r' idx := by
  refine ⟨rfl, rfl, rfl, ?_, ?_⟩
  · simp [appendRowsRec, RecArray.tuples, h]
  · simp [writeRowsRec, RecArray.tuples, h]

/-- **creation from a structured array is positional, too**: with `col_dict` or `col_names + col_dtypes` an accepted
    creation is the creation from the records taken apart into tuples (field names and layout play no role; a value
    a column cannot hold is refused as in a tuple, fix ac50c5b) and another number of fields than columns is refused; `col_names` alone takes the field types as column types; the
    array alone gives the columns its fields **in `dtype.names` order** (proper names kept as they are) whatever the
    byte offsets are, and `read_rows(k)` returns record `k` -/
theorem C16_record_creation_positional :
    (∀ cols r f, createDictRec cols r = .ok f → createDict cols (some r.rows) = .ok f) ∧
    (∀ names types r f, createNamesTypesRec names types r = .ok f →
      createNamesTypes names types (some r.rows) = .ok f) ∧
    (∀ names r f, createNamesRec names r = .ok f →
      r.rows ≠ [] ∧ createNamesTypes names r.types (some r.rows) = .ok f) ∧
    (∀ r f, createStructRec r = .ok f →
      mkDtype r.cols = .ok f.cols ∧ f.types = r.types ∧ ((∀ c ∈ r.cols, c.1 ≠ "") → f.cols = r.cols) ∧
      f.rows.length = r.rows.length ∧
      ∀ k (hk : k < r.rows.length), ∃ w, convRow f.types r.rows[k] = .ok w ∧ readRow f (k : Int) = .ok w) ∧
    (∀ cols c r, mkDtype cols = .ok c → (∃ row ∈ r.rows, row.length ≠ c.length) →
      ∃ e, createDictRec cols r = .error e) ∧
    (∀ r r', r.cols = r'.cols → r.rows = r'.rows → createStructRec r = createStructRec r') := by
  refine ⟨fun _ _ _ h => createWithRec_ok h, fun _ _ _ _ h => createNamesTypesRec_ok h,
    fun _ _ _ h => createNamesRec_ok h, ?_, fun _ _ _ hc hn => createWithRec_count hc hn, ?_⟩
  · intro r f h
    have h' : createStruct r.cols r.rows = .ok f := h
    obtain ⟨_, h2⟩ := createStruct_spec h'
    obtain ⟨g1, _, _, g4, _⟩ := createWith_spec h2
    obtain ⟨l1, l2⟩ := created_rows_read h2
    refine ⟨g1, ?_, fun hn => createWith_cols h2 hn, l1, l2⟩
    rw [g4]; simp [RecArray.cols, RecArray.types, List.map_map, Function.comp_def]
  · intro r r' h1 h2
    simp [createStructRec, RecArray.tuples, h1, h2]

/-- **every history theorem holds for histories that spell rows either way**: after any history of operations whose
    rows are lists of cells or structured arrays, from any creation variant with either kind of data, the reports
    describe the stored table, an accepted operation is read back (as the operation on the records taken apart by
    position), a refused one leaves the table unchanged and no operation changes a cell it does not address -/
theorem C16_record_histories (f0 : Frame) (hist : List OpR) (o : OpR) (hc : CreatedR f0) :
    Describes (runR f0 hist) ∧
    (∀ f', stepR (runR f0 hist) o = (f', none) → ReadBack (runR f0 hist) f' o.toOp) ∧
    (∀ e, (stepR (runR f0 hist) o).2 = some e → (stepR (runR f0 hist) o).1 = runR f0 hist) ∧
    (∀ r c, ¬ touched (runR f0 hist) o.toOp r c →
      (stepR (runR f0 hist) o).1.cell r c = (runR f0 hist).cell r c) := by
  have hc' := createdR_created hc
  rw [runR_eq, stepR_eq]
  exact ⟨C16_shape_consistent f0 _ hc', fun f' h => C16_read_what_written f0 _ _ f' hc' h,
    fun e h => C16_refused_unchanged f0 _ _ e h, fun r c h => C16_frame f0 _ _ r c hc' h⟩

-- ---------------------------------------------------------------------------------------
-- the table as it lies in the file (`Pure/FrameBytes.lean`): text cells are UTF-8 bytes; `append_column` and
-- `write_column` work on raw rows, every read and `write_cell` on rows converted by `_convert_string_cols`

/-- **the byte-level machine is the abstract frame**: from the stored form of any created frame, after any history,
    the byte-level state is the encoding of the abstract state, and the next operation — accepted or refused — again
    yields the encoding of the abstract result together with the same error.  (The driver runs the byte-level
    machine, so this is the theorem that lets the property theorems above speak about what the differential runs
    compare with the implementation.) -/
theorem C16_storage_simulates (f0 : Frame) (hist : List Op) (op : Op) (hc : Created f0) :
    srun (encFrame f0) hist = encFrame (run f0 hist) ∧
    sstep (srun (encFrame f0) hist) op = (encFrame (step (run f0 hist) op).1, (step (run f0 hist) op).2) := by
  have h := srun_enc (created_wf hc) hist
  exact ⟨h, by rw [h]; exact sstep_enc (wf_run (created_wf hc) hist) op⟩

/-- **every read converts the stored bytes back to what was written**: after any history, `frame[:]`, `read_rows`
    (int and list), `read_columns` (any selection and slice) and `read_cell` (both forms), computed on the stored
    bytes as the code does — raw selection, then `_convert_string_cols` on the single row or on every row — return
    exactly what the abstract reads return (which the theorems above prove to be what was written) -/
theorem C16_storage_reads (f0 : Frame) (hist : List Op) (hc : Created f0) :
    sReadAll (srun (encFrame f0) hist) = .ok (run f0 hist).rows ∧
    (∀ i, sReadRow (srun (encFrame f0) hist) i = readRow (run f0 hist) i) ∧
    (∀ idx, sReadRows (srun (encFrame f0) hist) idx = readRows (run f0 hist) idx) ∧
    (∀ sel lo hi, sReadColumns (srun (encFrame f0) hist) sel lo hi = readColumns (run f0 hist) sel lo hi) ∧
    (∀ pos, sReadCellPos (srun (encFrame f0) hist) pos = readCellPos (run f0 hist) pos) ∧
    (∀ name ri, sReadCellName (srun (encFrame f0) hist) name ri = readCellName (run f0 hist) name ri) := by
  have wf := wf_run (created_wf hc) hist
  rw [srun_enc (created_wf hc) hist]
  exact ⟨sReadAll_enc wf, sReadRow_enc wf, sReadRows_enc wf, sReadColumns_enc wf, sReadCellPos_enc wf,
    sReadCellName_enc wf⟩

/-- **`frame[name]`, `frame[lo:hi]` and grouped columns are the table**: `frame[name]` is the column called `name`
    (an unknown name is refused), `frame[lo:hi]` the rows `start … stop-1` of the clamped slice, and
    `read_columns(…, group_by_cols=True)` returns for the j-th requested column its cells in the rows of the slice —
    and each of them, computed on the stored bytes along the code's own branch of `read_data` (`frame[name]`: the
    string-array branch; slices: the row-by-row conversion), returns the same -/
theorem C16_getitem_is_table (f0 : Frame) (hist : List Op) (hc : Created f0) :
    (∀ name col, getField (run f0 hist) name = .ok col → ∃ c, findCol (run f0 hist).cols name = some c ∧
      col.length = (run f0 hist).rows.length ∧ ∀ r, r < (run f0 hist).rows.length → (run f0 hist).cell r c = col[r]?) ∧
    (∀ name, findCol (run f0 hist).cols name = none → getField (run f0 hist) name = .error .indexError) ∧
    (∀ lo hi r, r < (getSlice (run f0 hist) lo hi).length →
      (getSlice (run f0 hist) lo hi)[r]? = (run f0 hist).rows[sliceStart (run f0 hist).rows.length lo + r]?) ∧
    (∀ ks lo hi cols, ks.length ≠ 1 → readColumnsGrouped (run f0 hist) (.ok ks) lo hi = .ok cols →
      cols.length = ks.length ∧ ∀ j (hj : j < ks.length), ∃ col, cols[j]? = some col ∧
        col.length = (sliceList (run f0 hist).rows lo hi).length ∧
        ∀ r, r < col.length → (run f0 hist).cell (sliceStart (run f0 hist).rows.length lo + r) ks[j] = col[r]?) ∧
    (∀ name, sGetField (srun (encFrame f0) hist) name = getField (run f0 hist) name) ∧
    (∀ lo hi, sGetSlice (srun (encFrame f0) hist) lo hi = .ok (getSlice (run f0 hist) lo hi)) ∧
    (∀ sel lo hi, sReadColumnsGrouped (srun (encFrame f0) hist) sel lo hi =
      readColumnsGrouped (run f0 hist) sel lo hi) := by
  have wf := wf_run (created_wf hc) hist
  rw [srun_enc (created_wf hc) hist]
  refine ⟨fun _ _ h => getField_spec h, ?_, fun _ _ _ h => sliceList_get_lt h,
    fun _ _ _ _ hk h => readColumnsGrouped_spec hk h, sGetField_enc wf, sGetSlice_enc wf,
    sReadColumnsGrouped_enc wf⟩
  intro name h
  simp [getField, h]

/-- **the roll-back handlers restore the table**: `append_rows`, `write_column` and `append_column` modelled effect
    by effect (`Pure/FrameFx.lean`: NumPy's conversion, then the storage effects — dataset enlarged / rows rewritten
    one by one / `data.new` built beside the table — then h5py's refusal of a non-string object in a text column and
    the handler that undoes the effects) end, after any history, in exactly the state the atomic model gives: the
    encoding of the abstract result when accepted, the table as it was when refused (whatever the failed write left
    in the enlarged region), never a `data.new` left behind; and they are accepted exactly when the abstract
    operation is.  (Formerly an assumption: "refused up front, same observable outcome".) -/
theorem C16_rollbacks_restore (f0 : Frame) (hist : List Op) (hc : Created f0) :
    (∀ rows junk,
      (fxAppendRows (srun (encFrame f0) hist) rows junk).1 = encFrame (step (run f0 hist) (.appendRows rows)).1 ∧
      ((fxAppendRows (srun (encFrame f0) hist) rows junk).2 = none ↔ (step (run f0 hist) (.appendRows rows)).2 = none) ∧
      ((fxAppendRows (srun (encFrame f0) hist) rows junk).2 ≠ none →
        (fxAppendRows (srun (encFrame f0) hist) rows junk).1 = srun (encFrame f0) hist)) ∧
    (∀ col index name,
      (fxWriteColumn (srun (encFrame f0) hist) col index name).1 =
        encFrame (step (run f0 hist) (.writeColumn col index name)).1 ∧
      ((fxWriteColumn (srun (encFrame f0) hist) col index name).2 = none ↔
        (step (run f0 hist) (.writeColumn col index name)).2 = none) ∧
      ((fxWriteColumn (srun (encFrame f0) hist) col index name).2 ≠ none →
        (fxWriteColumn (srun (encFrame f0) hist) col index name).1 = srun (encFrame f0) hist)) ∧
    (∀ col name dt,
      (fxAppendColumn ⟨srun (encFrame f0) hist, none⟩ col name dt).1.data =
        encFrame (step (run f0 hist) (.appendColumn col name dt)).1 ∧
      (fxAppendColumn ⟨srun (encFrame f0) hist, none⟩ col name dt).1.dataNew = none ∧
      ((fxAppendColumn ⟨srun (encFrame f0) hist, none⟩ col name dt).2 = none ↔
        (step (run f0 hist) (.appendColumn col name dt)).2 = none) ∧
      ((fxAppendColumn ⟨srun (encFrame f0) hist, none⟩ col name dt).2 ≠ none →
        (fxAppendColumn ⟨srun (encFrame f0) hist, none⟩ col name dt).1.data = srun (encFrame f0) hist)) := by
  have wf := wf_run (created_wf hc) hist
  have hs := srun_enc (created_wf hc) hist
  -- a refused abstract step returns the frame unchanged
  have unchanged : ∀ op, (step (run f0 hist) op).2 ≠ none → (step (run f0 hist) op).1 = run f0 hist := by
    intro op h
    cases he : (step (run f0 hist) op).2 with
    | none => exact absurd he h
    | some e => exact C16_refused_unchanged f0 hist op e he
  refine ⟨?_, ?_, ?_⟩
  · intro rows junk
    obtain ⟨h1, h2⟩ := fxAppendRows_eq (srun (encFrame f0) hist) rows junk
    have hstep := sstep_enc wf (.appendRows rows)
    simp only [sstep] at hstep
    rw [hs] at h1 h2 ⊢
    rw [hstep] at h1 h2
    refine ⟨h1, h2, ?_⟩
    intro hne
    rw [h1, unchanged _ (fun h => hne (h2.2 h))]
  · intro col index name
    obtain ⟨h1, h2⟩ := fxWriteColumn_eq (srun (encFrame f0) hist) col index name
    have hstep := sstep_enc wf (.writeColumn col index name)
    simp only [sstep] at hstep
    rw [hs] at h1 h2 ⊢
    rw [hstep] at h1 h2
    refine ⟨h1, h2, ?_⟩
    intro hne
    rw [h1, unchanged _ (fun h => hne (h2.2 h))]
  · intro col name dt
    obtain ⟨h1, h2, h3⟩ := fxAppendColumn_eq (srun (encFrame f0) hist) col name dt
    have hstep := sstep_enc wf (.appendColumn col name dt)
    simp only [sstep] at hstep
    rw [hs] at h1 h2 h3 ⊢
    rw [hstep] at h1 h3
    refine ⟨h1, h2, h3, ?_⟩
    intro hne
    rw [h1, unchanged _ (fun h => hne (h3.2 h))]

/-- **no write stores anything before both conversion stages have passed, and a creation that h5py refuses leaves no
    frame behind**: `write_rows` in its two stages (NumPy's conversion, h5py's acceptance of the text cells) ends in
    the atomic model's state; `create_data_frame` effect by effect on the block (name check, NumPy's conversion
    before anything is created, the half-built frame `DataFrame.create_new` makes, `write_direct`, the handler that
    deletes the half-built frame) ends in the block the atomic creation gives — the block as it was when refused;
    and one cell converts in one step exactly when it passes both stages -/
theorem C16_two_stage_writes :
    (∀ s rows idx, (fxWriteRows s rows idx).1 = (sWriteRows s rows idx).1 ∧
      ((fxWriteRows s rows idx).2 = none ↔ (sWriteRows s rows idx).2 = none)) ∧
    (∀ b name cols data,
      (fxBlkCreate b name cols data).1 = (blkCreate b name (sCreated (createWith cols data))).1 ∧
      ((fxBlkCreate b name cols data).2 = none ↔ (blkCreate b name (sCreated (createWith cols data))).2 = none) ∧
      ((fxBlkCreate b name cols data).2 ≠ none → (fxBlkCreate b name cols data).1 = b)) ∧
    (∀ t v w, conv t v = .ok w ↔ (convNp t v = .ok w ∧ h5Ok t w = true)) := by
  refine ⟨fxWriteRows_eq, ?_, fun _ _ _ => conv_two_stage⟩
  intro b name cols data
  obtain ⟨h1, h2⟩ := fxBlkCreate_eq b name cols data
  refine ⟨h1, h2, ?_⟩
  intro hne
  rw [h1]
  have hne' : (blkCreate b name (sCreated (createWith cols data))).2 ≠ none := fun h => hne (h2.2 h)
  unfold blkCreate at hne' ⊢
  split
  · rfl
  · rename_i hn
    simp only [hn, if_false] at hne'
    cases hm : sCreated (createWith cols data) with
    | error e => rfl
    | ok s => rw [hm] at hne'; exact absurd rfl hne'

/-- **text survives storage**: decoding the stored bytes of any string gives the string back, and the conversion
    of a stored cell of the column's type is that cell — for every string (non-ASCII, empty, any length) -/
theorem C16_text_roundtrip (s : String) (t : ColType) (v : Val) :
    ensureStr s.toUTF8 = .ok (.str s) ∧ (wellTyped t v = true → convStringCell t (enc v) = .ok v) :=
  ⟨ensureStr_toUTF8 s, convStringCell_enc⟩

-- ---------------------------------------------------------------------------------------
-- the frames of a block (`Pure/FrameBlock.lean`)

/-- **frames are independent**: an operation on the frame called `name` — any `DataFrame` operation, accepted or
    refused — leaves every other frame of the block and the set of names as they were, and does to the addressed
    frame exactly what the single-frame model says -/
theorem C16_block_frames_independent (b : Blk) (name : String) (g : SFrame → SFrame × Option Err) :
    (∀ other, other ≠ name → (blkUpdate b name g).1.find other = b.find other) ∧
    (blkUpdate b name g).1.names = b.names ∧
    (∀ s, b.find name = some s →
      (blkUpdate b name g).1.find name = some (g s).1 ∧ (blkUpdate b name g).2 = (g s).2) := by
  refine ⟨?_, ?_, ?_⟩
  · intro other h
    unfold blkUpdate
    cases hf : b.find name with
    | none => rfl
    | some s => exact lookup_replace_ne h b.frames
  · unfold blkUpdate
    cases hf : b.find name with
    | none => rfl
    | some s => exact replace_names b.frames
  · intro s hs
    unfold blkUpdate
    rw [hs]
    exact ⟨lookup_replace_self hs, rfl⟩

/-- **creation under a name**: a name that exists is refused with DuplicateName whatever else is wrong with the
    call, and nothing changes; a creation refused for any other reason leaves no frame behind; an accepted one adds
    exactly the new frame under its name and leaves every other frame as it was -/
theorem C16_block_create (b : Blk) (name : String) (made : Except Err SFrame) :
    (name ∈ b.names → blkCreate b name made = (b, some .duplicateName)) ∧
    (∀ e, made = .error e → (blkCreate b name made).1 = b ∧ (blkCreate b name made).2 ≠ none) ∧
    (∀ s, name ∉ b.names → made = .ok s →
      (blkCreate b name made).2 = none ∧ (blkCreate b name made).1.find name = some s ∧
      ∀ other, other ≠ name → (blkCreate b name made).1.find other = b.find other) := by
  refine ⟨fun h => by simp [blkCreate, h], ?_, ?_⟩
  · intro e he
    subst he
    unfold blkCreate
    split <;> simp
  · intro s hn hm
    subst hm
    have hc : blkCreate b name (.ok s) = (⟨b.frames ++ [(name, s)]⟩, none) := by simp [blkCreate, hn]
    rw [hc]
    exact ⟨rfl, lookup_append_new b.frames hn, fun other h => lookup_append_ne (Ne.symm h) b.frames⟩

/-- **a copy is a frame of its own**: `create_data_frame(name, copy_from=frame)` under a free name gives a frame that
    holds the same table; every other frame is as it was; and whatever is done to the copy afterwards, the source
    still holds its table (and the other way round) -/
theorem C16_block_copy (b : Blk) (src name : String) (s : SFrame) (hs : b.find src = some s)
    (hn : name ∉ b.names) :
    (blkCopy b src name).2 = none ∧ (blkCopy b src name).1.find name = some s ∧
    (∀ other, other ≠ name → (blkCopy b src name).1.find other = b.find other) ∧
    (∀ g, (blkUpdate (blkCopy b src name).1 name g).1.find src = some s) ∧
    (∀ g, (blkUpdate (blkCopy b src name).1 src g).1.find name = some s) ∧
    (∀ taken, taken ∈ b.names → blkCopy b src taken = (b, some .duplicateName)) := by
  have hne : src ≠ name := fun e => hn (e ▸ lookup_mem hs)
  have hc : blkCopy b src name = (⟨b.frames ++ [(name, s)]⟩, none) := by simp [blkCopy, hs, hn]
  have h2 : (blkCopy b src name).1.find name = some s := by
    rw [hc]; exact lookup_append_new b.frames hn
  have h3 : ∀ other, other ≠ name → (blkCopy b src name).1.find other = b.find other := by
    intro other h; rw [hc]; exact lookup_append_ne (Ne.symm h) b.frames
  refine ⟨by rw [hc], h2, h3, ?_, ?_, ?_⟩
  · intro g
    rw [(C16_block_frames_independent _ name g).1 src hne, h3 src hne, hs]
  · intro g
    rw [(C16_block_frames_independent _ src g).1 name (Ne.symm hne), h2]
  · intro taken ht
    simp [blkCopy, hs, ht]

-- ---------------------------------------------------------------------------------------
-- the shape of the source (regenerated from nixio/data_frame.py and block.py on every run)

/-- **DataFrame objects carry no state**: no method other than `__init__` assigns an object field and no method
    reads one — the premise of the model's one table per frame whatever object is used.  (A per-object cache of
    the schema, the row count or the dataset breaks this theorem; the oracle then reads through several live
    objects of one frame to find the stale answer.) -/
theorem C16_handles_stateless :
    Nix.Generated.FrameShape.slotWrites = [] ∧ Nix.Generated.FrameShape.slotReads = [] := ⟨rfl, rfl⟩

/-- the `if …: raise …` guards of every modelled method are the ones the model was written against, in order -/
theorem C16_guards_as_modelled : Nix.Generated.FrameShape.guards = Nix.Frame.Shape.guards := rfl

/-- helper calls and dataset accesses of every modelled method are the ones the model was written against:
    conversions before writes, `H5Group.create_dataset` + `write_data` for the rebuilt dataset, the dataset
    looked up in the file on every schema read -/
theorem C16_calls_as_modelled : Nix.Generated.FrameShape.calls = Nix.Frame.Shape.calls := rfl

/-- the read path of every DataFrame read — `DataSet.__getitem__`, `_read_data`, `H5DataSet.read_data` and
    `_convert_string_cols` — is, statement by statement, the code `Pure/FrameBytes.lean` models (selection, then the
    conversion of the text fields: single row / row by row / one-field selection) -/
theorem C16_read_path_as_modelled : Nix.Generated.FrameShape.storage = Nix.Frame.Shape.storage := rfl

-- ---------------------------------------------------------------------------------------
-- non-vacuity: a concrete created frame, accepted and refused operations

def exFrame : Frame :=
  ⟨[("a", .i8), ("s", .text)], [[.int 1, .str "x"], [.int 2, .str "y"]], none⟩

theorem exFrame_created :
    createDict [("a", .i8), ("s", .text)] (some [[.int 1, .str "x"], [.int 2, .str "y"]]) = .ok exFrame := by
  rfl
example : Created exFrame := Created.dict exFrame_created
/-- column index 0 is writable (D18), and the write is read back -/
example : (step exFrame (.writeColumn [.int 7, .int 8] (some 0) none)).2 = none ∧
    (step exFrame (.writeColumn [.int 7, .int 8] (some 0) none)).1.cell 1 0 = some (.int 8) := by decide
/-- append_rows after append_column is accepted (D19) and units follow the columns -/
example : (run exFrame [.setUnits [some "mV", none], .appendColumn [.bool true, .bool false] "flag" none,
    .appendRows [[.int 3, .str "z", .bool true]]]).rows.length = 3 ∧
    (run exFrame [.setUnits [some "mV", none], .appendColumn [.bool true, .bool false] "flag" none]).units
      = some [some "mV", none, none] := by decide
/-- refusals: out-of-range row, unknown column, wrong length, duplicate column name, overflow -/
example : (step exFrame (.writeRows [[.int 1, .str "q"]] [2])).2 = some .outOfBounds := by decide
example : (step exFrame (.writeColumn [.int 1, .int 2] none (some "nope"))).2 = some .valueError := by decide
example : (step exFrame (.appendRows [[.int 1]])).2 = some .valueError := by decide
example : (step exFrame (.appendColumn [.int 1, .int 2] "a" (some .i64))).2 = some .valueError := by decide
example : (step exFrame (.writeCellPos (.int 300) [0, 0])).2 = some .valueError := by decide
/-- `write_column` is all-or-nothing: a refused cell in row 1 leaves row 0 as it was (fix 2f1693f) -/
example : step exFrame (.writeColumn [.int 5, .str "x"] (some 0) none) = (exFrame, some .valueError) := by decide

/-- negative and repeated addresses: `[-1, 1]` names row 1 twice on a two-row table and is refused; `[0, -1]` is
    rows 0 and 1 -/
example : (step exFrame (.writeRows [[.int 1, .str "q"], [.int 2, .str "r"]] [-1, 1])).2 = some .typeError ∧
    (step exFrame (.writeRows [[.int 1, .str "q"], [.int 2, .str "r"]] [0, -1])).1.rows
      = [[.int 1, .str "q"], [.int 2, .str "r"]] := by decide
example : normList exFrame.rows.length [-1, 1] = .ok [1, 1] ∧ increasing [1, 1] = false := ⟨rfl, rfl⟩
/-- the read paths agree on a concrete frame -/
example : readCellPos exFrame [-1, 0] = .ok (.int 2) ∧ readCellName exFrame "a" 1 = .ok (.int 2) ∧
    readColumns exFrame (colsByIndex 2 [1, 0]) (some 1) none = .ok [[.str "y", .int 2]] ∧
    readRows exFrame [0, -1] = .ok exFrame.rows := ⟨rfl, rfl, rfl, rfl⟩
/-- duplicate name / unknown column / wrong cell refusals have instances -/
example : "a" ∈ exFrame.names ∧ findCol exFrame.cols "nope" = none ∧ conv .i8 (.int 300) = .error .valueError :=
  ⟨by decide, by decide, rfl⟩
example : (step exFrame (.appendColumn [.flt 1, .flt 2] "x" none)).1.cols = exFrame.cols ++ [("x", .f64)] := by decide
/-- creation variants on concrete input -/
example : (createNamesData ["n", "t"] (some [[.int 1, .str "x"]])).map (·.cols) = .ok [("n", .i64), ("t", .text)] ∧
    (createNamesTypes ["a", "a"] [.i8, .i8] none).toOption = none ∧
    (createStruct [("a", .i8)] []).toOption = none := ⟨rfl, rfl, rfl⟩

/-- a structured array whose field names differ from the column names and whose second field lies first in memory:
    the appended row is the record by position; created alone, its fields become the columns in `dtype.names` order -/
def exRec : RecArray := ⟨[("a", .i8, 8), ("label", .text, 0)], [[.int 3, .str "z"]]⟩
example : (appendRowsRec exFrame exRec).1.rows = exFrame.rows ++ [[.int 3, .str "z"]] ∧
    (writeRowsRec exFrame exRec [-1]).1.rows = [[.int 1, .str "x"], [.int 3, .str "z"]] := by decide
example : (createStructRec exRec).map (·.cols) = .ok [("a", .i8), ("label", .text)] ∧
    (createNamesRec ["p", "q"] exRec).map (·.cols) = .ok [("p", .i8), ("q", .text)] ∧
    createDictRec [("k", .i8)] exRec = .error .valueError := ⟨rfl, rfl, rfl⟩
example : CreatedR exFrame := CreatedR.lists (Created.dict exFrame_created)
example : (stepR exFrame (.appendRowsRec ⟨[("a", .i8, 0)], [[.int 3]]⟩)).2 = some .valueError := by decide

example : getField exFrame "s" = .ok [.str "x", .str "y"] ∧ getSlice exFrame (some (-1)) none = [[.int 2, .str "y"]] ∧
    readColumnsGrouped exFrame (.ok [1, 1]) none none = .ok [[.str "x", .str "y"], [.str "x", .str "y"]] ∧
    getField exFrame "nope" = .error .indexError := ⟨rfl, rfl, rfl, rfl⟩
/-- a non-string object offered to a text column passes NumPy's stage and is refused by h5py's: the enlarged
    dataset is shrunk back / the rewritten rows are restored -/
example : convNp .text (.int 5) = .ok (.int 5) ∧ h5Ok .text (.int 5) = false ∧
    (fxAppendRows (encFrame exFrame) [[.int 3, .int 5]] []).2 = some .typeError ∧
    (fxAppendRows (encFrame exFrame) [[.int 3, .int 5]] []).1.rows.length = 2 ∧
    (fxWriteColumn (encFrame exFrame) [.str "p", .int 5] none (some "s")).2 = some .typeError := by
  refine ⟨rfl, rfl, rfl, rfl, rfl⟩
/-- 300 and -1 are refused by a `uint8` column in every spelling -/
example : conv .u8 (.int 300) = .error .valueError ∧ conv .u8 (.int (-1)) = .error .valueError ∧
    conv .u8 (.int 256) = .error .valueError ∧ conv .u8 (.int 255) = .ok (.int 255) := ⟨rfl, rfl, rfl, rfl⟩
/-- the stored form of the example frame holds bytes; the byte-level reads convert them back -/
example : sReadRow (encFrame exFrame) (-1) = .ok [.int 2, .str "y"] ∧
    sReadCellName (encFrame exFrame) "s" 0 = .ok (.str "x") := by
  have wf := created_wf (Created.dict exFrame_created)
  rw [sReadRow_enc wf, sReadCellName_enc wf]
  exact ⟨rfl, rfl⟩
/-- a text field that does not hold valid UTF-8 is refused by the conversion; bytes in a numeric field are, too -/
example : convStringCell .i8 (.bytes "x".toUTF8) = .error .typeError := rfl

end Nix.C16
