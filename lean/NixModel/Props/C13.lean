import NixModel.Lemmas.C13Shape
import NixModel.Lemmas.C13Ids
import NixModel.Lemmas.C13Supplied
import NixModel.Lemmas.C13IdsRef
import NixModel.Lemmas.C13IdsRel
import NixModel.Lemmas.C13Hist
import NixModel.Generated.FindShape
import NixModel.Generated.IdLookup

/-!
# C13 — tree searches, parents and 'referring' lists reflect the stored structure

Model: `NixModel/Pure/Tree.lean` (the code of util/find.py, Section.parent, Source.parent_source /
_find_parent_recursive / parent_block, Section.referring_*, Source.referring_* as it is in /repo now,
i.e. after the four `fix:` commits for the defects D8).  Specification vocabulary
(`NixModel/Lemmas/C13Find.lean`, `C13File.lean`):

* `levels m rs`   — the first `m` levels below the roots `rs`, breadth first, children in container order;
* `AtDepth d r x` — `x` lies `d` ownership steps below `r`;
* `Root.members`, `Root.base` — where a search starts and the depth the code gives its members
  (a section/source searched from itself: depth 0; the top level of a File or Block: depth 1);
* `WF f`          — ids unique in the file, below the id supply; cached `_sec_parent`s are the owners;
* `Reachable f`   — `f` is the result of some history of create / link / unlink / delete / reopen / copy_section
                    (id-renewing, deep or shallow, anywhere — also into the copied section's own subtree) operations.
-/

namespace Nix.C13
open Nix.Tree

/-- **Search = breadth-first enumeration within the depth limit, filtered.**  For every forest, every
filter and every limit the fifo loop of `util/find.py` returns exactly the level-order listing of the
entities whose depth (counted as the code counts it) is at most `limit`, restricted to the filter. -/
theorem find_bfs (root : Root) (filt : Node → Bool) (limit : Nat) :
    findFrom root filt (some limit) = (levels (limit + 1 - root.base) root.members).filter filt :=
  findFrom_some root filt limit

/-- the same, member by member: an entity is returned iff it satisfies the filter and lies at a depth
`d ≤ limit` below the root of the search -/
theorem find_mem (root : Root) (filt : Node → Bool) (limit : Nat) (x : Node) :
    x ∈ findFrom root filt (some limit) ↔
      filt x = true ∧ ∃ r ∈ root.members, ∃ i, AtDepth i r x ∧ i + root.base ≤ limit := by
  rw [find_bfs, List.mem_filter, mem_levels]
  constructor
  · rintro ⟨⟨i, hi, hx⟩, hf⟩
    obtain ⟨r, hr, hd⟩ := (mem_level i _).mp hx
    exact ⟨hf, r, hr, i, hd, by cases root <;> simp [Root.base] at hi ⊢ <;> omega⟩
  · rintro ⟨hf, r, hr, i, hd, hi⟩
    exact ⟨⟨i, by cases root <;> simp [Root.base] at hi ⊢ <;> omega, (mem_level i _).mpr ⟨r, hr, hd⟩⟩, hf⟩

/-- **each once**: with unique ids below the root no entity is returned twice (any limit, also `None`) -/
theorem find_once (root : Root) (filt : Node → Bool) (limit : Option Nat)
    (h : (keysL root.members).Nodup) : ((findFrom root filt limit).map Node.key).Nodup := by
  have key : ∀ l, ((findFrom root filt (some l)).map Node.key).Nodup := by
    intro l
    rw [find_bfs]
    exact (List.Sublist.map _ List.filter_sublist).nodup (levels_nodup _ _ h)
  cases limit with
  | none => rw [findFrom_none]; exact key _
  | some l => exact key l

/-- **without a limit: the whole subtree.**  `limit=None` (and every limit that is at least the height)
returns all levels, i.e. a permutation-free listing of every entity below the root that passes the filter.
Hypothesis: the tree is not higher than `sys.maxsize`. -/
theorem find_unlimited (root : Root) (filt : Node → Bool) (h : heightL root.members + root.base ≤ maxsize + 1) :
    findFrom root filt none = (levels (heightL root.members) root.members).filter filt ∧
    ∀ x, x ∈ findFrom root filt none ↔ filt x = true ∧ x ∈ nodesL root.members := by
  have e : findFrom root filt none = (levels (heightL root.members) root.members).filter filt := by
    rw [findFrom_none, find_bfs, levels_of_height _ _ (by omega)]
  refine ⟨e, fun x => ?_⟩
  rw [e, List.mem_filter, (levels_perm _ _ (Nat.le_refl _)).mem_iff, and_comm]

/-- **every history leads to a well-formed file**: whatever sequence of create / set or delete metadata /
link / unlink source / delete / reopen / copy_section(keep_id=False) operations is applied to the empty file (refused operations change
nothing), ids stay unique and every `_sec_parent` held by a creation handle is the owner's id -/
theorem reachable_wf (f : File) (h : Reachable f) : WF f := wf_of_reachable h

/-- **`Section.parent` is the containing section** (none at the top level), through the handle
`create_section` returned (cached `_sec_parent`) as well as through any re-fetched or link-reached handle,
in every well-formed file (`reachable_wf`: every state a history can produce) — also when names repeat, also after reopen (an operation of the history). -/
theorem parent (f : File) (h : WF f) (useCache : Bool) :
    (∀ x ∈ f.sections, sectionParent f x.key useCache = .ok none) ∧
    (∀ p ∈ nodesL f.sections, ∀ x ∈ p.children, sectionParent f x.key useCache = .ok (some p.key)) :=
  ⟨fun _ hx => sectionParent_root h hx useCache,
   fun _ hp _ hx => sectionParent_child h hp hx useCache⟩

/-- **`Source.parent_source` is the containing source** (none for the sources of the block itself) -/
theorem parent_source (f : File) (h : WF f) (b : Block) (hb : b ∈ f.blocks) :
    (∀ x ∈ b.sources, sourceParent f x.key = .ok none) ∧
    (∀ p ∈ nodesL b.sources, ∀ x ∈ p.children, sourceParent f x.key = .ok (some p.key)) :=
  ⟨fun _ hx => sourceParent_root h hb hx,
   fun _ hp _ hx => sourceParent_child h hb hp hx⟩

/-- **`Source.parent_block` is the block whose source tree contains the source**, at any depth -/
theorem parent_block (f : File) (h : WF f) (b : Block) (hb : b ∈ f.blocks) :
    ∀ x ∈ nodesL b.sources, parentBlock f x.key = .ok b.key :=
  fun _ hx => parentBlock_eq h hb hx

/-- **referring lists of a section = inverse of the stored metadata links**, kind by kind, and
`referring_objects` is their union (blocks, groups, data arrays, tags, multi-tags; sources below) -/
theorem referring_inverse (f : File) (k k' : Nat) :
    (k' ∈ refBlocks f k ↔ ∃ b ∈ f.blocks, b.key = k' ∧ b.md = some k) ∧
    (∀ kind, k' ∈ refHolders f kind k ↔
      ∃ b ∈ f.blocks, ∃ h ∈ b.holders, h.kind = kind ∧ h.key = k' ∧ h.md = some k) ∧
    (k' ∈ refObjects f k ↔ k' ∈ refBlocks f k ∨ (∃ kind, k' ∈ refHolders f kind k) ∨ k' ∈ refSources f k) := by
  refine ⟨mem_refBlocks, fun _ => mem_refHolders, ?_⟩
  simp only [refObjects, List.mem_append]
  constructor
  · rintro (((((h | h) | h) | h) | h) | h)
    · exact .inl h
    · exact .inr (.inl ⟨_, h⟩)
    · exact .inr (.inl ⟨_, h⟩)
    · exact .inr (.inl ⟨_, h⟩)
    · exact .inr (.inl ⟨_, h⟩)
    · exact .inr (.inr h)
  · rintro (h | ⟨kind, h⟩ | h)
    · exact .inl (.inl (.inl (.inl (.inl h))))
    · cases kind
      · exact .inl (.inl (.inl (.inl (.inr h))))
      · exact .inl (.inl (.inl (.inr h)))
      · exact .inl (.inl (.inr h))
      · exact .inl (.inr h)
    · exact .inr h

/-- **`Section.referring_sources` = every source, at any depth of any block, whose metadata is the section** -/
theorem referring_sources_inverse (f : File) (hB : Bounded f) (k k' : Nat) :
    k' ∈ refSources f k ↔ ∃ b ∈ f.blocks, ∃ s ∈ nodesL b.sources, s.key = k' ∧ s.md = some k :=
  mem_refSources hB

/-- **referring lists of a source = inverse of the stored `sources` links** of the groups, data arrays,
tags and multi-tags of its block; `referring_objects` is their union -/
theorem source_referring_inverse (b : Block) (k k' : Nat) :
    (∀ kind, k' ∈ srcRefHolders b kind k ↔ ∃ h ∈ b.holders, h.kind = kind ∧ h.key = k' ∧ k ∈ h.srcs) ∧
    (k' ∈ srcRefObjects b k ↔ ∃ h ∈ b.holders, h.key = k' ∧ k ∈ h.srcs) := by
  refine ⟨fun _ => mem_srcRefHolders, ?_⟩
  simp only [srcRefObjects, List.mem_append, mem_srcRefHolders]
  constructor
  · rintro (((⟨h, hh, _, hk, hs⟩ | ⟨h, hh, _, hk, hs⟩) | ⟨h, hh, _, hk, hs⟩) | ⟨h, hh, _, hk, hs⟩) <;>
      exact ⟨h, hh, hk, hs⟩
  · rintro ⟨h, hh, hk, hs⟩
    cases hkind : h.kind
    · exact .inl (.inl (.inl ⟨h, hh, hkind, hk, hs⟩))
    · exact .inl (.inl (.inr ⟨h, hh, hkind, hk, hs⟩))
    · exact .inl (.inr ⟨h, hh, hkind, hk, hs⟩)
    · exact .inr ⟨h, hh, hkind, hk, hs⟩

/-- **each referrer once**: in a well-formed file no referring list (per kind or `referring_objects`, of a
section or of a source) names an entity twice -/
theorem referring_once (f : File) (h : WF f) (k : Nat) :
    (refBlocks f k).Nodup ∧ (∀ kind, (refHolders f kind k).Nodup) ∧ (refSources f k).Nodup ∧
    (refObjects f k).Nodup ∧
    ∀ b ∈ f.blocks, (∀ kind, (srcRefHolders b kind k).Nodup) ∧ (srcRefObjects b k).Nodup :=
  ⟨refBlocks_nodup h k, fun _ => refHolders_nodup h _ k, refSources_nodup h k, refObjects_nodup h k,
   fun _ hb => ⟨fun _ => srcRefHolders_nodup h hb _ k, srcRefObjects_nodup h hb k⟩⟩

/-! ## the same, about the code as `harness/extract/findshape.py` reads it from the source

`Nix.Generated.FindShape.*` is regenerated from `nixio/util/find.py`, `section.py`, `source.py`,
`block.py`, `file.py` on every run; `Pure/TreeShape.lean` interprets it (this is what the driver of the
correspondence executes).  An edit of the source that changes a comparison operator, a level constant,
the defaulting of the limit, a containment key, the container a referring list scans or the lists
`referring_objects` joins changes a generated constant and breaks one of the theorems below. -/

section Code
open Nix.Tree.Shape Nix.Generated

/-- the four public search methods exist, start at the entity itself exactly for Section / Source, … -/
theorem find_methods :
    FindShape.wrappers.map (fun w => (w.cls, w.method, w.selfIsNode, w.finder.name)) =
      [("File", "find_sections", false, "_find_sections"), ("Section", "find_sections", true, "_find_sections"),
       ("Block", "find_sources", false, "_find_sources"), ("Source", "find_sources", true, "_find_sources")] := rfl

/-- … and each of them, for **every** forest, filter and limit (also `None`), returns the breadth-first
enumeration within the limit, filtered (`find_bfs`, `find_unlimited` transfer to the code as extracted);
in particular no limit — `0` included — is treated as "no limit", and no search raises -/
theorem find_code (w : Wrapper) (hw : w ∈ FindShape.wrappers) (root : Root) (filt : Node → Bool) :
    (∀ limit : Nat, findW w root filt (some limit) =
        .ok ((levels (limit + 1 - root.base) root.members).filter filt)) ∧
    (heightL root.members + root.base ≤ maxsize + 1 →
      findW w root filt none = .ok ((levels (heightL root.members) root.members).filter filt)) := by
  have hc : ∀ w ∈ FindShape.wrappers, w.Canonical := by decide
  refine ⟨fun limit => ?_, fun h => ?_⟩
  · rw [findW_eq w (hc w hw), find_bfs]
  · rw [findW_eq w (hc w hw), (find_unlimited root filt h).1]

/-- the same member by member, and **each once**: an entity is returned by an extracted search method iff it
passes the filter and lies at a depth `d ≤ limit` below the root (counted as the code counts), and with
unique ids no entity is returned twice (any limit, also `None`) -/
theorem find_mem_once_code (w : Wrapper) (hw : w ∈ FindShape.wrappers) (root : Root) (filt : Node → Bool) :
    (∀ (limit : Nat) (x : Node), (∃ l, findW w root filt (some limit) = .ok l ∧ x ∈ l) ↔
        filt x = true ∧ ∃ r ∈ root.members, ∃ i, AtDepth i r x ∧ i + root.base ≤ limit) ∧
    (∀ limit : Option Nat, (keysL root.members).Nodup →
        ∃ l, findW w root filt limit = .ok l ∧ (l.map Node.key).Nodup) := by
  have hc : ∀ w ∈ FindShape.wrappers, w.Canonical := by decide
  refine ⟨fun limit x => ?_, fun limit h => ⟨_, findW_eq w (hc w hw) root filt limit, find_once root filt limit h⟩⟩
  rw [← find_mem, findW_eq w (hc w hw)]
  constructor
  · rintro ⟨l, hl, hx⟩
    cases hl
    exact hx
  · intro hx
    exact ⟨_, rfl, hx⟩

/-- `Section.find_related` as extracted: for a top-level section the section and its children; for a
section below `p`: `p`, the children of `p` without the section itself, then the section and its children
(filtered, in this order) -/
theorem find_related_code (f : File) (h : WF f) (useCache : Bool) (filt : Node → Bool) :
    (∀ x ∈ f.sections, findRelatedG FindShape.sectionParent FindShape.related f x.key useCache filt =
        .ok ((x :: x.children).filter filt)) ∧
    (∀ p ∈ nodesL f.sections, ∀ x ∈ p.children,
      findRelatedG FindShape.sectionParent FindShape.related f x.key useCache filt =
        .ok (eraseKey x.key ((p :: p.children).filter filt) ++ (x :: x.children).filter filt)) := by
  have h3 : FindShape.related.finder.Canonical := by decide
  constructor
  · intro x hx
    rw [findRelatedG_root _ _ (by decide) (by decide) h3 h hx]
    simp [FindShape.related, levels]
  · intro p hp x hx
    rw [findRelatedG_child _ _ (by decide) (by decide) h3 h hp hx]
    simp [FindShape.related, levels]

/-- `Section.parent` as extracted is the containing section, through every kind of handle -/
theorem parent_code (f : File) (h : WF f) (useCache : Bool) :
    (∀ x ∈ f.sections, sectionParentG FindShape.sectionParent f x.key useCache = .ok none) ∧
    (∀ p ∈ nodesL f.sections, ∀ x ∈ p.children,
      sectionParentG FindShape.sectionParent f x.key useCache = .ok (some p.key)) := by
  have e := sectionParentG_eq FindShape.sectionParent (by decide) (by decide) f
  simp only [e]
  exact parent f h useCache

/-- `Source.parent_source` as extracted is the containing source -/
theorem parent_source_code (f : File) (h : WF f) (b : Block) (hb : b ∈ f.blocks) :
    (∀ x ∈ b.sources, sourceParentG FindShape.sourceParent f x.key = .ok none) ∧
    (∀ p ∈ nodesL b.sources, ∀ x ∈ p.children, sourceParentG FindShape.sourceParent f x.key = .ok (some p.key)) := by
  have e := sourceParentG_eq FindShape.sourceParent (by decide) (by decide) f
  simp only [e]
  exact parent_source f h b hb

/-- an entity of the file (block, group / array / tag / multi-tag, source at any depth) with key `k'`
whose stored metadata link is the section `k` -/
def RefersTo (f : File) (k' k : Nat) : Prop :=
  (∃ b ∈ f.blocks, b.key = k' ∧ b.md = some k) ∨
  (∃ b ∈ f.blocks, ∃ h ∈ b.holders, h.key = k' ∧ h.md = some k) ∨
  (∃ b ∈ f.blocks, ∃ s ∈ nodesL b.sources, s.key = k' ∧ s.md = some k)

/-- every `Section.referring_*` property as extracted compares ids and returns exactly the referrers of
its kind (sources: at every depth) -/
theorem referring_code (f : File) (k : Nat) (e : String × Scan) (he : e ∈ FindShape.sectionReferring) :
    refList FindShape.sectionReferring f e.1 k = .ok (e.2.scope.spec f k) ∧ e.2.scope ≠ .sourcesTop := by
  have hc : ∀ e ∈ FindShape.sectionReferring, e.2.Canonical := by decide
  have hl : ∀ e ∈ FindShape.sectionReferring, FindShape.sectionReferring.lookup e.1 = some e.2 := by
    intro e he
    simp only [FindShape.sectionReferring, List.mem_cons, List.not_mem_nil, or_false] at he
    rcases he with rfl | rfl | rfl | rfl | rfl | rfl <;> rfl
  refine ⟨?_, (hc e he).2⟩
  simp only [refList, hl e he, refScan_eq _ (hc e he)]

/-- **`Section.referring_objects` as extracted = the inverse of all stored metadata links**: it never
fails and names exactly the blocks, groups, arrays, tags, multi-tags and sources (any depth) whose
metadata is the section -/
theorem referring_objects_code (f : File) (hB : Bounded f) (k : Nat) :
    refObjectsG FindShape.sectionReferring FindShape.sectionReferringObjects f k = .ok (refObjects f k) ∧
    ∀ k', k' ∈ refObjects f k ↔ RefersTo f k' k := by
  constructor
  · have r := fun e he => (referring_code f k e he).1
    simp only [FindShape.sectionReferring, List.mem_cons, List.not_mem_nil, or_false, forall_eq_or_imp,
      forall_eq] at r
    obtain ⟨r1, r2, r3, r4, r5, r6⟩ := r
    simp only [FindShape.sectionReferringObjects, refObjectsG, FindShape.sectionReferring] at r1 r2 r3 r4 r5 r6 ⊢
    rw [r1, r2, r3, r4, r5, r6]
    simp [Scope.spec, refObjects]
  · intro k'
    rw [(referring_inverse f k k').2.2, (referring_inverse f k k').1, referring_sources_inverse f hB]
    simp only [(referring_inverse f k k').2.1, RefersTo]
    constructor
    · rintro (h | ⟨kind, b, hb, hd, hh, _, hk, hm⟩ | h)
      · exact .inl h
      · exact .inr (.inl ⟨b, hb, hd, hh, hk, hm⟩)
      · exact .inr (.inr h)
    · rintro (h | ⟨b, hb, hd, hh, hk, hm⟩ | h)
      · exact .inl h
      · exact .inr (.inl ⟨hd.kind, b, hb, hd, hh, rfl, hk, hm⟩)
      · exact .inr (.inr h)

/-- **`Source.referring_*` / `referring_objects` as extracted = the inverse of the stored `sources`
links** of the source's block -/
theorem source_referring_code (b : Block) (k : Nat) :
    (∀ e ∈ FindShape.sourceReferring, srcRefList FindShape.sourceReferring b e.1 k = .ok (srcRefHolders b e.2.kind k)) ∧
    FindShape.sourceReferring.map (fun e => e.2.kind) = [.group, .dataArray, .tag, .multiTag] ∧
    srcRefObjectsG FindShape.sourceReferring FindShape.sourceReferringObjects b k = .ok (srcRefObjects b k) ∧
    ∀ k', k' ∈ srcRefObjects b k ↔ ∃ h ∈ b.holders, h.key = k' ∧ k ∈ h.srcs := by
  have hl : ∀ e ∈ FindShape.sourceReferring, srcRefList FindShape.sourceReferring b e.1 k = .ok (srcRefHolders b e.2.kind k) := by
    intro e he
    simp only [FindShape.sourceReferring, List.mem_cons, List.not_mem_nil, or_false] at he
    rcases he with rfl | rfl | rfl | rfl <;> rfl
  refine ⟨hl, rfl, ?_, fun k' => (source_referring_inverse b k k').2⟩
  have r := hl
  simp only [FindShape.sourceReferring, List.mem_cons, List.not_mem_nil, or_false, forall_eq_or_imp, forall_eq] at r
  obtain ⟨r1, r2, r3, r4⟩ := r
  simp only [FindShape.sourceReferringObjects, srcRefObjectsG, FindShape.sourceReferring] at r1 r2 r3 r4 ⊢
  rw [r1, r2, r3, r4]
  simp [srcRefObjects]

end Code

/-! ## ids as texts: entities whose ids the caller supplied, in any spelling

`Generated/IdLookup.lean` is what `harness/extract/c13_idlookup.py` reads from `Container.__contains__`,
`H5Group.get_by_id` / `__contains__`, `Section.create_new`, `Entity.id` / `__eq__`, `util.is_uuid`.  The theorems
speak about *every* assignment `texts` of id texts to the entities: library-made ids and ids supplied with
`create_section(…, oid=…)` in whatever spelling `uuid.UUID` reads. -/
section IdTexts
open Nix.Tree.Shape Nix.Tree.Ids Nix.Generated Nix.Py

/-- **the look-up by id as extracted compares the text as given** — no spelling is changed on the way:
`text in container` holds iff a child's stored id is that very text (asked only when the text is an id) or a child
has that name.  An edit that normalises the key changes a generated constant and breaks this theorem. -/
theorem id_lookup_code (cs : List Child) (t : String) :
    containsT IdLookup.shape cs t =
      ((uuidAccepts t && cs.any (fun c => c.id == t)) || cs.any (fun c => c.name == t)) :=
  containsT_asGiven _ (by decide) cs t

/-- **`Section.parent`, every id comparison made on the stored id texts, is the containing section** (none at the
top level) for every assignment of id texts that are pairwise different, are ids and are nobody's name - whatever
their spelling - through every kind of handle -/
theorem parent_ids_code (texts : Nat → String) (f : File) (h : WF f) (ok : IdsOK texts f.sections)
    (useCache : Bool) :
    (∀ x ∈ f.sections,
      sectionParentT FindShape.sectionParent IdLookup.shape texts f x.key useCache = .ok none) ∧
    (∀ p ∈ nodesL f.sections, ∀ x ∈ p.children,
      sectionParentT FindShape.sectionParent IdLookup.shape texts f x.key useCache = .ok (some p.key)) := by
  have e := fun k => sectionParentT_eq FindShape.sectionParent IdLookup.shape (by decide) ok k useCache
  simp only [e]
  exact parent_code f h useCache

/-- the same for the texts a history leaves in the file (`textsOf given gen`, what the driver runs with): the ids
the caller supplied with `create_section(…, oid=…)` as `Section.create_new` stored them, a library-made id for every
other entity.  The hypotheses are about the *inputs* only: library-made ids are fresh ids, the supplied texts are
ids, pairwise different and no library-made id, nothing is named like an id - the spelling of the supplied texts
is free. -/
theorem parent_supplied_code (given : List (Nat × String)) (gen : Nat → String) (f : File) (h : WF f)
    (ok : SuppliedOK given gen f.sections) (useCache : Bool) :
    (∀ x ∈ f.sections,
      sectionParentT FindShape.sectionParent IdLookup.shape (textsOf given gen) f x.key useCache = .ok none) ∧
    (∀ p ∈ nodesL f.sections, ∀ x ∈ p.children,
      sectionParentT FindShape.sectionParent IdLookup.shape (textsOf given gen) f x.key useCache
        = .ok (some p.key)) :=
  parent_ids_code _ f h (idsOK_of_supplied ok) useCache

/-- **for every history** of create / link / unlink / delete / reopen / copy operations in which `create_section` calls
may supply ids (`runT`, what the driver runs): when the id texts the history supplies - as `Section.create_new` stores
them, in whatever spelling - are ids, pairwise different and not the library-made id of a section of the final tree,
those library-made ids (of the sections whose id was not supplied) are pairwise different ids, and nobody in the final metadata tree is named like one of these
texts, then `Section.parent` evaluated on the stored texts is the containing section (none at the top level) through
every kind of handle -/
theorem parent_history_code (gen : Nat → String) (ops : List OpT)
    (genOK : ∀ a ∈ keysL (runT IdLookup.shape {} ops).f.sections,
      (runT IdLookup.shape {} ops).given.lookup a = none →
      uuidAccepts (gen a) = true ∧
      ∀ b ∈ keysL (runT IdLookup.shape {} ops).f.sections,
        (runT IdLookup.shape {} ops).given.lookup b = none → gen a = gen b → a = b)
    (hnd : (suppliedTexts IdLookup.shape ops).Nodup)
    (hu : ∀ t ∈ suppliedTexts IdLookup.shape ops, uuidAccepts t = true ∧
      ∀ a ∈ keysL (runT IdLookup.shape {} ops).f.sections,
        (runT IdLookup.shape {} ops).given.lookup a = none → t ≠ gen a)
    (hn : ∀ n ∈ nodesL (runT IdLookup.shape {} ops).f.sections,
      (∀ a ∈ keysL (runT IdLookup.shape {} ops).f.sections,
        (runT IdLookup.shape {} ops).given.lookup a = none → n.name ≠ gen a) ∧
      ∀ t ∈ suppliedTexts IdLookup.shape ops, n.name ≠ t) (useCache : Bool) :
    let s := runT IdLookup.shape {} ops
    (∀ x ∈ s.f.sections,
      sectionParentT FindShape.sectionParent IdLookup.shape (textsOf s.given gen) s.f x.key useCache = .ok none) ∧
    (∀ p ∈ nodesL s.f.sections, ∀ x ∈ p.children,
      sectionParentT FindShape.sectionParent IdLookup.shape (textsOf s.given gen) s.f x.key useCache
        = .ok (some p.key)) :=
  parent_supplied_code _ gen _ (reachable_wf _ (runT_reachable _ ops))
    (suppliedOK_of_history _ gen ops genOK hnd hu hn) useCache

/-- **`Source.parent_source` on the stored id texts is the containing source** -/
theorem parent_source_ids_code (texts : Nat → String) (f : File) (h : WF f) (b : Block) (hb : b ∈ f.blocks)
    (ok : IdsOK texts b.sources) :
    (∀ x ∈ b.sources, sourceParentT FindShape.sourceParent IdLookup.shape texts f x.key = .ok none) ∧
    (∀ p ∈ nodesL b.sources, ∀ x ∈ p.children,
      sourceParentT FindShape.sourceParent IdLookup.shape texts f x.key = .ok (some p.key)) := by
  obtain ⟨r1, r2⟩ := parent_source_code f h b hb
  constructor
  · intro x hx
    rw [sourceParentT_eq _ _ (by decide) h hb ok (mem_nodesL_roots hx)]
    exact r1 x hx
  · intro p hp x hx
    rw [sourceParentT_eq _ _ (by decide) h hb ok (child_mem_nodesL hp hx)]
    exact r2 p hp x hx

/-- the comparison every `Section.referring_*` property makes (`x.metadata.id == self.id`), on the stored texts, is
the comparison of the entities: a link to the section itself is recognised in any spelling of its id, a link to
another section never is -/
theorem referring_ids_match (texts : Nat → String) (f : File)
    (inj : ∀ a ∈ keysL f.sections, ∀ b ∈ keysL f.sections, texts a = texts b → a = b)
    (md : Option Nat) (hm : ∀ t, md = some t → t ∈ keysL f.sections) (k : Nat) (hk : k ∈ keysL f.sections) :
    mdMatchT texts md k = mdMatch f .id md k := by
  rw [mdMatchT_eq inj hm hk, mdMatch_key (by decide)]

/-- **every `Section.referring_*` property and `referring_objects`, the comparison `x.metadata.id == self.id` made on
the stored id texts, is the inverse of the stored metadata links** when the id texts of the section asked and of the
sections the stored links point to do not repeat (uuid4 freshness, the caller's ids pairwise different:
`textsInjOn_of_supplied`) - in any spelling -/
theorem referring_ids_code (texts : Nat → String) (f : File) (hB : Bounded f) (k : Nat)
    (inj : TextsInjOn texts (k :: mdTargets f)) :
    (∀ e ∈ FindShape.sectionReferring,
      refListT texts FindShape.sectionReferring f e.1 k = .ok (e.2.scope.spec f k)) ∧
    refObjectsT texts FindShape.sectionReferring FindShape.sectionReferringObjects f k = .ok (refObjects f k) ∧
    ∀ k', k' ∈ refObjects f k ↔ RefersTo f k' k := by
  refine ⟨fun e he => ?_, ?_, (referring_objects_code f hB k).2⟩
  · rw [refListT_eq f k inj]; exact (referring_code f k e he).1
  · rw [refObjectsT_eq f k inj]; exact (referring_objects_code f hB k).1

/-- **`Section.find_related` with every id comparison on the stored texts** (the parent's search, the test
`self in result`) lists parent, siblings, the section and its children, as `find_related_code` says -/
theorem find_related_ids_code (texts : Nat → String) (f : File) (h : WF f)
    (ok : IdsOK texts f.sections) (useCache : Bool) (filt : Node → Bool) :
    (∀ x ∈ f.sections,
      findRelatedT FindShape.sectionParent FindShape.related IdLookup.shape texts f x.key useCache filt =
        .ok ((x :: x.children).filter filt)) ∧
    (∀ p ∈ nodesL f.sections, ∀ x ∈ p.children,
      findRelatedT FindShape.sectionParent FindShape.related IdLookup.shape texts f x.key useCache filt =
        .ok (eraseKey x.key ((p :: p.children).filter filt) ++ (x :: x.children).filter filt)) := by
  have e := fun k => findRelatedT_eq FindShape.sectionParent FindShape.related IdLookup.shape (by decide) ok k
    useCache filt
  simp only [e]
  exact find_related_code f h useCache filt

end IdTexts

/-! ## non-vacuity: the states of the repaired defects are reachable and the answers are the owners -/

/-- z, a at the top; z/a; z/a/a; a/a — names repeat across subtrees and levels -/
def exSections : File :=
  run {} [.createSection none "z" "t", .createSection none "a" "t", .createSection (some 0) "a" "t",
          .createSection (some 2) "a" "t2", .createSection (some 1) "a" "t", .reopen]

example : Reachable exSections := ⟨_, rfl⟩

private def n3 : Node := .mk ⟨3, "a", "t2", none, none⟩ []
private def n2 : Node := .mk ⟨2, "a", "t", none, none⟩ [n3]
private def n4 : Node := .mk ⟨4, "a", "t", none, none⟩ []
private def n1 : Node := .mk ⟨1, "a", "t", none, none⟩ [n4]
private theorem exSections_sections :
    exSections.sections = [.mk ⟨0, "z", "t", none, none⟩ [n2], n1] := by rfl

/-- z/a/a re-fetched: the parent is z/a (key 2), not z (the first section with a child *named* a) -/
example : sectionParent exSections 3 false = .ok (some 2) :=
  (parent exSections (reachable_wf exSections ⟨_, rfl⟩) false).2 n2
    (by rw [exSections_sections]; simp [nodesL, Node.nodes, n2]) n3 (by simp [n2, Node.children])
/-- a/a re-fetched: the parent is the top-level a (key 1), not z -/
example : sectionParent exSections 4 false = .ok (some 1) :=
  (parent exSections (reachable_wf exSections ⟨_, rfl⟩) false).2 n1
    (by rw [exSections_sections]; simp [nodesL, Node.nodes, n1]) n4 (by simp [n1, Node.children])
example : (sectionParent exSections 0 true).toOption = some none := by decide

/-- block with sources x / x / y, an array linking the inner x, a group linking y, metadata on the nested sources -/
def exSources : File :=
  run {} [.createSection none "s" "t", .createBlock "b" "t", .createSource 1 "x" "t", .createSource 2 "x" "t",
          .createSource 3 "y" "t", .createHolder 1 .dataArray "d" "t", .createHolder 1 .group "g" "t",
          .linkSource 5 3, .linkSource 6 4, .setMetadata 3 0, .setMetadata 4 0, .setMetadata 5 0]

example : Reachable exSources := ⟨_, rfl⟩
example : (sourceParent exSources 3).toOption = some (some 2) := by decide

/-- z / a / a, then z copied (ids renewed) into z/a/a — i.e. into its own subtree — and z/a copied to the top
as "a": names repeat along and across the paths, the copies are reached through re-fetched handles -/
def exCopy : File :=
  run {} [.createSection none "z" "t", .createSection (some 0) "a" "t", .createSection (some 1) "a" "t",
          .copySection 0 (some 2) "" true, .copySection 1 none "" true, .reopen]

example : Reachable exCopy := ⟨_, rfl⟩

private def mkN (k : Nat) (nm : String) (cs : List Node) : Node := .mk ⟨k, nm, "t", none, none⟩ cs
private def c3 : Node := mkN 3 "z" [mkN 4 "a" [mkN 5 "a" []]]
private def c2 : Node := mkN 2 "a" [c3]
private def c0 : Node := mkN 0 "z" [mkN 1 "a" [c2]]
private def d7 : Node := mkN 7 "a" [mkN 8 "a" [mkN 9 "z" [mkN 10 "a" [mkN 11 "a" []]]]]
private theorem exCopy_sections : exCopy.sections = [c0, d7] := by rfl

/-- the copy of z (key 0 + 3) lies below z/a/a (key 2), where `copy_section` put it — not below the z/a
whose child is also *named* like it, and not at the top where the original is -/
example : Shape.sectionParentG Generated.FindShape.sectionParent exCopy 3 false = .ok (some 2) :=
  (parent_code exCopy (reachable_wf exCopy ⟨_, rfl⟩) false).2 c2
    (by rw [exCopy_sections]; simp [nodesL, Node.nodes, c0, c2, mkN]) c3 (by simp [c2, mkN, Node.children])
/-- the second copy (z/a with everything below it, keys + 6) is a top-level section -/
example : Shape.sectionParentG Generated.FindShape.sectionParent exCopy 7 false = .ok none :=
  (parent_code exCopy (reachable_wf exCopy ⟨_, rfl⟩) false).1 d7 (by rw [exCopy_sections]; simp)

/-! the extracted search methods (all four) on `exSections` (z, a at the top; z/a; z/a/a; a/a): limit 0 from a
File / Block is empty; limit 1 the top level; `None` everything, breadth first; with a filter -/
private def keysOf (r : Except Err (List Node)) : Option (List Nat) := r.toOption.map (·.map Node.key)
example : ∀ w ∈ Generated.FindShape.wrappers,
    keysOf (Shape.findW w (.top exSections.sections) (fun _ => true) (some 0)) = some [] :=
  fun w hw => by rw [(find_code w hw _ _).1 0]; rfl
example : ∀ w ∈ Generated.FindShape.wrappers,
    keysOf (Shape.findW w (.top exSections.sections) (fun _ => true) (some 1)) = some [0, 1] :=
  fun w hw => by rw [(find_code w hw _ _).1 1, exSections_sections]; rfl
example : ∀ w ∈ Generated.FindShape.wrappers,
    keysOf (Shape.findW w (.top exSections.sections) (fun n => n.type == "t2") none) = some [3] :=
  fun w hw => by rw [(find_code w hw _ _).2 (by rw [exSections_sections]; decide), exSections_sections]; decide
example : ∀ w ∈ Generated.FindShape.wrappers,
    keysOf (Shape.findW w (.node n2) (fun _ => true) (some 0)) = some [2] :=
  fun w hw => by rw [(find_code w hw _ _).1 0]; rfl
/-- find_related of z/a (key 2): parent z, no siblings, itself, its child -/
example : keysOf (Shape.findRelatedG Generated.FindShape.sectionParent Generated.FindShape.related exSections 2 false
    (fun _ => true)) = some [0, 2, 3] := by
  show keysOf (Shape.findRelatedG _ _ exSections n2.key false _) = _
  rw [(find_related_code exSections (reachable_wf exSections ⟨_, rfl⟩) false _).2 (.mk ⟨0, "z", "t", none, none⟩ [n2])
    (by rw [exSections_sections]; simp [nodesL, Node.nodes]) n2 (by simp [Node.children])]
  rfl

/-! ids supplied by the caller: the sections of `exSections` (z, a; z/a; z/a/a; a/a) with ids in upper case, in
braces, as urn, without hyphens and in mixed case - the parents computed on these texts are the containers -/
private def exTexts : Nat → String
  | 0 => "A0000000-0000-4000-8000-00000000000A"
  | 1 => "{b1111111-1111-4111-8111-11111111111b}"
  | 2 => "urn:uuid:c2222222-2222-4222-8222-22222222222c"
  | 3 => "D33333333333433383333333333333D3"
  | 4 => "{E4444444-4444-4444-8444-44444444444e}"
  | _ => ""

private theorem exTexts_ok : Ids.IdsOK exTexts exSections.sections := by
  have hk : keysL exSections.sections = [0, 2, 3, 1, 4] := by rw [exSections_sections]; rfl
  have hn : (nodesL exSections.sections).map Node.name = ["z", "a", "a", "a", "a"] := by
    rw [exSections_sections]; rfl
  refine ⟨?_, ?_, ?_⟩
  · rw [hk]; decide +kernel
  · rw [hk]; decide +kernel
  · intro n hn' a ha
    have : n.name ∈ ["z", "a", "a", "a", "a"] := hn ▸ List.mem_map.mpr ⟨n, hn', rfl⟩
    rw [hk] at ha
    revert a
    revert this
    generalize n.name = nm
    revert nm
    decide +kernel

/-- z/a/a (id without hyphens, upper case) re-fetched: the parent is z/a -/
example : Ids.sectionParentT Generated.FindShape.sectionParent Generated.IdLookup.shape exTexts exSections 3 false
    = .ok (some 2) :=
  (parent_ids_code exTexts exSections (reachable_wf exSections ⟨_, rfl⟩) exTexts_ok false).2 n2
    (by rw [exSections_sections]; simp [nodesL, Node.nodes, n2]) n3 (by simp [n2, Node.children])
/-- the look-up itself: the upper-case id is found among the children as it is stored, its lower-case spelling is not
(another text: `id in container` never re-spells), a name is -/
example : Ids.containsT Generated.IdLookup.shape [⟨exTexts 3, "a"⟩] (exTexts 3) = true := by
  rw [id_lookup_code]; decide +kernel
example : Ids.containsT Generated.IdLookup.shape [⟨exTexts 0, "a"⟩] "a0000000-0000-4000-8000-00000000000a" = false := by
  rw [id_lookup_code]; decide +kernel
example : Ids.canonText? (exTexts 1) = some "b1111111-1111-4111-8111-11111111111b" := by decide +kernel
example : Ids.canonText? (exTexts 3) = some "d3333333-3333-4333-8333-3333333333d3" := by decide +kernel

/-! the same state as the result of a history that supplies the ids (`runT`): `parent_history_code` applies -/
private def exOps : List Ids.OpT :=
  [.createSectionOid none "z" "t" (exTexts 0), .plain (.createSection none "a" "t"),
   .createSectionOid (some 0) "a" "t" (exTexts 2), .createSectionOid (some 2) "a" "t2" (exTexts 3),
   .plain (.createSection (some 1) "a" "t"), .plain .reopen]
/-- stand-in for the library-made ids of this example -/
private def exGen : Nat → String
  | 1 => "00000000-0000-4000-8000-000000000001"
  | 4 => "00000000-0000-4000-8000-000000000004"
  | _ => ""

private theorem exOps_f : (Ids.runT Generated.IdLookup.shape {} exOps).f = exSections := by rfl
private theorem exOps_given : (Ids.runT Generated.IdLookup.shape {} exOps).given =
    [(3, exTexts 3), (2, exTexts 2), (0, exTexts 0)] := by decide +kernel
private theorem exOps_supplied :
    Ids.suppliedTexts Generated.IdLookup.shape exOps = [exTexts 0, exTexts 2, exTexts 3] := by decide +kernel

example : let s := Ids.runT Generated.IdLookup.shape {} exOps
    Ids.sectionParentT Generated.FindShape.sectionParent Generated.IdLookup.shape (Ids.textsOf s.given exGen) s.f 3 false
      = .ok (some 2) := by
  have hk : keysL exSections.sections = [0, 2, 3, 1, 4] := by rw [exSections_sections]; rfl
  have hn : (nodesL exSections.sections).map Node.name = ["z", "a", "a", "a", "a"] := by
    rw [exSections_sections]; rfl
  have names : ∀ n ∈ nodesL exSections.sections, n.name ∈ ["z", "a", "a", "a", "a"] :=
    fun n h => hn ▸ List.mem_map.mpr ⟨n, h, rfl⟩
  have h := parent_history_code exGen exOps
    (by rw [exOps_f, hk, exOps_given]; decide +kernel)
    (by rw [exOps_supplied]; decide +kernel)
    (by rw [exOps_supplied, exOps_f, hk, exOps_given]; decide +kernel)
    (by
      rw [exOps_f, hk, exOps_supplied, exOps_given]
      intro n hn'
      have := names n hn'
      revert this
      generalize n.name = nm
      revert nm
      decide +kernel)
    false
  simp only [exOps_f] at h ⊢
  exact h.2 n2 (by rw [exSections_sections]; simp [nodesL, Node.nodes, n2]) n3 (by simp [n2, Node.children])

end Nix.C13
