import NixModel.Lemmas.C20Spec

/-!
# C20 — copies are complete, independent, and keep their internal links

Model: `Store/Copy.lean` over the HDF5 object graph (`Store/Graph.lean`): `H5Group.copy` is HDF5's
object copy (everything reachable from the source by hard links is duplicated once, links among the
copied objects re-targeted), followed by the rename and the optional id regeneration; the four
callers (`File.create_block(copy_from)`, `Block.create_data_array/tag/multi_tag(copy_from)`,
`Section.create_property(copy_from)`, `File/Section.copy_section`) default the name, open the
destination container, refuse an existing name and call it. `copyGeneric` is that common routine and
`*_is_generic` show that each caller is an instance, so every theorem below holds for all of them.

All theorems are for **every** source graph, **every** source node, **every** destination graph
that satisfies `FileOk` (node keys below `nextKey`, links lead to nodes — true of every file the API
produces), both id policies; `src` and `dst` may be the same graph (same-file copy) or different
ones (cross-file copy).

Partial / modelled: HDF5's `H5Ocopy` semantics are modelled (`copyNodes`), not verified; dataset
*contents* (array data, property values, data frames) are outside the graph model.
-/
namespace Nix.C20
open Nix.Store Nix.Store.Graph Nix.Store.Lemmas Nix.Store.C20

/-! ## every caller is the generic routine -/

theorem copyBlock_is_generic (src dst : Graph) (b : Nat) (name : String) (keepId : Bool)
    (hk : kindOf src b = "block") (h0 : 0 ∈ keys dst) :
    copyBlock src dst b name keepId = (copyGeneric src dst 0 "data" b name false keepId).map (·.1) :=
  copyBlock_generic src dst b name keepId hk h0

theorem copyIntoBlock_is_generic (src dst : Graph) (bp : Path) (b : Loc) (what cls : String) (obj : Nat)
    (name : String) (keepId : Bool) (hb : resolve dst rootLoc bp = some b) (hbk : kindOf dst b.key = "block")
    (hcls : clsOf what = some cls) (hk : kindOf src obj = what) (h0 : b.key ∈ keys dst) :
    copyIntoBlock src dst bp what obj name keepId =
      (copyGeneric src dst b.key cls obj name false keepId).map (·.1) :=
  copyIntoBlock_generic src dst bp b what cls obj name keepId hb hbk hcls hk h0

theorem copyProperty_is_generic (src dst : Graph) (sec p : Nat) (name : String) (keepId : Bool)
    (hs : kindOf dst sec = "section") (hk : kindOf src p = "property") (h0 : sec ∈ keys dst) :
    copyProperty src dst sec p name keepId =
      (copyGeneric src dst sec "properties" p name false keepId).map (·.1) :=
  copyProperty_generic src dst sec p name keepId hs hk h0

/-- `copy_section`: the generic routine, deep for `children = true`; for `children = false` a
shallow copy followed by re-adding the properties one by one -/
theorem copySection_is_generic (src dst : Graph) (destOwner : Option Path) (owner : Nat) (cls : String)
    (obj : Nat) (children keepId : Bool) (name : String)
    (hd : sectionDest dst destOwner = some (owner, cls)) (hk : kindOf src obj = "section")
    (h0 : owner ∈ keys dst) :
    copySection src dst destOwner obj children keepId name =
      match copyGeneric src dst owner cls obj name (!children) keepId with
      | .error e => .error e
      | .ok (d1, root) =>
        if children then .ok d1 else readdProps src keepId (propsOf src obj) d1 root :=
  copySection_generic src dst destOwner owner cls obj children keepId name hd hk h0

section
variable {src dst : Graph} {owner obj : Nat} {cls name : String} {keepId : Bool} {g' : Graph} {root : Nat}

/-- **complete**: for a deep copy the key map `m` is a graph isomorphism from the sub-graph reachable
from the source onto the new nodes: the copied set is exactly what is reachable, `m` is injective on
it, the nodes of the result are the old ones plus the images, and every image has the same kind,
the same attributes (except the root's `name` and, when ids are regenerated, `entity_id`) and the
source's links, in the same order, with targets mapped through `m` -/
theorem copy_complete (hdst : FileOk dst)
    (hc : copyGeneric src dst owner cls obj name false keepId = .ok (g', root)) :
    root = copyMap src dst owner cls obj false obj ∧
    (∀ a b, ReachF src obj a → ReachF src obj b →
      copyMap src dst owner cls obj false a = copyMap src dst owner cls obj false b → a = b) ∧
    (∀ k', k' ∈ keys g' ↔ k' ∈ keys (destG dst owner cls) ∨
      ∃ k, ReachF src obj k ∧ k' = copyMap src dst owner cls obj false k) ∧
    (∀ k, ReachF src obj k →
      nkind g' (copyMap src dst owner cls obj false k) = some ((src.node? k).getD {}).kind ∧
      g'.links (copyMap src dst owner cls obj false k) =
        (src.links k).map (fun l => (l.1, copyMap src dst owner cls obj false l.2)) ∧
      ∀ a, (a ≠ "entity_id" ∨ keepId = true) → ¬ (k = obj ∧ a = "name") →
        g'.getAttr (copyMap src dst owner cls obj false k) a = src.getAttr k a) := by
  obtain ⟨_, hg, hr⟩ := copyGeneric_ok hc
  have hd := destOk_dest hdst owner cls
  have hself : obj ∈ copySet src obj false := reachFrom_self src obj
  refine ⟨hr, ?_, ?_, ?_⟩
  · intro a b ha hb e
    exact mapKey_inj _ (reachFrom_complete src obj a ha) (reachFrom_complete src obj b hb) e
  · intro k'
    rw [hg, core_keys, List.mem_append, List.mem_map]
    constructor
    · rintro (h | ⟨k, hk, e⟩)
      · exact .inl h
      · exact .inr ⟨k, reachFrom_sound src obj k hk, e.symm⟩
    · rintro (h | ⟨k, hk, e⟩)
      · exact .inl h
      · exact .inr ⟨k, reachFrom_complete src obj k hk, e.symm⟩
  · intro k hk
    have hk' : k ∈ copySet src obj false := reachFrom_complete src obj k hk
    refine ⟨?_, ?_, ?_⟩
    · rw [hg]; exact core_nkind_new hd hk'
    · rw [hg, copyMap, core_links_new hd hk']; rfl
    · intro a ha hna
      rw [hg, copyMap, core_getAttr_new hd hself hk' a ha, if_neg hna]

/-- **internal links**: every link of a copied node points to a copied node — a new key, never a
node of the destination file as it was (so, for a same-file copy, never an original) -/
theorem internal_links (hdst : FileOk dst)
    (hc : copyGeneric src dst owner cls obj name false keepId = .ok (g', root))
    (k : Nat) (hk : ReachF src obj k) (l : String × Nat)
    (hl : l ∈ g'.links (copyMap src dst owner cls obj false k)) :
    (∃ k2, ReachF src obj k2 ∧ l.2 = copyMap src dst owner cls obj false k2) ∧
    l.2 ∉ keys (destG dst owner cls) ∧ l.2 ∉ keys dst := by
  have hd := destOk_dest hdst owner cls
  have hk' : k ∈ copySet src obj false := reachFrom_complete src obj k hk
  rw [(copy_complete hdst hc).2.2.2 k hk |>.2.1] at hl
  obtain ⟨l0, hl0, e⟩ := List.mem_map.mp hl
  have hreach : ReachF src obj l0.2 := .step l0.1 hk hl0
  have hmem : l0.2 ∈ copySet src obj false := reachFrom_complete src obj _ hreach
  have hrange := (mapKey_range (destG dst owner cls).nextKey hmem).1
  have hnew : l.2 = copyMap src dst owner cls obj false l0.2 := by rw [← e]
  have hnot : l.2 ∉ keys (destG dst owner cls) := by
    intro hin
    have := hd.lt _ hin
    rw [hnew, copyMap] at this
    omega
  refine ⟨⟨l0.2, hreach, hnew⟩, hnot, ?_⟩
  intro hin
  apply hnot
  unfold destG
  rw [keys_ensureGroup]
  split
  · exact List.mem_append.mpr (.inl hin)
  · exact hin

/-- **ids kept**: with `keep_copy_id=True` every copied node has the id of its source (or none) -/
theorem ids_kept (hdst : FileOk dst)
    (hc : copyGeneric src dst owner cls obj name false true = .ok (g', root))
    (k : Nat) (hk : ReachF src obj k) :
    g'.entityId (copyMap src dst owner cls obj false k) = src.entityId k := by
  have := ((copy_complete hdst hc).2.2.2 k hk).2.2 "entity_id" (.inr rfl) (by simp)
  exact this

/-- **ids fresh**: with `keep_copy_id=False` exactly the copied nodes that had an id get one, of the
form `id:n` with `n` at or above the old supply of the destination (hence unused there), … -/
theorem ids_fresh (hdst : FileOk dst)
    (hc : copyGeneric src dst owner cls obj name false false = .ok (g', root))
    (k : Nat) (hk : ReachF src obj k) :
    (src.entityId k = none → g'.entityId (copyMap src dst owner cls obj false k) = none) ∧
    (∀ i, src.entityId k = some i → ∃ n, dst.nextId ≤ n ∧ n < g'.nextId ∧
      g'.entityId (copyMap src dst owner cls obj false k) = some (idStr n)) := by
  obtain ⟨_, hg, _⟩ := copyGeneric_ok hc
  have hd := destOk_dest hdst owner cls
  have h := core_ids_fresh (src := src) (name := effName src obj name) (emptied := emptiedSet src obj false)
    hd (reachFrom_self src obj) (reachFrom_nodup src obj) (reachFrom_complete src obj k hk)
  rw [hg]
  have hn : (destG dst owner cls).nextId = dst.nextId := nextId_ensureGroup dst owner cls
  rw [hn] at h
  exact h

/-- … and pairwise distinct -/
theorem ids_fresh_distinct (hdst : FileOk dst)
    (hc : copyGeneric src dst owner cls obj name false false = .ok (g', root))
    (a b : Nat) (ha : ReachF src obj a) (hb : ReachF src obj b) (hab : a ≠ b)
    (hia : src.entityId a ≠ none) (hib : src.entityId b ≠ none) :
    g'.entityId (copyMap src dst owner cls obj false a) ≠ g'.entityId (copyMap src dst owner cls obj false b) := by
  obtain ⟨_, hg, _⟩ := copyGeneric_ok hc
  have hd := destOk_dest hdst owner cls
  cases hi : src.entityId a with
  | none => exact absurd hi hia
  | some i =>
    cases hj : src.entityId b with
    | none => exact absurd hj hib
    | some j =>
      rw [hg]
      exact core_ids_distinct hd (reachFrom_self src obj) (reachFrom_nodup src obj)
        (reachFrom_complete src obj a ha) (reachFrom_complete src obj b hb) hab hi hj

/-- **name used**: the copy is linked into the destination container under the supplied name — the
source's name when none is given — and its `name` attribute says so -/
theorem name_used (hdst : FileOk dst) {shallow : Bool}
    (hc : copyGeneric src dst owner cls obj name shallow keepId = .ok (g', root)) :
    g'.child? (destC dst owner cls) (effName src obj name) = some root ∧
    g'.getAttr root "name" = some (effName src obj name) ∧
    (name ≠ "" → effName src obj name = name) ∧
    (name = "" → effName src obj name = (src.getAttr obj "name").getD "") := by
  obtain ⟨hfree, hg, hr⟩ := copyGeneric_ok hc
  have hd := destOk_dest hdst owner cls
  have hself : obj ∈ copySet src obj shallow := by
    unfold copySet
    cases shallow
    · exact reachFrom_self src obj
    · simp only [↓reduceIte]
      rw [List.mem_eraseDups]; exact List.mem_cons_self
  refine ⟨?_, ?_, ?_, ?_⟩
  · apply child?_of_links_append (g := destG dst owner cls) _ hfree
    rw [hg, core_links_old hd (hd.lt _ hd.c_mem), if_pos rfl, hr]
  · rw [hg, hr, core_getAttr_new hd hself hself "name" (.inl (by decide)), if_pos ⟨rfl, rfl⟩]
  · intro hne; unfold effName; simp [hne]
  · intro he; unfold effName; simp [he]

/-- **duplicate refused**: an existing name in the destination container ⇒ `DuplicateName`, whatever
the id policy and depth; by `Except` the call returns no new graph — nothing changes -/
theorem dup_refused {shallow : Bool}
    (h : (destG dst owner cls).hasChild (destC dst owner cls) (effName src obj name) = true) :
    copyGeneric src dst owner cls obj name shallow keepId = .error .duplicateName ∧
    applyCopy dst ((copyGeneric src dst owner cls obj name shallow keepId).map (·.1)) = dst := by
  have : copyGeneric src dst owner cls obj name shallow keepId = .error .duplicateName := by
    unfold copyGeneric; rw [if_pos h]
  exact ⟨this, by rw [this]; rfl⟩

/-- the same for an entry that exists in the destination file itself -/
theorem dup_refused_existing {shallow : Bool} {c t : Nat}
    (hcont : dst.child? owner cls = some c) (hent : dst.child? c (effName src obj name) = some t) :
    copyGeneric src dst owner cls obj name shallow keepId = .error .duplicateName := by
  apply (dup_refused _).1
  unfold destG destC
  rw [ensureGroup_of_some hcont]
  unfold Graph.hasChild
  rw [hent]; rfl

/-- **source untouched**: every node of the destination file as it was keeps its kind and attributes,
and its links — except that the destination container gains exactly one link (to the copy's root)
and, if the container group did not exist yet, its owner gains the link to it. For a same-file copy
the source sub-graph consists of such nodes; for a cross-file copy the source graph is not even an
output of the function. -/
theorem source_untouched (hdst : FileOk dst) (ho : owner ∈ keys dst) {shallow : Bool}
    (hc : copyGeneric src dst owner cls obj name shallow keepId = .ok (g', root))
    (k : Nat) (hk : k ∈ keys dst) :
    (∀ a, g'.getAttr k a = dst.getAttr k a) ∧ nkind g' k = nkind dst k ∧
    g'.links k = dst.links k ++
      (if k = owner ∧ dst.child? owner cls = none then [(cls, dst.nextKey)] else []) ++
      (if k = destC dst owner cls then [(effName src obj name, root)] else []) := by
  obtain ⟨_, hg, hr⟩ := copyGeneric_ok hc
  have hd := destOk_dest hdst owner cls
  have hself : obj ∈ copySet src obj shallow := by
    unfold copySet
    cases shallow
    · exact reachFrom_self src obj
    · simp only [↓reduceIte]
      rw [List.mem_eraseDups]; exact List.mem_cons_self
  have hlt : k < (destG dst owner cls).nextKey :=
    Nat.lt_of_lt_of_le (hdst.lt k hk) (nextKey_le_ensureGroup dst owner cls)
  have hens := ensureGroup_old (g := dst) cls ho k
  refine ⟨?_, ?_, ?_⟩
  · intro a
    rw [hg, core_getAttr_old hself hlt a]
    exact hens.1 a
  · rw [hg, core_nkind_old hlt]
    unfold nkind destG
    cases hch : dst.child? owner cls with
    | some c0 => rw [ensureGroup_of_some hch]
    | none =>
      rw [ensureGroup_of_none hch]
      have : ∀ g : Graph, (g.node? k).map (·.kind) = nkind g k := fun _ => rfl
      rw [this, this, nkind_addLink]
      unfold nkind
      rw [node?_newNode]
      have : k ≠ dst.nextKey := Nat.ne_of_lt (hdst.lt k hk)
      simp [this]
      cases dst.node? k <;> rfl
  · rw [hg, core_links_old hd hlt, ← hr]
    unfold destG at *
    rw [hens.2]
    by_cases h1 : k = destC dst owner cls
    · rw [if_pos h1, if_pos h1, ← h1, hens.2]
      split <;> simp
    · rw [if_neg h1, if_neg h1]; split <;> simp

end

end Nix.C20
