import NixModel.Lemmas.C20Frame
import NixModel.Lemmas.C20Shape
import NixModel.Lemmas.C20HistDel
import NixModel.Lemmas.C20DelObj
import NixModel.Store.CopyFrames
import NixModel.Lemmas.StoreWF
import NixModel.Lemmas.C20Shallow
import NixModel.Lemmas.C20Handle
import NixModel.Generated.HandleSites

/-!
# C20 — copies are complete, independent, and keep their internal links

Model: `Store/Copy.lean` over the HDF5 object graph (`Store/Graph.lean`): `H5Group.copy` is HDF5's
object copy (everything reachable from the source by hard links is duplicated once, links among the
copied objects re-targeted), followed by the rename and the optional id regeneration; the four
callers (`File.create_block(copy_from)`, `Block.create_data_array/tag/multi_tag(copy_from)`,
`Section.create_property(copy_from)`, `File/Section.copy_section`) default the name, open the
destination container, refuse an existing name and call it. `copyGeneric` is that common routine and
`*_is_generic` show that each caller is an instance, so every theorem below holds for all of them.

All theorems are for **every** source graph, **every** source node, **every** destination graph
that satisfies `FileOk` (node keys below `nextKey`, links lead to nodes — true of every file the API
produces), both id policies; `src` and `dst` may be the same graph (same-file copy) or different
ones (cross-file copy).

Theorems: `copy_complete`, `internal_links`, `ids_kept`, `ids_fresh` (+ `ids_fresh_distinct`),
`name_used`, `dup_refused` (+ `dup_refused_existing`), `source_untouched`, `shallow_contents`,
`shallow_section_result` (the final state of `copy_section(children=False)` after the re-adding loop), and
independence: `copy_closed`, `path_stays_in_copy`, `old_links` (the two sides are separated),
`independent_setAttr`, `independent_createProperty`, `independent_create_entity`,
`independent_append` (a call addressed to one side changes only that side),
`independent_history` (+ `_observed`, `sideInv_after_copy`): **any history** of API calls made on the
copy's side — entity deletions of every kind included, both id policies — leaves every node of the
destination file as it was;
`independent_history_source_side` (+ `independent_history_copy_unchanged`, `sourceSideInv_after_copy`):
any history of calls made on the source's side leaves the copy (and the rest of the file) exactly as it
was — both from one frame theorem for histories on a link-closed side (`Lemmas/C20Local`, `C20Hist`,
`C20HistDel`: `LocalUpd`, `lu_step`, `lu_run`);
`independent_delete_full` (`del container[x]` through any owning container — `Container`,
`SectionContainer`, `SourceContainer`, `FeatureContainer` — that hands `delete_all` no object of the
copy leaves the copy exactly as it was and in its container), `independent_delete_old_side` /
`independent_delete_new_side` (the same for `Graph.deleteObjs` of any list of objects, both directions);
`idInv_after_copy`, `idInv_source_side`, `ids_disjoint_after_history`: with regenerated ids the ids of the
two sides are disjoint and stay so through every history (a fact about the id policy; no theorem above
needs it any more).

Tie to the source text: `harness/extract/copyshape.py` renders `H5Group.copy` and the eight copy entry
points as data (`Generated/CopyShape.lean`); `h5GroupCopy_source_is_model`, `entryPoints_shape_ok`,
`entryPoints_kinds`, `entry_point_source_is_generic`, `copyBlock_source`, `copyIntoBlock_source`,
`copyProperty_source`, `copySection_source`, `copyFrameIntoBlock_is_generic` show, for all arguments,
that the interpretation of the generated shapes is the model the theorems speak about
(`create_data_frame(copy_from=…)` has no hand-written model: the driver executes the generated shape).
`reachable_file_ok` / `reachable_entity_has_id`: the hypotheses `FileOk`, `IdsBelow`, "the source has
an id" hold for every file the API builds.

Partial / modelled:
* deletion: `H5Group.delete_all` unlinks the given *objects* (`Graph.deleteObjs`; repaired in /repo, `fix:
  deleting an entity also deleted every same-id copy file-wide`, fixed finding
  `C20-delete-hits-same-id-copy`, shared with C04). Before the repair it matched `entity_id`
  (`Graph.deleteAll`, kept in `Store/Graph.lean` for this statement only, used by no operation of the
  model): `independent_delete_counterexample_before_fix` — the statement `independent_delete_full_before_fix`
  about that function is false (DESIGN D13);
* link lists name their entries by the items' ids; `H5Group.copy` regenerates the `entity_id` attributes but
  copies link names verbatim: `id_named_links_full` is false — `id_named_links_kept` (ids kept) +
  `id_named_links_counterexample` (open known finding `C20-fresh-ids-stale-link-names`);
* the history theorems speak about calls whose entity arguments all lie on the side the call is made on
  (linking an original into the copy, or the copy into the source, is the caller's doing); the source-side
  theorem needs the destination container and its owner outside the source sub-graph;
* HDF5's `H5Ocopy` semantics are modelled (`copyNodes`), not verified; dataset *contents* (array
  data, property values, data frames) are outside the graph model (oracle only).
-/
namespace Nix.C20
open Nix.Store Nix.Store.Graph Nix.Store.Lemmas Nix.Store.C20

/-! ## every caller is the generic routine -/

theorem copyBlock_is_generic (src dst : Graph) (b : Nat) (name : String) (keepId : Bool)
    (hk : kindOf src b = "block") (h0 : 0 ∈ keys dst) :
    copyBlock src dst b name keepId = (copyGeneric src dst 0 "data" b name false keepId).map (·.1) :=
  copyBlock_generic src dst b name keepId hk h0

theorem copyIntoBlock_is_generic (src dst : Graph) (bp : Path) (b : Loc) (what cls : String) (obj : Nat)
    (name : String) (keepId : Bool) (hb : resolve dst rootLoc bp = some b) (hbk : kindOf dst b.key = "block")
    (hcls : clsOf what = some cls) (hk : kindOf src obj = what) (h0 : b.key ∈ keys dst) :
    copyIntoBlock src dst bp what obj name keepId =
      (copyGeneric src dst b.key cls obj name false keepId).map (·.1) :=
  copyIntoBlock_generic src dst bp b what cls obj name keepId hb hbk hcls hk h0

theorem copyProperty_is_generic (src dst : Graph) (sec p : Nat) (name : String) (keepId : Bool)
    (hs : kindOf dst sec = "section") (hk : kindOf src p = "property") (h0 : sec ∈ keys dst) :
    copyProperty src dst sec p name keepId =
      (copyGeneric src dst sec "properties" p name false keepId).map (·.1) :=
  copyProperty_generic src dst sec p name keepId hs hk h0

/-- `copy_section`: the generic routine, deep for `children = true`; for `children = false` a
shallow copy followed by re-adding the properties one by one -/
theorem copySection_is_generic (src dst : Graph) (destOwner : Option Path) (owner : Nat) (cls : String)
    (obj : Nat) (children keepId : Bool) (name : String)
    (hd : sectionDest dst destOwner = some (owner, cls)) (hk : kindOf src obj = "section")
    (h0 : owner ∈ keys dst) :
    copySection src dst destOwner obj children keepId name =
      match copyGeneric src dst owner cls obj name (!children) keepId with
      | .error e => .error e
      | .ok (d1, root) =>
        if children then .ok d1 else readdProps src keepId (propsOf src obj) d1 root :=
  copySection_generic src dst destOwner owner cls obj children keepId name hd hk h0

/-! ## the code as it is written now

`harness/extract/copyshape.py` renders `H5Group.copy` and the eight copy entry points of `file.py`,
`block.py`, `section.py` as values (`Generated/CopyShape.lean`) of the shape types of
`Store/CopyShape.lean`; `h5CopyBy` / `callerBy` interpret them over the graph. The theorems of this
section say that the interpretation of the *generated* values is the model the theorems below speak
about — for all arguments. They fail to build when the source changes a guard of the id-regenerating
visitor, drops the rename / the default name / the duplicate test (or tests another group), forwards
another depth or id policy, or loses the re-adding loop of shallow section copies. -/

open Nix.Store.CopyShape in
/-- `H5Group.copy` of the source = `h5Copy` of the model (in particular: the visitor regenerates the
id of **every** copied object that has one — groups and datasets (Properties) alike) -/
theorem h5GroupCopy_source_is_model {src dst : Graph} (hdst : FileOk dst) (obj owner : Nat) (cls name : String)
    (shallow keepId : Bool) (hid : src.entityId obj ≠ none)
    (hleaf : nodeKind src obj ≠ .group → src.links obj = []) :
    h5CopyBy Gen.h5GroupCopy src dst obj owner cls name shallow keepId =
      h5Copy src dst obj owner cls name shallow keepId :=
  h5CopyBy_gen hdst obj owner cls name shallow keepId hid hleaf

open Nix.Store.CopyShape in
/-- the eight entry points as generated from the source -/
def entryPoints : List CallerShape :=
  [Gen.fileCreateBlock, Gen.blockCreateDataArray, Gen.blockCreateDataFrame, Gen.blockCreateTag,
   Gen.blockCreateMultiTag, Gen.sectionCreateProperty, Gen.fileCopySection, Gen.sectionCopySection]

/-- every entry point defaults the name, tests the name in the container it copies into (before the
copy), forwards its id policy, returns the copy by its name, and re-adds the properties exactly when
it can make a shallow copy -/
theorem entryPoints_shape_ok : ∀ sh ∈ entryPoints, ShapeOk sh = true := by decide

open Nix.Store.CopyShape in
/-- kinds and destination containers of the entry points -/
theorem entryPoints_kinds :
    entryPoints.map (fun sh => (sh.srcKind, sh.cls, sh.depth)) =
      [("block", "data", .deep), ("data_array", "data_arrays", .deep), ("data_frame", "data_frames", .deep),
       ("tag", "tags", .deep), ("multi_tag", "multi_tags", .deep), ("property", "properties", .deep),
       ("section", "metadata", .notChildren), ("section", "sections", .notChildren)] := by decide

open Nix.Store.CopyShape in
/-- **every entry point of the source is the generic routine** (so `copy_complete`, `internal_links`,
`ids_kept`, `ids_fresh`, `name_used`, `dup_refused`, `source_untouched` and the independence theorems
below hold for it — including `create_data_frame(copy_from=…)`, which has no hand-written model
function): a source of another kind is refused; else `copyGeneric` into the entry point's container,
deep unless `children=False`, and then the properties are re-added -/
theorem entry_point_source_is_generic {src dst : Graph} (hdst : FileOk dst) (sh : CallerShape)
    (hsh : sh ∈ entryPoints) (owner obj : Nat) (name : String) (children keepId : Bool) (ho : owner ∈ keys dst)
    (hid : src.entityId obj ≠ none) (hleaf : nodeKind src obj ≠ .group → src.links obj = []) :
    (kindOf src obj ≠ sh.srcKind →
      callerBy Gen.h5GroupCopy sh src dst owner obj name children keepId = .error .typeError) ∧
    (kindOf src obj = sh.srcKind →
      callerBy Gen.h5GroupCopy sh src dst owner obj name children keepId =
        match copyGeneric src dst owner sh.cls obj name (shallowOf sh children) keepId with
        | .error e => .error e
        | .ok (d1, root) =>
          if sh.readdsProps && !children then
            (readdProps src keepId (propsOf src obj) d1 root).map fun d => (d, root)
          else .ok (d1, root)) := by
  constructor
  · intro hk
    unfold callerBy
    have : (kindOf src obj != sh.srcKind) = true := by simpa using hk
    rw [if_pos this]
  · intro hk
    exact callerBy_generic hdst sh (entryPoints_shape_ok sh hsh) owner obj name children keepId ho hk hid hleaf

open Nix.Store.CopyShape in
/-- `File.create_block(copy_from=…)` of the source = `copyBlock` of the model -/
theorem copyBlock_source {src dst : Graph} (hdst : FileOk dst) (b : Nat) (name : String) (children keepId : Bool)
    (h0 : 0 ∈ keys dst) (hk : kindOf src b = "block") (hid : src.entityId b ≠ none)
    (hleaf : nodeKind src b ≠ .group → src.links b = []) :
    (callerBy Gen.h5GroupCopy Gen.fileCreateBlock src dst 0 b name children keepId).map (·.1) =
      copyBlock src dst b name keepId := by
  rw [copyBlock_generic src dst b name keepId hk h0,
    (entry_point_source_is_generic hdst Gen.fileCreateBlock (by decide) 0 b name children keepId h0 hid hleaf).2 hk]
  show (match copyGeneric src dst 0 "data" b name false keepId with
    | .error e => .error e | .ok (d1, root) => .ok (d1, root) : Except Err (Graph × Nat)).map (·.1) = _
  cases copyGeneric src dst 0 "data" b name false keepId <;> rfl

open Nix.Store.CopyShape in
/-- `Section.create_property(copy_from=…)` of the source = `copyProperty` of the model -/
theorem copyProperty_source {src dst : Graph} (hdst : FileOk dst) (sec p : Nat) (name : String)
    (children keepId : Bool) (h0 : sec ∈ keys dst) (hs : kindOf dst sec = "section")
    (hk : kindOf src p = "property") (hid : src.entityId p ≠ none)
    (hleaf : nodeKind src p ≠ .group → src.links p = []) :
    (callerBy Gen.h5GroupCopy Gen.sectionCreateProperty src dst sec p name children keepId).map (·.1) =
      copyProperty src dst sec p name keepId := by
  rw [copyProperty_generic src dst sec p name keepId hs hk h0,
    (entry_point_source_is_generic hdst Gen.sectionCreateProperty (by decide) sec p name children keepId h0 hid
      hleaf).2 hk]
  show (match copyGeneric src dst sec "properties" p name false keepId with
    | .error e => .error e | .ok (d1, root) => .ok (d1, root) : Except Err (Graph × Nat)).map (·.1) = _
  cases copyGeneric src dst sec "properties" p name false keepId <;> rfl

open Nix.Store.CopyShape in
/-- `Block.create_data_array / create_tag / create_multi_tag (copy_from=…)` of the source (through
`Block._copy_objects`) = `copyIntoBlock` of the model -/
theorem copyIntoBlock_source {src dst : Graph} (hdst : FileOk dst) (sh : CallerShape) (what : String)
    (hsh : (sh, what) ∈ [(Gen.blockCreateDataArray, "data_array"), (Gen.blockCreateTag, "tag"),
      (Gen.blockCreateMultiTag, "multi_tag")])
    (bp : Path) (b : Loc) (obj : Nat) (name : String) (children keepId : Bool)
    (hb : resolve dst rootLoc bp = some b) (hbk : kindOf dst b.key = "block") (h0 : b.key ∈ keys dst)
    (hk : kindOf src obj = what) (hid : src.entityId obj ≠ none)
    (hleaf : nodeKind src obj ≠ .group → src.links obj = []) :
    (callerBy Gen.h5GroupCopy sh src dst b.key obj name children keepId).map (·.1) =
      copyIntoBlock src dst bp what obj name keepId := by
  have key : ∀ (sh : CallerShape) (cls : String), sh ∈ entryPoints → sh.srcKind = what → sh.cls = cls →
      clsOf what = some cls → sh.readdsProps = false → shallowOf sh children = false →
      (callerBy Gen.h5GroupCopy sh src dst b.key obj name children keepId).map (·.1) =
        copyIntoBlock src dst bp what obj name keepId := by
    intro sh cls hmem hkind hcls hclsOf hre hshal
    rw [copyIntoBlock_generic src dst bp b what cls obj name keepId hb hbk hclsOf hk h0,
      (entry_point_source_is_generic hdst sh hmem b.key obj name children keepId h0 hid hleaf).2 (hk.trans hkind.symm),
      hcls, hre, hshal]
    cases copyGeneric src dst b.key cls obj name false keepId <;> rfl
  simp only [List.mem_cons, Prod.mk.injEq, List.not_mem_nil, or_false] at hsh
  rcases hsh with ⟨rfl, rfl⟩ | ⟨rfl, rfl⟩ | ⟨rfl, rfl⟩
  · exact key _ "data_arrays" (by decide) rfl rfl rfl rfl rfl
  · exact key _ "tags" (by decide) rfl rfl rfl rfl rfl
  · exact key _ "multi_tags" (by decide) rfl rfl rfl rfl rfl

open Nix.Store.CopyShape in
/-- `Block.create_data_frame(copy_from=…)` — the driver's `copyFrameIntoBlock`, executed from the
generated shape — is the generic routine into the block's `data_frames` -/
theorem copyFrameIntoBlock_is_generic {src dst : Graph} (hdst : FileOk dst) (bp : Path) (b : Loc) (obj : Nat)
    (name : String) (keepId : Bool) (hb : resolve dst rootLoc bp = some b) (hbk : kindOf dst b.key = "block")
    (h0 : b.key ∈ keys dst) (hk : kindOf src obj = "data_frame") (hid : src.entityId obj ≠ none)
    (hleaf : nodeKind src obj ≠ .group → src.links obj = []) :
    copyFrameIntoBlock src dst bp obj name keepId =
      (copyGeneric src dst b.key "data_frames" obj name false keepId).map (·.1) := by
  unfold copyFrameIntoBlock
  simp only [hb, hbk, bne_self_eq_false, Bool.false_eq_true, ↓reduceIte]
  rw [(entry_point_source_is_generic hdst Gen.blockCreateDataFrame (by decide) b.key obj name true keepId h0 hid
    hleaf).2 hk]
  show (match copyGeneric src dst b.key "data_frames" obj name false keepId with
    | .error e => .error e | .ok (d1, root) => .ok (d1, root) : Except Err (Graph × Nat)).map (·.1) = _
  cases copyGeneric src dst b.key "data_frames" obj name false keepId <;> rfl

open Nix.Store.CopyShape in
/-- `File.copy_section` / `Section.copy_section` of the source = `copySection` of the model -/
theorem copySection_source {src dst : Graph} (hdst : FileOk dst) (destOwner : Option Path) (owner : Nat)
    (cls : String) (obj : Nat) (name : String) (children keepId : Bool)
    (hd : sectionDest dst destOwner = some (owner, cls)) (h0 : owner ∈ keys dst)
    (hk : kindOf src obj = "section") (hid : src.entityId obj ≠ none)
    (hleaf : nodeKind src obj ≠ .group → src.links obj = []) :
    (callerBy Gen.h5GroupCopy (if destOwner.isNone then Gen.fileCopySection else Gen.sectionCopySection)
        src dst owner obj name children keepId).map (·.1) =
      copySection src dst destOwner obj children keepId name := by
  rw [copySection_generic src dst destOwner owner cls obj children keepId name hd hk h0]
  have key : ∀ sh : CallerShape, sh ∈ entryPoints → sh.srcKind = "section" → sh.cls = cls →
      sh.readdsProps = true → shallowOf sh children = !children →
      (callerBy Gen.h5GroupCopy sh src dst owner obj name children keepId).map (·.1) =
        match copyGeneric src dst owner cls obj name (!children) keepId with
        | .error e => .error e
        | .ok (d1, root) => if children then .ok d1 else readdProps src keepId (propsOf src obj) d1 root := by
    intro sh hmem hkind hcls hre hshal
    rw [(entry_point_source_is_generic hdst sh hmem owner obj name children keepId h0 hid hleaf).2 (hk.trans hkind.symm),
      hcls, hre, hshal]
    cases copyGeneric src dst owner cls obj name (!children) keepId with
    | error e => rfl
    | ok r =>
      obtain ⟨d1, root⟩ := r
      cases children
      · simp only [Bool.not_false, Bool.and_self, ↓reduceIte, Bool.false_eq_true]
        cases readdProps src keepId (propsOf src obj) d1 root <;> rfl
      · rfl
  cases destOwner with
  | none =>
    simp only [sectionDest, Option.some.injEq, Prod.mk.injEq] at hd
    exact key Gen.fileCopySection (by decide) rfl hd.2 rfl rfl
  | some p =>
    have : cls = "sections" := by
      simp only [sectionDest] at hd
      split at hd
      · split at hd
        · simp only [Option.some.injEq, Prod.mk.injEq] at hd; exact hd.2.symm
        · cases hd
      · cases hd
    exact key Gen.sectionCopySection (by decide) rfl this.symm rfl rfl

section
variable {src dst : Graph} {owner obj : Nat} {cls name : String} {keepId : Bool} {g' : Graph} {root : Nat}

/-- **complete**: for a deep copy the key map `m` is a graph isomorphism from the sub-graph reachable
from the source onto the new nodes: the copied set is exactly what is reachable, `m` is injective on
it, the nodes of the result are the old ones plus the images, and every image has the same kind,
the same attributes (except the root's `name` and, when ids are regenerated, `entity_id`) and the
source's links, in the same order, with targets mapped through `m` -/
theorem copy_complete (hdst : FileOk dst)
    (hc : copyGeneric src dst owner cls obj name false keepId = .ok (g', root)) :
    root = copyMap src dst owner cls obj false obj ∧
    (∀ a b, ReachF src obj a → ReachF src obj b →
      copyMap src dst owner cls obj false a = copyMap src dst owner cls obj false b → a = b) ∧
    (∀ k', k' ∈ keys g' ↔ k' ∈ keys (destG dst owner cls) ∨
      ∃ k, ReachF src obj k ∧ k' = copyMap src dst owner cls obj false k) ∧
    (∀ k, ReachF src obj k →
      nkind g' (copyMap src dst owner cls obj false k) = some ((src.node? k).getD {}).kind ∧
      g'.links (copyMap src dst owner cls obj false k) =
        (src.links k).map (fun l => (l.1, copyMap src dst owner cls obj false l.2)) ∧
      ∀ a, (a ≠ "entity_id" ∨ keepId = true) → ¬ (k = obj ∧ a = "name") →
        g'.getAttr (copyMap src dst owner cls obj false k) a = src.getAttr k a) := by
  obtain ⟨_, hg, hr⟩ := copyGeneric_ok hc
  have hd := destOk_dest hdst owner cls
  have hself : obj ∈ copySet src obj false := reachFrom_self src obj
  refine ⟨hr, ?_, ?_, ?_⟩
  · intro a b ha hb e
    exact mapKey_inj _ (reachFrom_complete src obj a ha) (reachFrom_complete src obj b hb) e
  · intro k'
    rw [hg, core_keys, List.mem_append, List.mem_map]
    constructor
    · rintro (h | ⟨k, hk, e⟩)
      · exact .inl h
      · exact .inr ⟨k, reachFrom_sound src obj k hk, e.symm⟩
    · rintro (h | ⟨k, hk, e⟩)
      · exact .inl h
      · exact .inr ⟨k, reachFrom_complete src obj k hk, e.symm⟩
  · intro k hk
    have hk' : k ∈ copySet src obj false := reachFrom_complete src obj k hk
    refine ⟨?_, ?_, ?_⟩
    · rw [hg]; exact core_nkind_new hd hk'
    · rw [hg, copyMap, core_links_new hd hk']; rfl
    · intro a ha hna
      rw [hg, copyMap, core_getAttr_new hd hself hk' a ha, if_neg hna]

/-- **internal links**: every link of a copied node points to a copied node — a new key, never a
node of the destination file as it was (so, for a same-file copy, never an original) -/
theorem internal_links (hdst : FileOk dst)
    (hc : copyGeneric src dst owner cls obj name false keepId = .ok (g', root))
    (k : Nat) (hk : ReachF src obj k) (l : String × Nat)
    (hl : l ∈ g'.links (copyMap src dst owner cls obj false k)) :
    (∃ k2, ReachF src obj k2 ∧ l.2 = copyMap src dst owner cls obj false k2) ∧
    l.2 ∉ keys (destG dst owner cls) ∧ l.2 ∉ keys dst := by
  have hd := destOk_dest hdst owner cls
  have hk' : k ∈ copySet src obj false := reachFrom_complete src obj k hk
  rw [(copy_complete hdst hc).2.2.2 k hk |>.2.1] at hl
  obtain ⟨l0, hl0, e⟩ := List.mem_map.mp hl
  have hreach : ReachF src obj l0.2 := .step l0.1 hk hl0
  have hmem : l0.2 ∈ copySet src obj false := reachFrom_complete src obj _ hreach
  have hrange := (mapKey_range (destG dst owner cls).nextKey hmem).1
  have hnew : l.2 = copyMap src dst owner cls obj false l0.2 := by rw [← e]
  have hnot : l.2 ∉ keys (destG dst owner cls) := by
    intro hin
    have := hd.lt _ hin
    rw [hnew, copyMap] at this
    omega
  refine ⟨⟨l0.2, hreach, hnew⟩, hnot, ?_⟩
  intro hin
  apply hnot
  unfold destG
  rw [keys_ensureGroup]
  split
  · exact List.mem_append.mpr (.inl hin)
  · exact hin

/-- **ids kept**: with `keep_copy_id=True` every copied node has the id of its source (or none) -/
theorem ids_kept (hdst : FileOk dst)
    (hc : copyGeneric src dst owner cls obj name false true = .ok (g', root))
    (k : Nat) (hk : ReachF src obj k) :
    g'.entityId (copyMap src dst owner cls obj false k) = src.entityId k := by
  have := ((copy_complete hdst hc).2.2.2 k hk).2.2 "entity_id" (.inr rfl) (by simp)
  exact this

/-- **ids fresh**: with `keep_copy_id=False` exactly the copied nodes that had an id get one, of the
form `id:n` with `n` at or above the old supply of the destination (hence unused there), … -/
theorem ids_fresh (hdst : FileOk dst)
    (hc : copyGeneric src dst owner cls obj name false false = .ok (g', root))
    (k : Nat) (hk : ReachF src obj k) :
    (src.entityId k = none → g'.entityId (copyMap src dst owner cls obj false k) = none) ∧
    (∀ i, src.entityId k = some i → ∃ n, dst.nextId ≤ n ∧ n < g'.nextId ∧
      g'.entityId (copyMap src dst owner cls obj false k) = some (idStr n)) := by
  obtain ⟨_, hg, _⟩ := copyGeneric_ok hc
  have hd := destOk_dest hdst owner cls
  have h := core_ids_fresh (src := src) (name := effName src obj name) (emptied := emptiedSet src obj false)
    hd (reachFrom_self src obj) (reachFrom_nodup src obj) (reachFrom_complete src obj k hk)
  rw [hg]
  have hn : (destG dst owner cls).nextId = dst.nextId := nextId_ensureGroup dst owner cls
  rw [hn] at h
  exact h

/-- … and pairwise distinct -/
theorem ids_fresh_distinct (hdst : FileOk dst)
    (hc : copyGeneric src dst owner cls obj name false false = .ok (g', root))
    (a b : Nat) (ha : ReachF src obj a) (hb : ReachF src obj b) (hab : a ≠ b)
    (hia : src.entityId a ≠ none) (hib : src.entityId b ≠ none) :
    g'.entityId (copyMap src dst owner cls obj false a) ≠ g'.entityId (copyMap src dst owner cls obj false b) := by
  obtain ⟨_, hg, _⟩ := copyGeneric_ok hc
  have hd := destOk_dest hdst owner cls
  cases hi : src.entityId a with
  | none => exact absurd hi hia
  | some i =>
    cases hj : src.entityId b with
    | none => exact absurd hj hib
    | some j =>
      rw [hg]
      exact core_ids_distinct hd (reachFrom_self src obj) (reachFrom_nodup src obj)
        (reachFrom_complete src obj a ha) (reachFrom_complete src obj b hb) hab hi hj

/-- **name used**: the copy is linked into the destination container under the supplied name — the
source's name when none is given — and its `name` attribute says so -/
theorem name_used (hdst : FileOk dst) {shallow : Bool}
    (hc : copyGeneric src dst owner cls obj name shallow keepId = .ok (g', root)) :
    g'.child? (destC dst owner cls) (effName src obj name) = some root ∧
    g'.getAttr root "name" = some (effName src obj name) ∧
    (name ≠ "" → effName src obj name = name) ∧
    (name = "" → effName src obj name = (src.getAttr obj "name").getD "") := by
  obtain ⟨hfree, hg, hr⟩ := copyGeneric_ok hc
  have hd := destOk_dest hdst owner cls
  have hself : obj ∈ copySet src obj shallow := by
    unfold copySet
    cases shallow
    · exact reachFrom_self src obj
    · simp only [↓reduceIte]
      rw [List.mem_eraseDups]; exact List.mem_cons_self
  refine ⟨?_, ?_, ?_, ?_⟩
  · apply child?_of_links_append (g := destG dst owner cls) _ hfree
    rw [hg, core_links_old hd (hd.lt _ hd.c_mem), if_pos rfl, hr]
  · rw [hg, hr, core_getAttr_new hd hself hself "name" (.inl (by decide)), if_pos ⟨rfl, rfl⟩]
  · intro hne; unfold effName; simp [hne]
  · intro he; unfold effName; simp [he]

/-- **duplicate refused**: an existing name in the destination container ⇒ `DuplicateName`, whatever
the id policy and depth; by `Except` the call returns no new graph — nothing changes -/
theorem dup_refused {shallow : Bool}
    (h : (destG dst owner cls).hasChild (destC dst owner cls) (effName src obj name) = true) :
    copyGeneric src dst owner cls obj name shallow keepId = .error .duplicateName ∧
    applyCopy dst ((copyGeneric src dst owner cls obj name shallow keepId).map (·.1)) = dst := by
  have : copyGeneric src dst owner cls obj name shallow keepId = .error .duplicateName := by
    unfold copyGeneric; rw [if_pos h]
  exact ⟨this, by rw [this]; rfl⟩

/-- the same for an entry that exists in the destination file itself -/
theorem dup_refused_existing {shallow : Bool} {c t : Nat}
    (hcont : dst.child? owner cls = some c) (hent : dst.child? c (effName src obj name) = some t) :
    copyGeneric src dst owner cls obj name shallow keepId = .error .duplicateName := by
  apply (dup_refused _).1
  unfold destG destC
  rw [ensureGroup_of_some hcont]
  unfold Graph.hasChild
  rw [hent]; rfl

/-- **source untouched**: every node of the destination file as it was keeps its kind and attributes,
and its links — except that the destination container gains exactly one link (to the copy's root)
and, if the container group did not exist yet, its owner gains the link to it. For a same-file copy
the source sub-graph consists of such nodes; for a cross-file copy the source graph is not even an
output of the function. -/
theorem source_untouched (hdst : FileOk dst) (ho : owner ∈ keys dst) {shallow : Bool}
    (hc : copyGeneric src dst owner cls obj name shallow keepId = .ok (g', root))
    (k : Nat) (hk : k ∈ keys dst) :
    (∀ a, g'.getAttr k a = dst.getAttr k a) ∧ nkind g' k = nkind dst k ∧
    g'.links k = dst.links k ++
      (if k = owner ∧ dst.child? owner cls = none then [(cls, dst.nextKey)] else []) ++
      (if k = destC dst owner cls then [(effName src obj name, root)] else []) := by
  obtain ⟨_, hg, hr⟩ := copyGeneric_ok hc
  have hd := destOk_dest hdst owner cls
  have hself : obj ∈ copySet src obj shallow := by
    unfold copySet
    cases shallow
    · exact reachFrom_self src obj
    · simp only [↓reduceIte]
      rw [List.mem_eraseDups]; exact List.mem_cons_self
  have hlt : k < (destG dst owner cls).nextKey :=
    Nat.lt_of_lt_of_le (hdst.lt k hk) (nextKey_le_ensureGroup dst owner cls)
  have hens := ensureGroup_old (g := dst) cls ho k
  refine ⟨?_, ?_, ?_⟩
  · intro a
    rw [hg, core_getAttr_old hself hlt a]
    exact hens.1 a
  · rw [hg, core_nkind_old hlt]
    unfold nkind destG
    cases hch : dst.child? owner cls with
    | some c0 => rw [ensureGroup_of_some hch]
    | none =>
      rw [ensureGroup_of_none hch]
      have : ∀ g : Graph, (g.node? k).map (·.kind) = nkind g k := fun _ => rfl
      rw [this, this, nkind_addLink]
      unfold nkind
      rw [node?_newNode]
      have : k ≠ dst.nextKey := Nat.ne_of_lt (hdst.lt k hk)
      simp [this]
      cases dst.node? k <;> rfl
  · rw [hg, core_links_old hd hlt, ← hr]
    unfold destG at *
    rw [hens.2]
    by_cases h1 : k = destC dst owner cls
    · rw [if_pos h1, if_pos h1, ← h1, hens.2]
      split <;> simp
    · rw [if_neg h1, if_neg h1]; split <;> simp

end

/-- **shallow copy** (`children=False` of `copy_section`, before the properties are re-added): the root
is duplicated with its attributes and its member links (to duplicates of the members); every member
(the `properties` / `sections` groups, a linked section) is duplicated with its attributes but
*without* links — an empty group. `copySection_is_generic` then re-adds the properties of the source
one by one with `copyProperty` (each a deep generic copy into the emptied `properties` group). -/
theorem shallow_contents {src dst : Graph} {owner obj : Nat} {cls name : String} {keepId : Bool} {g' : Graph}
    {root : Nat} (hdst : FileOk dst)
    (hc : copyGeneric src dst owner cls obj name true keepId = .ok (g', root)) :
    root = copyMap src dst owner cls obj true obj ∧
    g'.links root = (src.links obj).map (fun l => (l.1, copyMap src dst owner cls obj true l.2)) ∧
    (∀ a, (a ≠ "entity_id" ∨ keepId = true) → a ≠ "name" → g'.getAttr root a = src.getAttr obj a) ∧
    (∀ l ∈ src.links obj, l.2 ≠ obj →
      g'.links (copyMap src dst owner cls obj true l.2) = [] ∧
      nkind g' (copyMap src dst owner cls obj true l.2) = some ((src.node? l.2).getD {}).kind ∧
      ∀ a, (a ≠ "entity_id" ∨ keepId = true) →
        g'.getAttr (copyMap src dst owner cls obj true l.2) a = src.getAttr l.2 a) := by
  obtain ⟨_, hg, hr⟩ := copyGeneric_ok hc
  have hd := destOk_dest hdst owner cls
  have hself : obj ∈ copySet src obj true := by
    unfold copySet; simp only [↓reduceIte]; rw [List.mem_eraseDups]; exact List.mem_cons_self
  have hmem : ∀ l ∈ src.links obj, l.2 ∈ copySet src obj true := by
    intro l hl
    unfold copySet; simp only [↓reduceIte]; rw [List.mem_eraseDups]
    exact List.mem_cons.mpr (.inr (List.mem_map.mpr ⟨l, hl, rfl⟩))
  have hroot_not : (emptiedSet src obj true).contains obj = false := by
    unfold emptiedSet; simp
  refine ⟨hr, ?_, ?_, ?_⟩
  · rw [hr, hg, core_links_new hd hself, hroot_not]; rfl
  · intro a ha hna
    rw [hr, hg, core_getAttr_new hd hself hself a ha, if_neg (fun h => hna h.2)]
  · intro l hl hne
    have hin : (emptiedSet src obj true).contains l.2 = true := by
      unfold emptiedSet
      simp only [↓reduceIte, List.contains_eq_mem, List.mem_filter, List.mem_map, bne_iff_ne, ne_eq,
        decide_eq_true_eq]
      exact ⟨⟨l, hl, rfl⟩, hne⟩
    refine ⟨?_, ?_, ?_⟩
    · rw [hg, copyMap, core_links_new hd (hmem l hl), hin]; rfl
    · rw [hg]; exact core_nkind_new hd (hmem l hl)
    · intro a ha
      rw [hg, copyMap, core_getAttr_new hd hself (hmem l hl) a ha, if_neg (fun h => hne h.1)]

theorem child?_of_links_map {src g' : Graph} {o r : Nat} {f : Nat → Nat}
    (h : g'.links r = (src.links o).map (fun l => (l.1, f l.2))) (n : String) :
    g'.child? r n = (src.child? o n).map f := by
  rw [child?_eq, child?_eq, h, List.find?_map]
  have : ((fun l : String × Nat => l.1 == n) ∘ fun l : String × Nat => (l.1, f l.2)) = fun l => l.1 == n := rfl
  rw [this]
  cases (src.links o).find? (fun l => l.1 == n) <;> rfl

/-- **shallow section copy, final result** (`copy_section(children=False)`, after the properties were
re-added): the copy's `properties` group holds one entry per Property of the source, in the
source's order, each linked under the Property's name, with that `name` attribute and every other
attribute of the source Property (the id too when ids are kept); the section itself has the source's
attributes and the requested name; nothing else of the source is below it (`shallow_contents`: the
other member groups are empty). For every source section whose Properties are Properties, every
destination, both id policies. -/
theorem shallow_section_result {src dst : Graph} (hdst : FileOk dst) (destOwner : Option Path) (owner : Nat)
    (cls : String) (obj : Nat) (keepId : Bool) (name : String) {g'' : Graph}
    (hd : sectionDest dst destOwner = some (owner, cls)) (h0 : owner ∈ keys dst)
    (hk : kindOf src obj = "section") (hself : src.child? obj "properties" ≠ some obj)
    (hprops : ∀ p ∈ propsOf src obj, kindOf src p.2 = "property")
    (hc : copySection src dst destOwner obj false keepId name = .ok g'') :
    ∃ d1 root, copyGeneric src dst owner cls obj name true keepId = .ok (d1, root) ∧
      Pairwise₂ (PropCopied src keepId g'') (propsOf g'' root) (propsOf src obj) ∧
      (∀ a, (a ≠ "entity_id" ∨ keepId = true) → a ≠ "name" → g''.getAttr root a = src.getAttr obj a) ∧
      g''.getAttr root "name" = some (effName src obj name) := by
  rw [copySection_generic src dst destOwner owner cls obj false keepId name hd hk h0] at hc
  cases hcg : copyGeneric src dst owner cls obj name (!false) keepId with
  | error e => rw [hcg] at hc; cases hc
  | ok res =>
    obtain ⟨d1, root⟩ := res
    rw [hcg] at hc
    simp only [Bool.false_eq_true, ↓reduceIte] at hc
    have hcg' : copyGeneric src dst owner cls obj name true keepId = .ok (d1, root) := hcg
    obtain ⟨hr, hlinks, hattrs, hmembers⟩ := shallow_contents hdst hcg'
    have hfo := fileOk_copyGeneric hdst h0 hcg'
    have hnu := name_used hdst hcg'
    have hroot : root ∈ keys d1 := hfo.target _ _ (child?_some_mem hnu.1)
    have hsec : kindOf d1 root = "section" := by
      rw [kindOf_eq, hattrs "~kind" (.inl (by decide)) (by decide), ← kindOf_eq]; exact hk
    have hempty : propsOf d1 root = [] := by
      unfold propsOf
      rw [child?_of_links_map hlinks "properties"]
      cases hsp : src.child? obj "properties" with
      | none => rfl
      | some pc0 =>
        simp only [Option.map_some]
        have hne : pc0 ≠ obj := fun e => hself (by rw [hsp, e])
        exact (hmembers ("properties", pc0) (child?_some_mem hsp) hne).1
    obtain ⟨h1, _, h3, _⟩ := readdProps_result (propsOf src obj) d1 g'' [] hfo hroot hsec hprops
      (by rw [hempty]; exact .nil) hc
    have hlt := hfo.lt root hroot
    refine ⟨d1, root, hcg', by simpa using h1, ?_, ?_⟩
    · intro a ha hna
      rw [h3 root hlt a]; exact hattrs a ha hna
    · rw [h3 root hlt "name"]; exact hnu.2.1

/-- a block `b` (2) with array `a` (4, `id:0`) and tag `t` (6, `id:1`) whose `references` group (7)
links the array -/
def linkedFile : Graph :=
  { nodes := [(0, { links := [("data", 1)] }),
              (1, { links := [("b", 2)] }),
              (2, { attrs := [("entity_id", "id:9"), ("name", "b"), ("~kind", "block")],
                    links := [("data_arrays", 3), ("tags", 5)] }),
              (3, { links := [("a", 4)] }),
              (4, { attrs := [("entity_id", "id:0"), ("name", "a"), ("~kind", "data_array")] }),
              (5, { links := [("t", 6)] }),
              (6, { attrs := [("entity_id", "id:1"), ("name", "t"), ("~kind", "tag")], links := [("references", 7)] }),
              (7, { links := [("id:0", 4)] })],
    nextKey := 8, nextId := 10 }

/-- non-vacuity / illustration: copying the block within the file duplicates six nodes (keys 8–13); the
copied tag's reference list (13) links the *copied* array (10), not the original (4); with regenerated
ids the copy carries `id:10`, `id:11`, `id:12` -/
example : ((copyGeneric linkedFile linkedFile 0 "data" 2 "b2" false true).toOption.map
    fun r => (r.2, r.1.links 13, r.1.links 1, r.1.entityId 10)) =
    some (8, [("id:0", 10)], [("b", 2), ("b2", 8)], some "id:0") := by decide

example : ((copyGeneric linkedFile linkedFile 0 "data" 2 "b2" false false).toOption.map
    fun r => (r.1.entityId 8, r.1.entityId 10, r.1.entityId 12, r.1.entityId 9, r.1.getAttr 8 "name")) =
    some (some "id:10", some "id:11", some "id:12", none, some "b2") := by decide

/-- an existing name is refused -/
example : (copyGeneric linkedFile linkedFile 0 "data" 2 "" false true).toOption = none := by decide

/-! ### link lists name their entries by id

Link lists (`Group.data_arrays`, `Tag.references`, `sources` …) link their items under the items'
`entity_id`; membership (`item in list`), lookup by id and the idempotence of `append` rely on it.
`H5Group.copy` regenerates the `entity_id` attributes but copies the link names verbatim
(`copy_complete`: the copy's links carry the *source's* names). With kept ids the convention
survives the copy (`id_named_links_kept`); with regenerated ids it does not
(`id_named_links_counterexample`, open known finding `C20-fresh-ids-stale-link-names`: in the copy
`array in group.data_arrays` is false, `group.data_arrays[array.id]` raises KeyError and a second
`append` adds a second entry). A repair inside `H5Group.copy` would have to tell link lists from
owning containers (an entity created without a name is linked under its id in its *owning* container
too, and must keep that name) — not a small change; recorded, not repaired. -/

/-- the full statement: an id-named link of the source (`name = entity_id` of its target) is an id-named
link of the copy -/
def id_named_links_full : Prop :=
  ∀ (src dst : Graph) (owner obj : Nat) (cls name : String) (keepId : Bool) (g' : Graph) (root : Nat),
    FileOk dst → copyGeneric src dst owner cls obj name false keepId = .ok (g', root) →
    ∀ k, ReachF src obj k → ∀ l ∈ src.links k, src.entityId l.2 = some l.1 →
      ∀ l' ∈ g'.links (copyMap src dst owner cls obj false k), l'.1 = l.1 →
        g'.entityId l'.2 = some l'.1

section
variable {src dst : Graph} {owner obj : Nat} {cls name : String} {g' : Graph} {root : Nat}

/-- it holds when the ids are kept -/
theorem id_named_links_kept (hdst : FileOk dst)
    (hc : copyGeneric src dst owner cls obj name false true = .ok (g', root))
    (k : Nat) (hk : ReachF src obj k) (l' : String × Nat)
    (hl' : l' ∈ g'.links (copyMap src dst owner cls obj false k))
    (hnamed : ∀ l ∈ src.links k, l.1 = l'.1 → src.entityId l.2 = some l.1) :
    g'.entityId l'.2 = some l'.1 := by
  rw [((copy_complete hdst hc).2.2.2 k hk).2.1] at hl'
  obtain ⟨l0, hl0, e⟩ := List.mem_map.mp hl'
  have hr : ReachF src obj l0.2 := .step l0.1 hk hl0
  rw [← e]
  simp only
  rw [ids_kept hdst hc l0.2 hr]
  exact hnamed l0 hl0 (by rw [← e])

end

theorem linkedFile_ok : FileOk linkedFile := by
  refine ⟨by decide, ?_⟩
  intro k l hl
  have hk : k ∈ keys linkedFile := (node?_isSome_iff _ k).mp (node?_isSome_of_link hl)
  have : ∀ k ∈ keys linkedFile, ∀ l ∈ linkedFile.links k, l.2 ∈ keys linkedFile := by decide
  exact this k hk l hl

/-- with regenerated ids it fails: the copied tag's reference list links the copied array (id `id:11`)
under the source's id `id:0` -/
theorem id_named_links_counterexample : ¬ id_named_links_full := by
  intro h
  have hc : ∃ r, copyGeneric linkedFile linkedFile 0 "data" 2 "b2" false false = .ok r := by
    cases hh : copyGeneric linkedFile linkedFile 0 "data" 2 "b2" false false with
    | ok r => exact ⟨r, rfl⟩
    | error e =>
      have : (copyGeneric linkedFile linkedFile 0 "data" 2 "b2" false false).toOption.isSome = true := by decide
      rw [hh] at this; cases this
  obtain ⟨r, hr⟩ := hc
  have e : r = (copyGeneric linkedFile linkedFile 0 "data" 2 "b2" false false).toOption.get! := by rw [hr]; rfl
  have hreach : ReachF linkedFile 2 7 :=
    .step (p := 6) (k := 7) "references" (.step (p := 5) (k := 6) "t" (.step (p := 2) (k := 5) "tags" .refl (by decide))
      (by decide)) (by decide)
  have := h linkedFile linkedFile 0 2 "data" "b2" false r.1 r.2 linkedFile_ok hr 7 hreach ("id:0", 4) (by decide)
    (by decide) ("id:0", 10)
  rw [e] at this
  revert this
  decide

/-! ## independence

After a deep copy the graph consists of two sides: the *old* nodes (the destination file as it was,
after opening the container group — for a same-file copy this includes the source sub-graph) and the
*new* nodes (the images under the key map). The only link between the sides is the one from the
destination container to the copy's root. Calls addressed to one side change only that side. -/

/-- `k'` is a node of the copy -/
def IsNew (src dst : Graph) (owner : Nat) (cls : String) (obj : Nat) (k' : Nat) : Prop :=
  ∃ k, ReachF src obj k ∧ k' = copyMap src dst owner cls obj false k

/-- `k` is a node of the destination file as it was (after the container group was opened) -/
def IsOld (dst : Graph) (owner : Nat) (cls : String) (k : Nat) : Prop := k ∈ keys (destG dst owner cls)

section
variable {src dst : Graph} {owner obj : Nat} {cls name : String} {keepId : Bool} {g' : Graph} {root : Nat}

theorem new_ge (hk : IsNew src dst owner cls obj k') : (destG dst owner cls).nextKey ≤ k' ∧
    k' < (destG dst owner cls).nextKey + (reachFrom src obj).length := by
  obtain ⟨k, hr, e⟩ := hk
  rw [e]
  exact mapKey_range _ (reachFrom_complete src obj k hr)

theorem old_lt (hdst : FileOk dst) (hk : IsOld dst owner cls k) : k < (destG dst owner cls).nextKey :=
  (destOk_dest hdst owner cls).lt k hk

/-- the two sides are disjoint -/
theorem old_ne_new (hdst : FileOk dst) {k k' : Nat} (hk : IsOld dst owner cls k)
    (hk' : IsNew src dst owner cls obj k') : k ≠ k' := by
  have := old_lt hdst hk
  have := (new_ge hk').1
  omega

/-- the copy is closed under links -/
theorem copy_closed (hdst : FileOk dst)
    (hc : copyGeneric src dst owner cls obj name false keepId = .ok (g', root))
    (k' : Nat) (hk' : IsNew src dst owner cls obj k') (l : String × Nat) (hl : l ∈ g'.links k') :
    IsNew src dst owner cls obj l.2 := by
  obtain ⟨k, hr, e⟩ := hk'
  rw [e] at hl
  exact (internal_links hdst hc k hr l hl).1

/-- a path that enters the copy stays inside it -/
theorem path_stays_in_copy (hdst : FileOk dst)
    (hc : copyGeneric src dst owner cls obj name false keepId = .ok (g', root))
    {l l' : Loc} {p : Path} (hl : IsNew src dst owner cls obj l.key) (h : resolve g' l p = some l') :
    IsNew src dst owner cls obj l'.key :=
  resolve_closed (S := IsNew src dst owner cls obj) (fun k hk l hl => copy_closed hdst hc k hk l hl) hl h

/-- links of old nodes lead to old nodes — except the one new link from the destination container
to the copy's root -/
theorem old_links (hdst : FileOk dst) (ho : owner ∈ keys dst)
    (hc : copyGeneric src dst owner cls obj name false keepId = .ok (g', root))
    (k : Nat) (hk : IsOld dst owner cls k) (l : String × Nat) (hl : l ∈ g'.links k) :
    IsOld dst owner cls l.2 ∨ (k = destC dst owner cls ∧ l = (effName src obj name, root)) := by
  obtain ⟨_, hg, hr⟩ := copyGeneric_ok hc
  have hd := destOk_dest hdst owner cls
  have hfo : FileOk (destG dst owner cls) := fileOk_ensureGroup hdst cls ho
  rw [hg, core_links_old hd (hd.lt k hk)] at hl
  split at hl
  · rename_i hkc
    rcases List.mem_append.mp hl with h | h
    · exact .inl (hfo.target _ l (hkc ▸ h))
    · simp only [List.mem_singleton] at h
      exact .inr ⟨hkc, by rw [h, hr]⟩
  · exact .inl (hfo.target k l hl)

/-- **independent (attributes)**: an attribute setter addressed to a node of the copy leaves every old
node as it was, and one addressed to an old node leaves every node of the copy as it was -/
theorem independent_setAttr (hdst : FileOk dst)
    (_hc : copyGeneric src dst owner cls obj name false keepId = .ok (g', root))
    {g'' : Graph} {p : Path} {a : String} {v : Option String} {o : Loc}
    (hop : setAttrOp g' p a v = .ok g'') (hr : resolve g' rootLoc p = some o) :
    (IsNew src dst owner cls obj o.key → ∀ k, IsOld dst owner cls k → SameNode g' g'' k) ∧
    (IsOld dst owner cls o.key → ∀ k', IsNew src dst owner cls obj k' → SameNode g' g'' k') :=
  ⟨fun hn k hk => setAttrOp_frame hop hr k (old_ne_new hdst hk hn),
   fun ho k' hk' => setAttrOp_frame hop hr k' (fun e => old_ne_new hdst ho hk' e.symm)⟩

theorem nextKey_result (hc : copyGeneric src dst owner cls obj name false keepId = .ok (g', root)) :
    g'.nextKey = (destG dst owner cls).nextKey + (reachFrom src obj).length := by
  obtain ⟨_, hg, _⟩ := copyGeneric_ok hc
  rw [hg, core_nextKey]; rfl

/-- **independent (create)**: `create_property` on a section of the copy leaves every old node as it
was; on an old section (not the destination container group itself, which is no entity) it leaves
every node of the copy as it was. `independent_create_entity` is the same for `Entity.create_new`
(sections, groups, arrays, tags, sources …). -/
theorem independent_createProperty (hdst : FileOk dst) (ho : owner ∈ keys dst)
    (hc : copyGeneric src dst owner cls obj name false keepId = .ok (g', root))
    {g'' : Graph} {p : Path} {pname : String} {o : Loc}
    (hop : createProperty g' p pname = .ok g'') (hr : resolve g' rootLoc p = some o) :
    (IsNew src dst owner cls obj o.key → ∀ k, IsOld dst owner cls k → SameNode g' g'' k) ∧
    (IsOld dst owner cls o.key → o.key ≠ destC dst owner cls →
      ∀ k', IsNew src dst owner cls obj k' → SameNode g' g'' k') := by
  have hnk := nextKey_result hc
  constructor
  · intro hn k hk
    apply createProperty_frame hop hr k
    · have := old_lt hdst hk; omega
    · exact old_ne_new hdst hk hn
    · intro hch
      have := copy_closed hdst hc o.key hn ("properties", k) (child?_some_mem hch)
      exact old_ne_new hdst hk this rfl
  · intro hold hne k' hk'
    apply createProperty_frame hop hr k'
    · have := (new_ge hk').2; omega
    · exact fun e => old_ne_new hdst hold hk' e.symm
    · intro hch
      rcases old_links hdst ho hc o.key hold ("properties", k') (child?_some_mem hch) with h | h
      · exact old_ne_new hdst h hk' rfl
      · exact hne h.1

theorem independent_create_entity (hdst : FileOk dst) (ho : owner ∈ keys dst)
    (hc : copyGeneric src dst owner cls obj name false keepId = .ok (g', root))
    {g'' : Graph} {own k0 : Nat} {cname nm type kind : String}
    (hop : entityCreateNew g' own cname nm type kind = .ok (g'', k0)) :
    (IsNew src dst owner cls obj own → ∀ k, IsOld dst owner cls k → k ≠ k0 → SameNode g' g'' k) ∧
    (IsOld dst owner cls own → own ≠ destC dst owner cls →
      ∀ k', IsNew src dst owner cls obj k' → k' ≠ k0 → SameNode g' g'' k') := by
  have hnk := nextKey_result hc
  constructor
  · intro hn k hk hk0
    apply entityCreateNew_frame hop k
    · have := old_lt hdst hk; omega
    · exact old_ne_new hdst hk hn
    · intro hch
      have := copy_closed hdst hc own hn (cname, k) (child?_some_mem hch)
      exact old_ne_new hdst hk this rfl
    · exact hk0
  · intro hold hne k' hk' hk0
    apply entityCreateNew_frame hop k'
    · have := (new_ge hk').2; omega
    · exact fun e => old_ne_new hdst hold hk' e.symm
    · intro hch
      rcases old_links hdst ho hc own hold (cname, k') (child?_some_mem hch) with h | h
      · exact old_ne_new hdst h hk' rfl
      · exact hne h.1
    · exact hk0

/-- **independent (append)**: appending to a link list (group members, tag references, sources) of
an entity of the copy leaves every old node as it was, and vice versa -/
theorem independent_append (hdst : FileOk dst) (ho : owner ∈ keys dst)
    (hc : copyGeneric src dst owner cls obj name false keepId = .ok (g', root))
    {g'' : Graph} {c : Cont} {key : Key} (hop : contAppend g' c key = .ok g'') :
    (IsNew src dst owner cls obj c.owner.key → ∀ k, IsOld dst owner cls k → SameNode g' g'' k) ∧
    (IsOld dst owner cls c.owner.key → c.owner.key ≠ destC dst owner cls →
      ∀ k', IsNew src dst owner cls obj k' → SameNode g' g'' k') := by
  have hnk := nextKey_result hc
  constructor
  · intro hn k hk
    apply contAppend_frame hop k
    · have := old_lt hdst hk; omega
    · exact old_ne_new hdst hk hn
    · intro hch
      have := copy_closed hdst hc c.owner.key hn (c.cname, k) (child?_some_mem hch)
      exact old_ne_new hdst hk this rfl
  · intro hold hne k' hk'
    apply contAppend_frame hop k'
    · have := (new_ge hk').2; omega
    · exact fun e => old_ne_new hdst hold hk' e.symm
    · intro hch
      rcases old_links hdst ho hc c.owner.key hold (c.cname, k') (child?_some_mem hch) with h | h
      · exact old_ne_new hdst h hk' rfl
      · exact hne h.1

/-! ### histories

`independent_history`: after a deep copy, **any sequence of API calls** (`Store.Op`: creating sections,
properties, arrays, tags, multi-tags, groups, sources, features; appending to and removing from
link lists; setting and clearing role links and attributes; deleting entities; re-opening) made *on
entities of the copy's side* (the duplicates and whatever was created later), with every entity
argument taken from that side in the state the call is made in, leaves every node of the
destination file as it was — attributes unchanged, link lists unchanged except that the link from
the destination container to a deleted copy may disappear (`LocalUpd`). Deletions of entities
(`Container.__delitem__` of every flavour: `delete_all` of the item / its section subtree / its source
subtree, file-wide) are by object, and the objects handed over lie on the side the call is addressed to
(`subtreeKeys_side`), so they are covered like every other call, for both id policies — no hypothesis
about ids. The invariant carried through the history is `SideInv` (the side stays closed under links).
`IdInv` (ids of the two sides disjoint — with regenerated ids and a destination whose ids come from its
own supply, `IdsBelow`) is carried too (`ids_disjoint_after_history`) but nothing depends on it. -/

/-- every id in the file was drawn from the file's own supply -/
def IdsBelow (g : Graph) : Prop := ∀ k i, g.entityId k = some i → ∃ j, j < g.nextId ∧ i = idStr j

section
variable {src dst : Graph} {owner obj : Nat} {cls name : String} {keepId : Bool} {g' : Graph} {root : Nat}

/-- a node of the result at or above the old node supply is a duplicate -/
theorem new_of_ge (hdst : FileOk dst)
    (hc : copyGeneric src dst owner cls obj name false keepId = .ok (g', root)) {k : Nat}
    (hk : (destG dst owner cls).nextKey ≤ k) (hn : (g'.node? k).isSome) : IsNew src dst owner cls obj k := by
  rcases ((copy_complete hdst hc).2.2.1 k).mp ((node?_isSome_iff g' k).mp hn) with h | h
  · have := (destOk_dest hdst owner cls).lt k h; omega
  · exact h

/-- the copy's side: the duplicates and every node created later -/
def CopySide (dst : Graph) (owner : Nat) (cls : String) : Nat → Prop := fun k => (destG dst owner cls).nextKey ≤ k

/-- the result of a deep copy satisfies the side invariant: the duplicates are closed under links -/
theorem sideInv_after_copy (hdst : FileOk dst)
    (hc : copyGeneric src dst owner cls obj name false keepId = .ok (g', root)) :
    SideInv (CopySide dst owner cls) dst.nextId g' := by
  obtain ⟨_, hg, _⟩ := copyGeneric_ok hc
  refine ⟨?_, ?_, ?_⟩
  · intro k hk
    show (destG dst owner cls).nextKey ≤ k
    rw [nextKey_result hc] at hk; omega
  · rw [hg, ← nextId_ensureGroup dst owner cls]; exact core_nextId_le
  · intro k hk l hl
    have hnew := new_of_ge hdst hc hk (node?_isSome_of_link hl)
    exact (new_ge (copy_closed hdst hc k hnew l hl)).1

/-- … and, when the ids were regenerated, the ids of the two sides are disjoint -/
theorem idInv_after_copy (hdst : FileOk dst) (hb : IdsBelow dst)
    (hc : copyGeneric src dst owner cls obj name false false = .ok (g', root)) :
    IdInv (CopySide dst owner cls) dst.nextId (fun j => j < dst.nextId) g' := by
  obtain ⟨_, hg, _⟩ := copyGeneric_ok hc
  refine ⟨fun j hj => by omega, ?_, ?_⟩
  · intro k hk i hi
    have hn : (g'.node? k).isSome := node?_isSome_of_getAttr hi
    obtain ⟨k0, hr, e⟩ := new_of_ge hdst hc hk hn
    have hf := ids_fresh hdst hc k0 hr
    rw [e] at hi
    cases hs : src.entityId k0 with
    | none => rw [hf.1 hs] at hi; cases hi
    | some i0 =>
      obtain ⟨n, hn1, hn2, hn3⟩ := hf.2 i0 hs
      rw [hn3] at hi
      simp only [Option.some.injEq] at hi
      exact ⟨n, hi.symm, by omega⟩
  · intro k hk i hi
    have hk' : k < (destG dst owner cls).nextKey := Nat.lt_of_not_le hk
    have hself : obj ∈ copySet src obj false := reachFrom_self src obj
    rw [entityId_eq, hg, core_getAttr_old hself hk'] at hi
    unfold destG at hi
    rw [getAttr_ensureGroup] at hi
    obtain ⟨j, hj, e⟩ := hb k i hi
    exact ⟨j, e, hj⟩

/-- **independent (histories, copy's side)**: see the section comment. Every kind of call, global
deletions included; both id policies. -/
theorem independent_history (hdst : FileOk dst)
    (hc : copyGeneric src dst owner cls obj name false keepId = .ok (g', root))
    (ops : List Op) (ha : AddressedAll (CopySide dst owner cls) g' ops) :
    LocalUpd (CopySide dst owner cls) dst.nextId g' (run g' ops) :=
  lu_run ops (sideInv_after_copy hdst hc) ha

/-- the same in terms of what can be observed at the old nodes: same attributes; the links that lead
to old nodes all kept, nothing added, order kept -/
theorem independent_history_observed (hdst : FileOk dst)
    (hc : copyGeneric src dst owner cls obj name false keepId = .ok (g', root))
    (ops : List Op) (ha : AddressedAll (CopySide dst owner cls) g' ops) (k : Nat) (hk : IsOld dst owner cls k) :
    (∀ a, (run g' ops).getAttr k a = g'.getAttr k a) ∧
    ((run g' ops).links k).Sublist (g'.links k) ∧
    (∀ l ∈ g'.links k, IsOld dst owner cls l.2 → l ∈ (run g' ops).links k) := by
  have h := independent_history hdst hc ops ha
  have hlt : ¬ CopySide dst owner cls k := Nat.not_le_of_lt (old_lt hdst hk)
  exact ⟨h.attrs k hlt, h.sub k hlt,
    fun l hl ho => h.keep k hlt l hl (Nat.not_le_of_lt (old_lt hdst ho))⟩

/-- with regenerated ids (and a destination whose ids come from its own supply) the ids of the two sides are
still disjoint after any history on the copy's side -/
theorem ids_disjoint_after_history (hdst : FileOk dst) (hb : IdsBelow dst)
    (hc : copyGeneric src dst owner cls obj name false false = .ok (g', root))
    (ops : List Op) (ha : AddressedAll (CopySide dst owner cls) g' ops) :
    IdInv (CopySide dst owner cls) dst.nextId (fun j => j < dst.nextId) (run g' ops) :=
  idInv_run ops (sideInv_after_copy hdst hc) (idInv_after_copy hdst hb hc) ha

end

/-! ### histories on the source's side (same-file copies)

The converse direction: the *source sub-graph* (what is reachable from the source in the file before
the copy), together with whatever is created later, is a side too — when the destination container
and its owner lie outside it (the copy is not placed inside its own source). Any history of calls
made on it, with entity arguments from it, leaves the copy — and every other node of the file —
exactly as it was — entity deletions included (by object: the source's objects are not the copy's, whatever
ids they carry), for both id policies. For a copy into another file the source's file is a different
graph: no call on it is a function of the copy's file. -/

section
variable {dst : Graph} {owner obj : Nat} {cls name : String} {keepId : Bool} {g' : Graph} {root : Nat}

/-- the source's side after a same-file copy with result `g'` -/
def SourceSide (dst : Graph) (obj : Nat) (g' : Graph) : Nat → Prop := fun k => ReachF dst obj k ∨ g'.nextKey ≤ k

/-- ids are pairwise distinct -/
def IdsDistinct (g : Graph) : Prop := ∀ k k' i, g.entityId k = some i → g.entityId k' = some i → k = k'

theorem reach_keys (hdst : FileOk dst) (hobj : obj ∈ keys dst) {k : Nat} (h : ReachF dst obj k) : k ∈ keys dst := by
  induction h with
  | refl => exact hobj
  | step n _ hl _ => exact hdst.target _ _ hl

/-- nodes of the source sub-graph keep their links through the copy -/
theorem source_links_kept (hdst : FileOk dst) (ho : owner ∈ keys dst) (hobj : obj ∈ keys dst)
    (hO : ¬ ReachF dst obj owner) (hC : ¬ ReachF dst obj (destC dst owner cls))
    (hc : copyGeneric dst dst owner cls obj name false keepId = .ok (g', root)) {k : Nat} (hk : ReachF dst obj k) :
    g'.links k = dst.links k ∧ ∀ a, g'.getAttr k a = dst.getAttr k a := by
  have h := source_untouched hdst ho hc k (reach_keys hdst hobj hk)
  refine ⟨?_, h.1⟩
  have h1 : ¬ (k = owner ∧ dst.child? owner cls = none) := fun e => hO (e.1 ▸ hk)
  have h2 : ¬ (k = destC dst owner cls) := fun e => hC (e ▸ hk)
  rw [h.2.2, if_neg h1, if_neg h2]
  simp

theorem sourceSideInv_after_copy (hdst : FileOk dst) (ho : owner ∈ keys dst) (hobj : obj ∈ keys dst)
    (hO : ¬ ReachF dst obj owner) (hC : ¬ ReachF dst obj (destC dst owner cls))
    (hc : copyGeneric dst dst owner cls obj name false keepId = .ok (g', root)) :
    SideInv (SourceSide dst obj g') g'.nextId g' := by
  have hfo := fileOk_copyGeneric hdst ho hc
  refine ⟨fun k hk => .inr hk, Nat.le_refl _, ?_⟩
  intro k hk l hl
  rcases hk with hk | hk
  · rw [(source_links_kept hdst ho hobj hO hC hc hk).1] at hl
    exact .inl (.step l.1 hk hl)
  · have := hfo.lt k ((node?_isSome_iff g' k).mp (node?_isSome_of_link hl))
    omega

/-- a node of `g'` outside the source's side is an old node outside the source sub-graph, or a duplicate -/
theorem idInv_source_side (hdst : FileOk dst) (ho : owner ∈ keys dst) (hobj : obj ∈ keys dst)
    (hb : IdsBelow dst) (hdis : IdsDistinct dst)
    (hc : copyGeneric dst dst owner cls obj name false false = .ok (g', root)) :
    IdInv (SourceSide dst obj g') g'.nextId
      (fun j => ∃ x, ¬ SourceSide dst obj g' x ∧ g'.entityId x = some (idStr j)) g' := by
  obtain ⟨_, hg, _⟩ := copyGeneric_ok hc
  have hself : obj ∈ copySet dst obj false := reachFrom_self dst obj
  -- the id of any node of g': an old id of the same node, or a fresh one of a duplicate
  have hid : ∀ x i, g'.entityId x = some i →
      (x < (destG dst owner cls).nextKey ∧ dst.entityId x = some i ∧ ∃ j, j < dst.nextId ∧ i = idStr j) ∨
      ((destG dst owner cls).nextKey ≤ x ∧ ∃ n, dst.nextId ≤ n ∧ n < g'.nextId ∧ i = idStr n) := by
    intro x i hi
    by_cases hx : x < (destG dst owner cls).nextKey
    · have hi' := hi
      rw [entityId_eq, hg, core_getAttr_old hself hx] at hi'
      unfold destG at hi'
      rw [getAttr_ensureGroup] at hi'
      exact .inl ⟨hx, hi', hb x i hi'⟩
    · have hx' : (destG dst owner cls).nextKey ≤ x := Nat.le_of_not_lt hx
      obtain ⟨k0, hr, e⟩ := new_of_ge hdst hc hx' (node?_isSome_of_getAttr hi)
      have hf := ids_fresh hdst hc k0 hr
      rw [e] at hi
      cases hs : dst.entityId k0 with
      | none => rw [hf.1 hs] at hi; cases hi
      | some i0 =>
        obtain ⟨n, hn1, hn2, hn3⟩ := hf.2 i0 hs
        rw [hn3] at hi
        simp only [Option.some.injEq] at hi
        exact .inr ⟨hx', n, hn1, hn2, hi.symm⟩
  have hni : dst.nextId ≤ g'.nextId := by
    rw [hg, ← nextId_ensureGroup dst owner cls]; exact core_nextId_le
  refine ⟨?_, ?_, ?_⟩
  · rintro j hj ⟨x, _, hx⟩
    rcases hid x _ hx with ⟨_, _, j', hj', e⟩ | ⟨_, n, _, hn, e⟩
    · have := idStr_inj e; omega
    · have := idStr_inj e; omega
  · intro k hk i hi
    rcases hk with hk | hk
    · have hkk := reach_keys hdst hobj hk
      have hklt : k < (destG dst owner cls).nextKey :=
        Nat.lt_of_lt_of_le (hdst.lt k hkk) (nextKey_le_ensureGroup dst owner cls)
      rcases hid k i hi with ⟨_, hik, j, hj, e⟩ | ⟨h, _⟩
      · refine ⟨j, e, ?_⟩
        rintro ⟨x, hxS, hx⟩
        rcases hid x _ hx with ⟨_, hix, _⟩ | ⟨_, n, hn, _, e'⟩
        · rw [← e] at hix
          exact hxS (.inl (hdis x k i hix hik ▸ hk))
        · have := idStr_inj e'; omega
      · omega
    · have hfo := fileOk_copyGeneric hdst ho hc
      have := hfo.lt k ((node?_isSome_iff g' k).mp (node?_isSome_of_getAttr hi))
      omega
  · intro k hk i hi
    rcases hid k i hi with ⟨_, _, j, _, e⟩ | ⟨_, n, _, _, e⟩
    · exact ⟨j, e, k, hk, e ▸ hi⟩
    · exact ⟨n, e, k, hk, e ▸ hi⟩

/-- **independent (histories, source's side)**: any history of calls on the source sub-graph — deleting
the source itself, or anything below it, included; both id policies — leaves the copy and every other
node of the file as it was -/
theorem independent_history_source_side (hdst : FileOk dst) (ho : owner ∈ keys dst) (hobj : obj ∈ keys dst)
    (hO : ¬ ReachF dst obj owner) (hC : ¬ ReachF dst obj (destC dst owner cls))
    (hc : copyGeneric dst dst owner cls obj name false keepId = .ok (g', root))
    (ops : List Op) (ha : AddressedAll (SourceSide dst obj g') g' ops) :
    LocalUpd (SourceSide dst obj g') g'.nextId g' (run g' ops) :=
  lu_run ops (sourceSideInv_after_copy hdst ho hobj hO hC hc) ha

/-- in particular every node of the copy is exactly as it was: same attributes, same links -/
theorem independent_history_copy_unchanged (hdst : FileOk dst) (ho : owner ∈ keys dst) (hobj : obj ∈ keys dst)
    (hO : ¬ ReachF dst obj owner) (hC : ¬ ReachF dst obj (destC dst owner cls))
    (hc : copyGeneric dst dst owner cls obj name false keepId = .ok (g', root))
    (ops : List Op) (ha : AddressedAll (SourceSide dst obj g') g' ops) (k' : Nat)
    (hk' : IsNew dst dst owner cls obj k') :
    SameNode g' (run g' ops) k' := by
  have h := independent_history_source_side hdst ho hobj hO hC hc ops ha
  have hout : ∀ k, IsNew dst dst owner cls obj k → ¬ SourceSide dst obj g' k := by
    intro k hk hs
    have hge := new_ge hk
    rcases hs with hs | hs
    · have := hdst.lt k (reach_keys hdst hobj hs)
      have := nextKey_le_ensureGroup dst owner cls
      unfold destG at hge; omega
    · rw [nextKey_result hc] at hs; omega
  exact h.same (hout k' hk') (fun l hl => hout l.2 (copy_closed hdst hc k' hk' l hl))

end

/-- the driver's `append` is `contAppend` (which makes the object test of the source link lists itself since the
histories of C04 contain id-keeping copies too): it accepts only what `contAppend` accepts, with the same result: `independent_append`, `lu_contAppend` and the
history theorems apply to it -/
theorem contAppend20_refines {g g' : Graph} {c : Cont} {key : Key} (h : contAppend20 g c key = .ok g') :
    contAppend g c key = .ok g' := h

/-! ### deletion

`Container.__delitem__` hands `H5Group.delete_all` the *objects* to unlink — the item
(`Container`, `FeatureContainer`), the item's section subtree (`SectionContainer`), the item's source
subtree and the item (`SourceContainer`) — and `delete_all` removes, file-wide, every link that leads
to one of them (`Graph.deleteObjs`, `contDel`, `contDelKeys`). A copy consists of other objects than its
source whatever ids they carry, so deleting on one side never reaches the other: for both id policies,
in both directions, same-file and cross-file. (Before the repair `fix: deleting an entity also deleted
every same-id copy file-wide` the match was by `entity_id` and the statement was false for id-keeping
copies within one file: `independent_delete_counterexample_before_fix`, DESIGN D13.) -/

/-- deleting objects none of which is a node of the copy — objects of the destination file as it was, in
particular the source and anything below it — leaves every node of the copy, and the copy's entry in
its container, as they were -/
theorem independent_delete_old_side (hdst : FileOk dst)
    (hc : copyGeneric src dst owner cls obj name false keepId = .ok (g', root)) (ks : List Nat)
    (hks : ∀ k ∈ ks, ¬ IsNew src dst owner cls obj k) :
    (∀ k', IsNew src dst owner cls obj k' → SameNode g' (g'.deleteObjs ks) k') ∧
    (effName src obj name, root) ∈ (g'.deleteObjs ks).links (destC dst owner cls) := by
  constructor
  · intro k' hk'
    apply same_deleteObjs
    intro l hl hmem
    exact hks _ hmem (copy_closed hdst hc k' hk' l hl)
  · rw [mem_links_deleteObjs]
    refine ⟨child?_some_mem (name_used hdst hc).1, ?_⟩
    have hroot : IsNew src dst owner cls obj root := ⟨obj, .refl, (copy_complete hdst hc).1⟩
    exact fun hmem => hks _ hmem hroot

/-- deleting objects none of which is an old node — nodes of the copy, or nodes created later — leaves
every old node as it was, except that the destination container loses its link to the copy's root
when that is among the deleted objects -/
theorem independent_delete_new_side (hdst : FileOk dst) (ho : owner ∈ keys dst)
    (hc : copyGeneric src dst owner cls obj name false keepId = .ok (g', root)) (ks : List Nat)
    (hks : ∀ k ∈ ks, ¬ IsOld dst owner cls k) (k : Nat) (hk : IsOld dst owner cls k)
    (hkc : k ≠ destC dst owner cls ∨ root ∉ ks) : SameNode g' (g'.deleteObjs ks) k := by
  apply same_deleteObjs
  intro l hl hmem
  rcases old_links hdst ho hc k hk l hl with h | h
  · exact hks _ hmem h
  · rcases hkc with h' | h'
    · exact h' h.1
    · rw [h.2] at hmem; exact h' hmem

/-- **independent (deletion)** — the full statement, about the deletion the API performs: `del container[key]`
through any owning container (of any entity anywhere in the file; the key an entity, a name, an id or a
position) whose item — the entity handed in, or the entry of the container the key denotes — is such that
`delete_all` is handed no object of the copy (`contDelKeys`: the item; its section subtree; its source
subtree. E.g. the source of the copy or anything below it: `source_delete_keys_old`), when accepted, leaves
every node of the copy exactly as it was and the copy in its container. Both id policies. -/
theorem independent_delete_full (hdst : FileOk dst)
    (hc : copyGeneric src dst owner cls obj name false keepId = .ok (g', root))
    {c : Cont} {key : Key} {g'' : Graph}
    (hfl : c.info.flavour ≠ .link ∧ c.info.flavour ≠ .sourceLink)
    (hop : contDel g' c key = .ok g'')
    (hks : ∀ k, (key = .ent k ∨ ∃ l ∈ cLinks g' c.node, l.2 = k) →
      ∀ q ∈ contDelKeys g' c.info.flavour k, ¬ IsNew src dst owner cls obj q) :
    (∀ k', IsNew src dst owner cls obj k' → SameNode g' g'' k') ∧
    (effName src obj name, root) ∈ g''.links (destC dst owner cls) := by
  obtain ⟨k, hitem, _, e⟩ := contDel_eq hfl hop
  rw [e]
  exact independent_delete_old_side hdst hc _ (hks k hitem)

/-- the objects `delete_all` is handed when an entity of the source sub-graph of a same-file copy is deleted
all lie in the source sub-graph (so `independent_delete_full` applies to it) -/
theorem source_delete_keys_old {dst : Graph} {owner obj : Nat} {cls name : String} {keepId : Bool} {g' : Graph}
    {root : Nat} (hdst : FileOk dst) (ho : owner ∈ keys dst) (hobj : obj ∈ keys dst)
    (hO : ¬ ReachF dst obj owner) (hC : ¬ ReachF dst obj (destC dst owner cls))
    (hc : copyGeneric dst dst owner cls obj name false keepId = .ok (g', root))
    (fl : CFlavour) {k : Nat} (hk : ReachF dst obj k) :
    ∀ q ∈ contDelKeys g' fl k, ¬ IsNew dst dst owner cls obj q := by
  have hI := sourceSideInv_after_copy hdst ho hobj hO hC hc
  have hS : SourceSide dst obj g' k := .inl hk
  have hout : ∀ q, SourceSide dst obj g' q → ¬ IsNew dst dst owner cls obj q := by
    intro q hs hn
    have hge := new_ge hn
    rcases hs with hs | hs
    · have := hdst.lt q (reach_keys hdst hobj hs)
      have := nextKey_le_ensureGroup dst owner cls
      unfold destG at hge; omega
    · rw [nextKey_result hc] at hs; omega
  intro q hq
  apply hout
  cases fl <;> simp only [contDelKeys] at hq
  · simp only [List.mem_singleton] at hq; rw [hq]; exact hS
  · exact subtreeKeys_side hI "sections" hS q hq
  · rcases List.mem_append.mp hq with h | h
    · exact subtreeKeys_side hI "sources" hS q h
    · simp only [List.mem_singleton] at h; rw [h]; exact hS
  · cases hq
  · cases hq
  · simp only [List.mem_singleton] at hq; rw [hq]; exact hS

/-- a block `b` (node 2) with one array `a` (node 4, `id:0`) in `/data/b/data_arrays` (node 3) -/
def oneArrayFile : Graph :=
  { nodes := [(0, { links := [("data", 1)] }),
              (1, { links := [("b", 2)] }),
              (2, { attrs := [("entity_id", "id:9"), ("name", "b"), ("~kind", "block")], links := [("data_arrays", 3)] }),
              (3, { links := [("a", 4)] }),
              (4, { attrs := [("entity_id", "id:0"), ("name", "a"), ("~kind", "data_array")] })],
    nextKey := 5, nextId := 10 }

theorem oneArrayFile_ok : FileOk oneArrayFile := by
  refine ⟨by decide, ?_⟩
  intro k l hl
  have hk : k ∈ keys oneArrayFile := (node?_isSome_iff _ k).mp (node?_isSome_of_link hl)
  have : ∀ k ∈ keys oneArrayFile, ∀ l ∈ oneArrayFile.links k, l.2 ∈ keys oneArrayFile := by decide
  exact this k hk l hl

theorem oneArrayFile_copy_ok :
    ∃ r, copyGeneric oneArrayFile oneArrayFile 2 "data_arrays" 4 "a2" false true = .ok r := by
  cases h : copyGeneric oneArrayFile oneArrayFile 2 "data_arrays" 4 "a2" false true with
  | ok r => exact ⟨r, rfl⟩
  | error e =>
    have : (copyGeneric oneArrayFile oneArrayFile 2 "data_arrays" 4 "a2" false true).toOption.isSome = true := by
      decide
    rw [h] at this; cases this

/-- `oneArrayFile` after `b.create_data_array(name="a2", copy_from=a, keep_copy_id=True)`: the copy is node 5 -/
def oneArrayCopied : Graph :=
  ((copyGeneric oneArrayFile oneArrayFile 2 "data_arrays" 4 "a2" false true).toOption.map (·.1)).getD {}

/-- non-vacuity of `independent_delete_full` for the case that used to fail: after the id-keeping copy
`del b.data_arrays["a"]` (the model's `contDel` through the block's container) removes `a` and keeps
`a2`, which still carries `a`'s id -/
example : ((openCont oneArrayCopied [.name "data", .name "b"] "data_arrays").bind fun c =>
      (contDel oneArrayCopied c (.str "a")).toOption.map fun g => (g.links 3, g.entityId 5)) =
    some ([("a2", 5)], some "id:0") := by decide

/-- the statement of `independent_delete_full` as it read for the deletion BEFORE the repair (`Graph.deleteAll`:
every link to every object carrying the id): deleting the source entity (by its id) leaves the copy in its
container -/
def independent_delete_full_before_fix : Prop :=
  ∀ (src dst : Graph) (owner obj : Nat) (cls name : String) (keepId : Bool) (g' : Graph) (root : Nat) (i : String),
    FileOk dst → copyGeneric src dst owner cls obj name false keepId = .ok (g', root) →
    src.entityId obj = some i →
    (effName src obj name, root) ∈ (g'.deleteAll [i]).links (destC dst owner cls)

/-- D13, about the code BEFORE the repair only (`Graph.deleteAll` is used by no operation of the model): the
id-keeping copy `a2` of `a` in the same block disappeared with `a` -/
theorem independent_delete_counterexample_before_fix : ¬ independent_delete_full_before_fix := by
  intro h
  obtain ⟨r, hr⟩ := oneArrayFile_copy_ok
  have e : r = (copyGeneric oneArrayFile oneArrayFile 2 "data_arrays" 4 "a2" false true).toOption.get! := by
    rw [hr]; rfl
  have := h oneArrayFile oneArrayFile 2 4 "data_arrays" "a2" true r.1 r.2 "id:0" oneArrayFile_ok hr (by decide)
  rw [e] at this
  revert this
  decide

/-- non-vacuity: the same copy with regenerated ids succeeds too -/
example : (copyGeneric oneArrayFile oneArrayFile 2 "data_arrays" 4 "a2" false false).toOption.isSome = true := by
  decide

/-! ### the hypotheses hold for the files the API builds

`FileOk dst` (all theorems), `IdsBelow dst` / `IdsDistinct dst` (`idInv_*`, `ids_disjoint_after_history`) and "the source
carries an id" (`*_source*` theorems) are facts of every graph reachable from the empty file through
the API (`ReachableFresh`: any history of `Store.Op`s under the `uuid4` freshness proviso; the
well-formedness invariant `WF` of `Lemmas/StoreWF*.lean`). -/

theorem reachable_file_ok {g : Graph} (h : ReachableFresh g) :
    FileOk g ∧ IdsBelow g ∧ IdsDistinct g ∧ 0 ∈ keys g :=
  ⟨⟨h.wf.keys_lt, h.wf.target_exists⟩, h.wf.ids_wf, h.wf.ids_distinct, h.wf.root⟩

/-- every entry of every container of such a file (every block, array, frame, tag, multi-tag, section,
property …) carries an id -/
theorem reachable_entity_has_id {g : Graph} (h : ReachableFresh g) {k c : Nat} {cn : String} {info : CInfo}
    (hi : containerInfo (okind g k) cn = some info) (hc : g.child? k cn = some c) {l : String × Nat}
    (hl : l ∈ g.links c) : g.entityId l.2 ≠ none := by
  obtain ⟨_, ⟨i, hid⟩, _⟩ := h.wf.typing k cn info c hi hc l hl
  rw [hid]; simp

/-! ### non-vacuity of `independent_history` -/

/-- `linkedFile` after copying its block `b` as `b2` with fresh ids (duplicates: keys 8–13) -/
def copiedFile : Graph :=
  ((copyGeneric linkedFile linkedFile 0 "data" 2 "b2" false false).toOption.map (·.1)).getD {}

/-- the same copy with the ids kept: every duplicate carries the id of its original -/
def copiedFileKeep : Graph :=
  ((copyGeneric linkedFile linkedFile 0 "data" 2 "b2" false true).toOption.map (·.1)).getD {}

/-- a history on the copy: relabel the copied array, then delete it (`delete_all` of the object, file-wide) -/
def copyHistory : List Op :=
  [.setAttr [.name "data", .name "b2", .name "data_arrays", .name "a"] "label" (some "x"),
   .del [.name "data", .name "b2"] "data_arrays" (.pos 0)]

/-- every call of it is addressed to the side `≥ 8` in the state it is made in — for both id policies -/
example : AddressedAll (fun k => 8 ≤ k) copiedFile copyHistory :=
  ⟨⟨_, rfl, by decide⟩, ⟨⟨_, rfl, by decide⟩, trivial⟩, trivial⟩

example : AddressedAll (fun k => 8 ≤ k) copiedFileKeep copyHistory :=
  ⟨⟨_, rfl, by decide⟩, ⟨⟨_, rfl, by decide⟩, trivial⟩, trivial⟩

/-- it changes the copy (the copied block loses its array, the copied tag its reference to it) and
nothing of the original — with regenerated ids … -/
example : ((run copiedFile copyHistory).links 9, (run copiedFile copyHistory).links 13,
    (run copiedFile copyHistory).links 3, (run copiedFile copyHistory).links 7,
    (run copiedFile copyHistory).getAttr 4 "label") =
    ([], [], [("a", 4)], [("id:0", 4)], none) := by decide

/-- … and with kept ids (the case that failed before the repair: the original array has the same id) -/
example : ((run copiedFileKeep copyHistory).links 9, (run copiedFileKeep copyHistory).links 13,
    (run copiedFileKeep copyHistory).links 3, (run copiedFileKeep copyHistory).links 7,
    (run copiedFileKeep copyHistory).getAttr 4 "label") =
    ([], [], [("a", 4)], [("id:0", 4)], none) ∧
    (copiedFileKeep.entityId 10, copiedFileKeep.entityId 4) = (some "id:0", some "id:0") := by decide

/-- a history on the source: relabel the original array, then delete it -/
def sourceHistory : List Op :=
  [.setAttr [.name "data", .name "b", .name "data_arrays", .name "a"] "label" (some "x"),
   .del [.name "data", .name "b"] "data_arrays" (.pos 0)]

theorem linkedFile_reach_a : ReachF linkedFile 2 4 :=
  .step (p := 3) (k := 4) "a" (.step (p := 2) (k := 3) "data_arrays" .refl (by decide)) (by decide)

/-- every call of it is addressed to the source's side (non-vacuity of `independent_history_source_side`) —
for both id policies -/
example : AddressedAll (SourceSide linkedFile 2 copiedFile) copiedFile sourceHistory :=
  ⟨⟨⟨4, 3, "a", 4⟩, rfl, .inl linkedFile_reach_a⟩,
   ⟨⟨⟨2, 1, "b", 2⟩, rfl, .inl .refl⟩, trivial⟩, trivial⟩

example : AddressedAll (SourceSide linkedFile 2 copiedFileKeep) copiedFileKeep sourceHistory :=
  ⟨⟨⟨4, 3, "a", 4⟩, rfl, .inl linkedFile_reach_a⟩,
   ⟨⟨⟨2, 1, "b", 2⟩, rfl, .inl .refl⟩, trivial⟩, trivial⟩

/-- it empties the original's array list and tag references; the copy keeps its array (10), the copied
tag its reference to it, and the copied array is not relabelled — with regenerated ids … -/
example : ((run copiedFile sourceHistory).links 3, (run copiedFile sourceHistory).links 7,
    (run copiedFile sourceHistory).links 9, (run copiedFile sourceHistory).links 13,
    (run copiedFile sourceHistory).getAttr 10 "label") =
    ([], [], [("a", 10)], [("id:0", 10)], none) := by decide

/-- … and with kept ids -/
example : ((run copiedFileKeep sourceHistory).links 3, (run copiedFileKeep sourceHistory).links 7,
    (run copiedFileKeep sourceHistory).links 9, (run copiedFileKeep sourceHistory).links 13,
    (run copiedFileKeep sourceHistory).getAttr 10 "label") =
    ([], [], [("a", 10)], [("id:0", 10)], none) := by decide

/-! ## the source of the copy, given the *handle* the entry point was called with

The theorems above copy the object `obj`. A program calls an entry point with a handle; which object HDF5
then copies depends on how the entry point names the source (`CallerShape.srcAddr`, read from the source by
the translator) and - for a path below the handle's parent - on the way the handle was fetched
(`Store/CopyHandle.lean`). `copy_section` (File / Section) hands HDF5 the object of the handle (repaired in
/repo: `fix: copy_section … of a Section handle fetched through a link failed or copied another section`),
so every handle of a section - from the owning container, through `.metadata` (no parent), through
`Section.link` (the linking section as parent), by search - copies that section. The other six entry
points name a path below the handle's parent: they copy the handle's object for every handle whose
parent owns it (`Owned`: so for every entry of every owning container of an API-built file, and nixio
constructs the handles of link lists, references, positions / extents and feature data with the owning
block as parent - implementation-side oracle, `handle_catalogue` of harness/props/c20.py). -/

open Nix.Store.CopyShape in
/-- as the source is written now, both section copies name the source by the object of the handle; the
other entry points by a path below the handle's parent (an edit that goes back to a path for sections, or
to anything the translator does not know, breaks this theorem or the translator) -/
theorem section_copies_address_the_object :
    Gen.fileCopySection.srcAddr = .object ∧ Gen.sectionCopySection.srcAddr = .object ∧
    ∀ sh ∈ entryPoints, sh.srcKind ≠ "section" → sh.srcAddr = .parentPath := by decide

open Nix.Store.CopyShape in
/-- **every entry point, every handle that names its own object**: an entry point called with a handle `h`
is the entry point on the object `h` stands for - hence the generic routine of `entry_point_source_is_generic`
with all its consequences - when it addresses the object, or when the handle's parent owns the object -/
theorem entry_point_handle_is_generic {src dst : Graph} (hdst : FileOk dst) (sh : CallerShape)
    (hsh : sh ∈ entryPoints) (owner : Nat) (h : Handle) (name : String) (children keepId : Bool)
    (ho : owner ∈ keys dst) (hid : src.entityId h.obj ≠ none)
    (hleaf : nodeKind src h.obj ≠ .group → src.links h.obj = [])
    (hown : sh.srcAddr = .object ∨ Owned src sh.cls h) (hk : kindOf src h.obj = sh.srcKind) :
    callerByHandle Gen.h5GroupCopy sh src dst owner h name children keepId =
      match copyGeneric src dst owner sh.cls h.obj name (shallowOf sh children) keepId with
      | .error e => .error e
      | .ok (d1, root) =>
        if sh.readdsProps && !children then
          (readdProps src keepId (propsOf src h.obj) d1 root).map fun d => (d, root)
        else .ok (d1, root) := by
  have hs : sourceOf sh.srcAddr src sh.cls h = some h.obj := by
    rcases hown with ha | ho'
    · rw [ha]; rfl
    · exact sourceOf_owned _ ho'
  rw [callerByHandle_of_source _ _ _ _ _ _ _ _ _ hs]
  exact (entry_point_source_is_generic hdst sh hsh owner h.obj name children keepId ho hid hleaf).2 hk

open Nix.Store.CopyShape in
/-- **section copies: any handle whatsoever** (`_parent` the owning section, none, the linking section, …):
`File.copy_section` / `Section.copy_section` called with a handle of a section copy the object the handle
stands for -/
theorem section_copy_any_handle {src dst : Graph} (hdst : FileOk dst) (sh : CallerShape)
    (hsh : sh = Gen.fileCopySection ∨ sh = Gen.sectionCopySection) (owner : Nat) (h : Handle) (name : String)
    (children keepId : Bool) (ho : owner ∈ keys dst) (hid : src.entityId h.obj ≠ none)
    (hleaf : nodeKind src h.obj ≠ .group → src.links h.obj = []) (hk : kindOf src h.obj = "section") :
    callerByHandle Gen.h5GroupCopy sh src dst owner h name children keepId =
      match copyGeneric src dst owner sh.cls h.obj name (!children) keepId with
      | .error e => .error e
      | .ok (d1, root) =>
        if !children then (readdProps src keepId (propsOf src h.obj) d1 root).map fun d => (d, root)
        else .ok (d1, root) := by
  have hmem : sh ∈ entryPoints := by rcases hsh with e | e <;> rw [e] <;> decide
  have hfacts : sh.srcAddr = .object ∧ sh.srcKind = "section" ∧ sh.readdsProps = true ∧
      shallowOf sh children = !children := by
    rcases hsh with e | e <;> rw [e] <;> refine ⟨rfl, rfl, rfl, rfl⟩
  obtain ⟨ha, hkind, hre, hshal⟩ := hfacts
  rw [entry_point_handle_is_generic hdst sh hmem owner h name children keepId ho hid hleaf (Or.inl ha)
    (hk.trans hkind.symm), hre, hshal]
  simp only [Bool.true_and]

open Nix.Store.CopyShape in
/-- the handle of an entry of an owning container (`file.blocks`, `block.data_arrays / data_frames / tags /
multi_tags`, `section.sections`, `section.props` …) with the container's owner as parent names its own
object by the path too: in every file built through the API (`ReachableFresh`) the entry is linked under
the entity's `name`, and link names are unique -/
theorem container_handles_owned {g : Graph} (hr : ReachableFresh g) {p c : Nat} {cls : String} {info : CInfo}
    (hi : containerInfo (okind g p) cls = some info) (hpl : isPlainLike info.flavour = true)
    (hc : g.child? p cls = some c) {l : String × Nat} (hl : l ∈ g.links c) :
    Owned g cls ⟨l.2, some p⟩ ∧
    ∀ a, sourceOf a g cls ⟨l.2, some p⟩ = some l.2 := by
  have ho := owned_of_wf hr.wf hi hpl hc hl
  exact ⟨ho, fun a => sourceOf_owned a ho⟩

open Nix.Store.CopyShape in
/-- **a path below the handle's parent depends on the handle** (the defect repaired in `copy_section`, and the
class of the seeded changes C20-6 / C20-7): in `pathDemo` the section `t` (3) is reached by three handles. Named
by the path `sections/<name>` below the handle's parent, the handle from the owning container finds `t`, the
handle fetched as `u.link` finds *another* section that is merely called the same (6), the handle fetched
through a `metadata` link finds nothing; named by its object, every handle finds `t` -/
theorem path_addressing_depends_on_handle :
    sourceOf .parentPath pathDemo "sections" ownedHandle = some 3 ∧
    sourceOf .parentPath pathDemo "sections" linkHandle = some 6 ∧
    sourceOf .parentPath pathDemo "sections" metadataHandle = none ∧
    (∀ h ∈ [ownedHandle, linkHandle, metadataHandle], sourceOf .object pathDemo "sections" h = some 3) := by
  decide

open Nix.Store.CopyShape in
/-- end to end on `pathDemo`: `Section.copy_section` as it is written now, called on the root with the three
handles of `t` under the new name `y`, makes the same copy of `t` (the definition of the copy is that of `t`);
the same entry point addressing a path (as it was written before the repair) refuses the metadata handle and
copies the *other* section for the link handle -/
example :
    (∀ h ∈ [ownedHandle, linkHandle, metadataHandle],
      ((callerByHandle Gen.h5GroupCopy Gen.sectionCopySection pathDemo pathDemo 1 h "y" true true).toOption.map
        fun r => r.1.getAttr r.2 "definition") = some (some "the linked one")) ∧
    (callerByHandle Gen.h5GroupCopy { Gen.sectionCopySection with srcAddr := .parentPath } pathDemo pathDemo 1
        metadataHandle "y" true true).toOption.isSome = false ∧
    ((callerByHandle Gen.h5GroupCopy { Gen.sectionCopySection with srcAddr := .parentPath } pathDemo pathDemo 1
        linkHandle "y" true true).toOption.map fun r => r.1.getAttr r.2 "definition") =
      some (some "another one") := by decide

open Nix.Store.CopyShape in
/-- **where nixio constructs handles** (`Gen.handleSites`: every constructor call of an entity class in
nixio/*.py, read by harness/extract/handlesites.py): every site constructs the handle with the parent that owns
the object (`HandleSite.owned`: container entries, members of link lists, `multi_tag.positions / extents`,
`feature.data`, `create_*`, a section's own properties) - or it hands out a *Section* (the `metadata` getters:
no parent; `Section.link`: the linking section), the kind whose copy names the source by its object
(`section_copies_address_the_object`). So no handle of a kind whose copy is path-addressed is constructed with
a parent that does not own it; a new getter that does so, or `LinkContainer` constructing its items with the
group / tag instead of the block, changes the table and this theorem no longer builds -/
theorem handle_sites_owned_or_section :
    (∀ s ∈ Gen.handleSites, s.owned = true ∨ s.item = "Section") ∧
    (∀ s ∈ Gen.handleSites, s.item ∈ ["Block", "DataArray", "DataFrame", "Tag", "MultiTag", "Property", "item"] →
      s.owned = true) ∧
    (∀ sh ∈ entryPoints, sh.srcKind = "section" → sh.srcAddr = .object) := by decide

open Nix.Store.CopyShape in
/-- non-vacuity: there *are* sites that hand out handles without the owning parent (all of them Sections) -/
example : ((Gen.handleSites.filter fun s => !s.owned).map fun s => (s.method, s.item)).eraseDups =
    [("metadata", "Section"), ("link", "Section")] := by decide

open Nix.Store.CopyShape in
/-- **the members a container hands out are its entries** (T: `Gen.handleSites`): the two `_inst_item` methods
(`Container`, `LinkContainer`: every lookup by position, name, id and every iteration of `references`, a group's
member lists, the source links and the owning containers goes through them) build the handle on the very entry
the container was asked for - the method's parameter, not bound again before the handle is built - and every
other site takes the HDF5 object from a member of the constructing entity's own HDF5 group or from `create_new`.
So what `copy.references[i]`, `copy.positions`, `feature.data`, `group.data_arrays[i]`, `x.sources[i]`,
`x.metadata` stand for is what the HDF5 link of the copy leads to, and by `path_stays_in_copy` that is an object
of the copy, never an original. An `_inst_item` that looks the member up elsewhere (by name or id in the block's
own container) and builds the handle on what it finds changes the table and this theorem no longer builds. -/
theorem container_items_are_their_entries :
    (∀ s ∈ Gen.handleSites, s.method = "_inst_item" → s.via = "entry") ∧
    (∀ s ∈ Gen.handleSites, s.via = "entry" ∨ s.via = "create_new" ∨ s.via = "entry of properties" ∨
      s.via ∈ ["link metadata", "link link", "link positions", "link extents", "link data"]) ∧
    (Gen.handleSites.filter fun s => s.method == "_inst_item").map (fun s => s.cls) = ["Container", "LinkContainer"] := by
  decide

/-- the handle a link list of the copy hands out for the entry a path inside the copy leads to stands for an
object of the copy (`path_stays_in_copy` read at the handle), whatever parent it is constructed with -/
theorem link_handles_of_the_copy_are_new (hdst : FileOk dst)
    (hc : copyGeneric src dst owner cls obj name false keepId = .ok (g', root))
    {l l' : Loc} {p : Path} (hl : IsNew src dst owner cls obj l.key) (h : resolve g' l p = some l')
    (parent : Option Nat) :
    IsNew src dst owner cls obj (Nix.Store.CopyShape.Handle.mk l'.key parent).obj :=
  path_stays_in_copy hdst hc hl h

/-! ### non-vacuity of the source-shape theorems; what a narrower visitor would do -/

/-- a section `s` (2, `id:0`) with one Property `p` (4: a *dataset*, `id:1`) -/
def sectionFile : Graph :=
  { nodes := [(0, { links := [("metadata", 1)] }),
              (1, { links := [("s", 2)] }),
              (2, { attrs := [("entity_id", "id:0"), ("name", "s"), ("~kind", "section")], links := [("properties", 3)] }),
              (3, { links := [("p", 4)] }),
              (4, { kind := .dataset, attrs := [("entity_id", "id:1"), ("name", "p"), ("~kind", "property")] })],
    nextKey := 5, nextId := 10 }

open Nix.Store.CopyShape in
/-- `File.copy_section(s, name="s2", keep_id=False)` as the source is written: section *and* Property
get fresh ids -/
example : ((callerBy Gen.h5GroupCopy Gen.fileCopySection sectionFile sectionFile 0 2 "s2" true false).toOption.map
    fun r => (r.2, r.1.entityId 5, r.1.entityId 7, r.1.getAttr 5 "name")) =
    some (5, some "id:10", some "id:11", some "s2") := by decide

/-- non-vacuity of `shallow_section_result`: `File.copy_section(s, children=False, keep_id=False, name="s2")`
yields the section (5, fresh id) with one Property `p` (7, fresh id) re-added into its emptied
`properties` group (6) -/
example : ((copySection sectionFile sectionFile none 2 false false "s2").toOption.map
    fun (g : Graph) => (propsOf g 5, g.entityId 7)) = some ([("p", 7)], some "id:11") ∧
    ((copySection sectionFile sectionFile none 2 false false "s2").toOption.map
    fun (g : Graph) => (g.entityId 5, g.links 5, g.getAttr 7 "name")) =
      some (some "id:10", [("properties", 6)], some "p") := by decide

open Nix.Store.CopyShape in
/-- the same call with a visitor that skips datasets (`if not isinstance(igrp, h5py.Group): return`):
the copied Property keeps `id:1` — the shape types can express the change, `h5GroupCopy_source_is_model`
would not build for it -/
example : ((callerBy ⟨true, some ⟨true, true, true, [(.isGroup, true), (.hasEntityId, true)]⟩⟩
    Gen.fileCopySection sectionFile sectionFile 0 2 "s2" true false).toOption.map
    fun r => (r.1.entityId 5, r.1.entityId 7)) = some (some "id:10", some "id:1") := by decide

open Nix.Store.CopyShape in
/-- `create_data_frame(copy_from=…)`-shaped copy of the array node of `oneArrayFile` is refused for the
wrong kind, and the data-array entry point copies it under the new name with a fresh id -/
example : (callerBy Gen.h5GroupCopy Gen.blockCreateDataFrame oneArrayFile oneArrayFile 2 4 "a2" true false).toOption.isSome
    = false ∧
    ((callerBy Gen.h5GroupCopy Gen.blockCreateDataArray oneArrayFile oneArrayFile 2 4 "a2" true false).toOption.map
      fun r => (r.1.links 3, r.1.entityId r.2)) = some ([("a", 4), ("a2", 5)], some "id:10") := by decide

end

end Nix.C20
