import NixModel.Lemmas.C12Guarded
import NixModel.Generated.TextVecOrder

/-!
# C12 — vectors of texts: a refused `units = …` / `labels = …` leaves the stored vector as it was

`Tag.units` / `MultiTag.units` (one setter, `BaseTag.units`), `SetDimension.labels` and `DataFrame.units`, rendered
from the source with `H5Group.write_data` (text dtype) / `H5Group.set_attr` (vector) inlined
(`Generated/TextVecOrder.lean`).  Their validation loops are guards; the text check inside `write_data` and inside
the vector branch of `set_attr` stands before the first write.
-/
namespace Nix.C12
open Nix.Guarded Nix.TextVecWrite Nix.Generated.TextVecOrder

theorem text_vector_sound : TextVecWrite.sys.Sound where
  exec_ok := by
    intro a f w hn
    cases w with
    | writeVec =>
      have h1 := hn .loopOk (by simp [TextVecWrite.sys, TextVecWrite.needs])
      have h2 := hn .elemsStorable (by simp [TextVecWrite.sys, TextVecWrite.needs])
      simp only [TextVecWrite.sys, TextVecWrite.check] at h1 h2
      cases hi : a.iterable <;> cases he : a.elemsOk <;> cases hs : a.elemsStorable <;> simp [hi, he, hs] at h1 h2 <;>
        simp [TextVecWrite.sys, TextVecWrite.exec, hi, he, hs]
    | setVecAttr =>
      have h2 := hn .elemsStorable (by simp [TextVecWrite.sys, TextVecWrite.needs])
      simp only [TextVecWrite.sys, TextVecWrite.check] at h2
      cases hs : a.elemsStorable <;> simp [hs] at h2
      simp [TextVecWrite.sys, TextVecWrite.exec, hs]
    | _ => rfl
  invisible_obs := by
    intro a f w hi
    cases w <;> simp [TextVecWrite.sys] at hi
    rfl
  implies_ok := by
    intro a g g' _ h
    simp [TextVecWrite.sys] at h

/-- the three setters, as generated from the source, obey the discipline on both paths -/
theorem text_vector_setters_safe :
    ∀ p ∈ Nix.Generated.TextVecOrder.all, ∀ b : Bool, safe TextVecWrite.sys (p.2 b) = true := by decide

/-- **units / labels: refused ⇒ the stored vector and `updated_at` are what they were** — every value (no truth
value, not list-like, not iterable, an element of the wrong type, the wrong number of units, a text with NUL …),
every previous state (a vector stored or none) -/
theorem text_vector_setter_refused_unchanged (p : String × TextVecWrite.Setter)
    (hp : p ∈ Nix.Generated.TextVecOrder.all) (a : Arg) (f : File) (e : Err)
    (he : (TextVecWrite.runSetter p.2 a f).2 = some e) : (TextVecWrite.runSetter p.2 a f).1 = f :=
  safe_refused_unchanged TextVecWrite.sys text_vector_sound (p.2 a.falsy) (text_vector_setters_safe p hp a.falsy) a f e he

/-- histories of assignments: the refused ones are invisible -/
theorem text_vector_history_skips_refused (h : List (Arg × String × TextVecWrite.Setter))
    (hall : ∀ c ∈ h, c.2 ∈ Nix.Generated.TextVecOrder.all) (f : File) :
    runHistory TextVecWrite.sys (h.map fun c => (c.1, c.2.2 c.1.falsy)) f =
      runAccepted TextVecWrite.sys (h.map fun c => (c.1, c.2.2 c.1.falsy)) f := by
  apply history_skips_refused TextVecWrite.sys text_vector_sound (fun _ => rfl)
  intro c hc
  obtain ⟨c0, hc0, rfl⟩ := List.mem_map.mp hc
  exact text_vector_setters_safe c0.2 (hall c0 hc0) c0.1.falsy

/-- `H5Group.set_attr` as it was before nixio a2e6437: a vector is handed to h5py unchecked -/
def setAttrVectorNoCheck : List TStep := setAttrVector.erase (.guard .elemsStorable)

def nulUnits : Arg := ⟨true, false, true, true, true, true, true, false, false, 9, 5⟩

/-- **the order matters**: h5py removes the previous `units` before it finds the text with the NUL — without the
check the refused assignment deletes every unit of the frame; the setter as it is leaves them -/
theorem set_attr_vector_check_counterexample :
    safe TextVecWrite.sys setAttrVectorNoCheck = false ∧
    run TextVecWrite.sys nulUnits setAttrVectorNoCheck ⟨some 3, 1⟩ = (⟨none, 1⟩, some .valueError) ∧
    TextVecWrite.runSetter dataFrameUnits nulUnits ⟨some 3, 1⟩ = (⟨some 3, 1⟩, some .valueError) := by
  refine ⟨by decide, by decide, by decide⟩

/-- the same for `write_data` before nixio ac8fa14: the dataset is resized before h5py refuses the text -/
theorem write_data_text_check_counterexample :
    safe TextVecWrite.sys (writeDataText.erase (.guard .elemsStorable)) = false ∧
    run TextVecWrite.sys nulUnits (writeDataText.erase (.guard .elemsStorable)) ⟨some 3, 1⟩ =
      (⟨some 0, 1⟩, some .valueError) ∧
    TextVecWrite.runSetter baseTagUnits nulUnits ⟨some 3, 1⟩ = (⟨some 3, 1⟩, some .valueError) := by
  refine ⟨by decide, by decide, by decide⟩

/-! ## Non-vacuity -/

/-- valid units are stored, the time stamp moves; the labels of a linked set dimension are refused -/
example : TextVecWrite.runSetter baseTagUnits ⟨true, false, true, true, true, true, true, true, false, 9, 5⟩ ⟨some 3, 1⟩ =
    (⟨some 9, 5⟩, none) := by decide
example : TextVecWrite.runSetter setDimensionLabels ⟨true, false, true, true, true, true, true, true, true, 9, 5⟩ ⟨none, 1⟩ =
    (⟨none, 1⟩, some .runtimeError) := by decide

end Nix.C12
