import NixModel.Lemmas.C14Exact
import NixModel.Lemmas.C14Units
import NixModel.Lemmas.C14Paths
import NixModel.Lemmas.C14Guards
import NixModel.Lemmas.C14DimLink
import Mathlib.Data.List.Nodup

/-!
# C14 — the validator reports every catalogued inconsistency and nothing else

Property theorems only (helper lemmas: `NixModel/Lemmas/C14*.lean`).  All statements are about the model
`NixModel/Pure/Validator.lean` of `nixio/validator.py`, over the catalogue regenerated from the source
(`Generated/ValidatorCatalogue.lean`).

* `C14_sound` — a well-formed file (the conjunction of the property statement) validates to *no* errors and no
  API read raises; `C14_sound_iff` — and conversely: `WellFormed` is *exactly* the set of files that validate to no
  errors, it assumes nothing the validator's silence does not force;
* `C14_unit_pair_atoms`, `C14_unconvertible_atoms` — on unit strings written from the regenerated SI tables the
  "convertible" test is: same unit symbol and same power (look-alike symbols `m`/`mol`, `W`/`Wb`, `S`/`Sv` differ);
* `C14_objects` / `C14_reports` — the traversal produces an entry for exactly the objects of the file, and
  `results["errors"]` holds exactly the non-empty ones ("for exactly the objects that have it and for no others");
* `C14_complete_*` — per catalogue entry: the message is in the list computed for an object **iff** the object
  has that inconsistency (`Spec` written from the catalogue text); per-dimension / per-feature / per-property
  messages are tied to the position they name;
* `C14_catalogue_*` — the catalogue texts are pairwise distinguishable, so a reported text identifies its entry;
* `C14_complete_NoID_*` — "no ID set" can never be reported for an entity: the API refuses to hand out an entity
  whose id is not a UUID, so `validate()` raises instead (genuine defect, recorded as a known finding).
-/
namespace Nix.C14
open Nix.Validator Nix.Validator.Gen Nix.Validator.Lemmas Nix.Units
open Nix.Units.Lemmas (optPrefixes powerTexts)
open Nix.PyGuard (fired fires Val)

/-! ## well-formed files -/

/-- every array has one well-formed descriptor per data dimension, every tag's position, extent and unit
lengths match its references with convertible units, every entity has type, name, id and date -/
def WellFormed (f : File) : Prop :=
  f.createdAt ≠ none ∧
  (∀ b ∈ f.blocks, EntOk b.ent ∧ (∀ g ∈ b.groups, EntOk g) ∧ (∀ da ∈ b.arrays, ArrayOk da) ∧
     (∀ t ∈ b.tags, TagOk b.arrays t) ∧ (∀ t ∈ b.mtags, MultiTagOk b.arrays t) ∧
     (∀ e ∈ sourcesEnts b.sources, EntOk e)) ∧
  (∀ n ∈ sectionsNodes f.sections, EntOk n.1 ∧ ∀ p ∈ n.2, PropertyOk p)

/-- **soundness**: validating a well-formed file returns normally and reports no errors -/
theorem C14_sound (f : File) (h : WellFormed f) : validate f = .ok [] := by
  obtain ⟨hf, hb, hs⟩ := h
  have hraise : raiseEvents f = [] := by
    unfold raiseEvents
    have h1 : f.blocks.flatMap blockEvents = [] := by
      apply flatMap_nil_of
      intro b hbm
      obtain ⟨he, hg, ha, ht, hm, hsrc⟩ := hb b hbm
      have e1 : b.groups.flatMap (fun g => ctorEvents g.idUuid) = [] :=
        flatMap_nil_of fun g hgm => by simp [ctorEvents, (hg g hgm).1]
      have e2 : b.arrays.flatMap (fun da => ctorEvents da.ent.idUuid) = [] :=
        flatMap_nil_of fun da hd => by simp [ctorEvents, (ha da hd).1.1]
      have e3 : b.tags.flatMap (tagEvents b.arrays) = [] :=
        flatMap_nil_of fun t htm => tagEvents_nil (ht t htm)
      have e4 : b.mtags.flatMap (mtagEvents b.arrays) = [] :=
        flatMap_nil_of fun t htm => mtagEvents_nil (hm t htm)
      have e5 : sourcesEvents b.sources = [] := by
        rw [sourcesEvents_eq]
        exact flatMap_nil_of fun e hem => by simp [ctorEvents, (hsrc e hem).1]
      unfold blockEvents
      rw [e1, e2, e3, e4, e5]
      simp [ctorEvents, he.1]
    have h2 : sectionsEvents f.sections = [] := by
      rw [sectionsEvents_eq]
      apply flatMap_nil_of
      intro n hn
      obtain ⟨he, hp⟩ := hs n hn
      have : n.2.flatMap (fun p => ctorEvents p.idUuid) = [] :=
        flatMap_nil_of fun p hpm => by simp [ctorEvents, (hp p hpm).1]
      show ctorEvents n.1.idUuid ++ n.2.flatMap (fun p => ctorEvents p.idUuid) = []
      rw [this]
      simp [ctorEvents, he.1]
    rw [h1, h2]; rfl
  have hrep : reports f = [] := by
    unfold reports
    rw [List.filter_eq_nil_iff]
    intro km hkm
    obtain ⟨⟨kind, path⟩, msgs⟩ := km
    have hc := (allChecks_iff f kind msgs).mp ⟨path, hkm⟩
    have : msgs = [] := by
      cases kind with
      | file =>
        simp only [IsCheckOf] at hc; rw [hc]
        cases hcr : f.createdAt with
        | none => exact absurd hcr hf
        | some v => simp [checkFileObj, hcr]
      | block => obtain ⟨b, hbm, rfl⟩ := hc; exact checkEntity_nil (hb b hbm).1
      | group => obtain ⟨b, hbm, g, hg, rfl⟩ := hc; exact checkEntity_nil ((hb b hbm).2.1 g hg)
      | array => obtain ⟨b, hbm, da, hd, rfl⟩ := hc; exact checkDataArray_nil ((hb b hbm).2.2.1 da hd)
      | tag => obtain ⟨b, hbm, t, ht, rfl⟩ := hc; exact checkTag_nil ((hb b hbm).2.2.2.1 t ht)
      | mtag => obtain ⟨b, hbm, t, ht, rfl⟩ := hc; exact checkMultiTag_nil ((hb b hbm).2.2.2.2.1 t ht)
      | source => obtain ⟨b, hbm, e, he, rfl⟩ := hc; exact checkEntity_nil ((hb b hbm).2.2.2.2.2 e he)
      | «section» => obtain ⟨n, hn, rfl⟩ := hc; exact checkSection_nil (hs n hn).1 (hs n hn).2
    simp [this]
  simp [validate, hraise, hrep]

/-- the converse: a file that validates to no errors is well-formed — every conjunct of `WellFormed` is forced by the
validator's silence (and by `validate` returning at all) -/
theorem C14_silent_wellformed (f : File) (h : validate f = .ok []) : WellFormed f := by
  have hr : raiseEvents f = [] := by
    unfold validate at h
    cases hh : (raiseEvents f).head? with
    | none => simpa using hh
    | some e => simp [hh] at h
  have hrep : reports f = [] := by simpa [validate, hr] using h
  have hall : ∀ kind msgs, IsCheckOf f kind msgs → msgs = [] := by
    intro kind msgs hc
    obtain ⟨p, hp⟩ := (allChecks_iff f kind msgs).mpr hc
    by_contra hne
    have : ((⟨kind, p⟩ : Key), msgs) ∈ reports f := by
      simp only [reports, List.mem_filter]
      exact ⟨hp, by simpa using hne⟩
    rw [hrep] at this
    simp at this
  unfold raiseEvents at hr
  obtain ⟨hbe, hse⟩ := List.append_eq_nil_iff.mp hr
  refine ⟨?_, ?_, ?_⟩
  · have hf := hall .file (checkFileObj f) rfl
    intro h0
    simp [checkFileObj, h0] at hf
  · intro b hb
    have hbev := List.flatMap_eq_nil_iff.mp hbe b hb
    unfold blockEvents at hbev
    simp only [List.append_eq_nil_iff, ctorEvents_nil_iff] at hbev
    obtain ⟨⟨⟨⟨⟨hu, hg⟩, ha⟩, ht⟩, hmt⟩, hsrc⟩ := hbev
    refine ⟨entOk_of_nil hu (hall .block _ ⟨b, hb, rfl⟩), ?_, ?_, ?_, ?_, ?_⟩
    · intro g hgm
      exact entOk_of_nil ((ctorEvents_nil_iff _).mp (List.flatMap_eq_nil_iff.mp hg g hgm))
        (hall .group _ ⟨b, hb, g, hgm, rfl⟩)
    · intro da hd
      exact arrayOk_of_nil ((ctorEvents_nil_iff _).mp (List.flatMap_eq_nil_iff.mp ha da hd))
        (hall .array _ ⟨b, hb, da, hd, rfl⟩)
    · intro t htm
      exact tagOk_of_nil (hall .tag _ ⟨b, hb, t, htm, rfl⟩) (List.flatMap_eq_nil_iff.mp ht t htm)
    · intro t htm
      exact multiTagOk_of_nil (hall .mtag _ ⟨b, hb, t, htm, rfl⟩) (List.flatMap_eq_nil_iff.mp hmt t htm)
    · intro e he
      rw [sourcesEvents_eq] at hsrc
      exact entOk_of_nil ((ctorEvents_nil_iff _).mp (List.flatMap_eq_nil_iff.mp hsrc e he))
        (hall .source _ ⟨b, hb, e, he, rfl⟩)
  · intro n hn
    rw [sectionsEvents_eq] at hse
    obtain ⟨h1, h2⟩ := List.append_eq_nil_iff.mp (List.flatMap_eq_nil_iff.mp hse n hn)
    exact sectionOk_of_nil ((ctorEvents_nil_iff _).mp h1) h2 (hall .section _ ⟨n, hn, rfl⟩)

/-- **`WellFormed` is exactly "validates to no errors"** -/
theorem C14_sound_iff (f : File) : validate f = .ok [] ↔ WellFormed f :=
  ⟨C14_silent_wellformed f, C14_sound f⟩

/-! ## which objects get an entry -/

/-- the traversal produces an entry of kind `kind` with messages `msgs` iff `msgs` is the check result of an
object of that kind in the file: every object is visited, nothing else is -/
theorem C14_objects (f : File) (kind : Kind) (msgs : List Msg) :
    (∃ p, (⟨kind, p⟩, msgs) ∈ allChecks f) ↔ IsCheckOf f kind msgs :=
  allChecks_iff f kind msgs

/-- `results["errors"]` holds exactly the objects with a non-empty message list -/
theorem C14_reports (f : File) (kind : Kind) (msgs : List Msg) :
    (∃ p, (⟨kind, p⟩, msgs) ∈ reports f) ↔ IsCheckOf f kind msgs ∧ msgs ≠ [] := by
  rw [← allChecks_iff]
  simp only [reports, List.mem_filter, Bool.not_eq_true', List.isEmpty_eq_false_iff]
  constructor
  · rintro ⟨p, h, hne⟩; exact ⟨⟨p, h⟩, hne⟩
  · rintro ⟨⟨p, h⟩, hne⟩; exact ⟨p, h, hne⟩

/-- **the key names the object**: the entry with path `[bi]` is the check of the `bi`-th block, the entry with path
`[bi, i]` and kind group / array / tag / multi-tag is the check of the `i`-th such object of that block — an
inconsistency is reported at exactly the object that has it, not merely at some object -/
theorem C14_entry_at (f : File) (bi i : Nat) (msgs : List Msg) :
    (((⟨.block, [bi]⟩ : Key), msgs) ∈ allChecks f ↔ ∃ b, f.blocks[bi]? = some b ∧ msgs = checkEntity b.ent) ∧
    (((⟨.group, [bi, i]⟩ : Key), msgs) ∈ allChecks f ↔
      ∃ b, f.blocks[bi]? = some b ∧ ∃ g, b.groups[i]? = some g ∧ msgs = checkEntity g) ∧
    (((⟨.array, [bi, i]⟩ : Key), msgs) ∈ allChecks f ↔
      ∃ b, f.blocks[bi]? = some b ∧ ∃ da, b.arrays[i]? = some da ∧ msgs = checkDataArray da) ∧
    (((⟨.tag, [bi, i]⟩ : Key), msgs) ∈ allChecks f ↔
      ∃ b, f.blocks[bi]? = some b ∧ ∃ t, b.tags[i]? = some t ∧ msgs = checkTag b.arrays t) ∧
    (((⟨.mtag, [bi, i]⟩ : Key), msgs) ∈ allChecks f ↔
      ∃ b, f.blocks[bi]? = some b ∧ ∃ t, b.mtags[i]? = some t ∧ msgs = checkMultiTag b.arrays t) :=
  ⟨allChecks_block f bi msgs,
   allChecks_flat f .group bi i msgs (Or.inl rfl),
   allChecks_flat f .array bi i msgs (Or.inr (Or.inl rfl)),
   allChecks_flat f .tag bi i msgs (Or.inr (Or.inr (Or.inl rfl))),
   allChecks_flat f .mtag bi i msgs (Or.inr (Or.inr (Or.inr rfl)))⟩

/-- `validate` returns the reports unless an API read raises; then the first exception propagates -/
theorem C14_validate (f : File) :
    (raiseEvents f = [] → validate f = .ok (reports f)) ∧
    (∀ e rest, raiseEvents f = e :: rest → validate f = .error e) := by
  constructor
  · intro h; simp [validate, h]
  · intro e rest h; simp [validate, h]

/-! ## entity fields: missing type, name, id, date -/

theorem C14_complete_NoType (e : Ent) : .plain .NoType ∈ checkEntity e ↔ falsy e.type_ = true := by
  simp [mem_checkEntity]
theorem C14_complete_NoName (e : Ent) : .plain .NoName ∈ checkEntity e ↔ falsy e.name = true := by
  simp [mem_checkEntity]
/-- after the repair of `str_to_time(None)` a missing date is *reported* (D21) -/
theorem C14_complete_NoDate (e : Ent) : .plain .NoDate ∈ checkEntity e ↔ e.createdAt = none := by
  simp [mem_checkEntity]
theorem C14_complete_NoID_check (e : Ent) : .plain .NoID ∈ checkEntity e ↔ falsy e.id = true := by
  simp [mem_checkEntity]

/-- the entity messages of an array / tag / multi-tag / section come from its own entity fields only -/
theorem C14_entity_part (m : MsgId) (hm : m = .NoType ∨ m = .NoID ∨ m = .NoName ∨ m = .NoDate) :
    (∀ da, .plain m ∈ checkDataArray da ↔ .plain m ∈ checkEntity da.ent) ∧
    (∀ arrays t, .plain m ∈ checkTag arrays t ↔ .plain m ∈ checkEntity t.ent) ∧
    (∀ arrays t, .plain m ∈ checkMultiTag arrays t ↔ .plain m ∈ checkEntity t.ent) ∧
    (∀ e ps, .plain m ∈ checkSection e ps ↔ .plain m ∈ checkEntity e) := by
  refine ⟨fun da => ?_, fun arrays t => ?_, fun arrays t => ?_, fun e ps => ?_⟩
  · rw [mem_checkDataArray]
    rcases hm with rfl | rfl | rfl | rfl <;> simp [DimSpec]
  · rw [mem_checkTag]
    rcases hm with rfl | rfl | rfl | rfl <;> simp [mem_refUnitMsgs, mem_checkFeature]
  · rw [mem_checkMultiTag]
    rcases hm with rfl | rfl | rfl | rfl <;> simp [mem_refUnitMsgs, mem_checkFeature]
  · rw [mem_checkSection]
    rcases hm with rfl | rfl | rfl | rfl <;> simp [mem_checkProperty]

/-! ## arrays: descriptors -/

/-- the descriptor paired with data dimension `idx` (1-based) and the extent of that dimension -/
def dimAt (da : DataArray) (idx : Nat) : Option (Dim × Nat) :=
  if idx = 0 then none else (da.dims.zip da.shape)[idx - 1]?

/-- a per-dimension message for position `idx` is reported iff the descriptor *at that position* has the
inconsistency — for exactly the dimensions that have it and for no others -/
theorem C14_dim_message (da : DataArray) (m : Msg) (idx : Nat)
    (hm : (∃ k, m = .dim k idx) ∨ (∃ k v, m = .dim2 k idx v)) :
    m ∈ checkDataArray da ↔ ∃ d n, dimAt da idx = some (d, n) ∧ DimSpec idx d n m := by
  rw [mem_checkDataArray]
  have hne : m ∉ checkEntity da.ent := by
    intro h
    rcases checkEntity_ids _ _ h with rfl | rfl | rfl | rfl <;> rcases hm with ⟨k, h⟩ | ⟨k, v, h⟩ <;> cases h
  have h2 : ¬ (m = .plain .NoDataType ∧ falsy da.dataType = true) := by
    rintro ⟨rfl, -⟩; rcases hm with ⟨k, h⟩ | ⟨k, v, h⟩ <;> cases h
  have h3 : ¬ (m = .plain .DimensionMismatch ∧ da.dims.length ≠ da.shape.length) := by
    rintro ⟨rfl, -⟩; rcases hm with ⟨k, h⟩ | ⟨k, v, h⟩ <;> cases h
  simp only [hne, h2, h3, false_or]
  constructor
  · rintro ⟨i, d, n, hi, hs⟩
    have hidx : idx = i + 1 := by
      rcases dimMsgs_idx ((mem_dimMsgs _ _ _ _).mpr hs) with ⟨k, h⟩ | ⟨k, v, h⟩ <;>
        rcases hm with ⟨k', h'⟩ | ⟨k', v', h'⟩ <;> rw [h] at h' <;> cases h' <;> rfl
    subst hidx
    exact ⟨d, n, by simp [dimAt, hi], hs⟩
  · rintro ⟨d, n, hi, hs⟩
    unfold dimAt at hi
    by_cases h0 : idx = 0
    · simp [h0] at hi
    · simp only [h0, if_false] at hi
      refine ⟨idx - 1, d, n, hi, ?_⟩
      have : idx - 1 + 1 = idx := by omega
      rw [this]; exact hs

/-- missing data type -/
theorem C14_complete_NoDataType (da : DataArray) :
    .plain .NoDataType ∈ checkDataArray da ↔ falsy da.dataType = true := by
  rw [mem_checkDataArray]; simp [mem_checkEntity, DimSpec]

/-- "data dimensionality does not match number of defined dimensions": missing or surplus descriptors -/
theorem C14_complete_DimensionMismatch (da : DataArray) :
    .plain .DimensionMismatch ∈ checkDataArray da ↔ da.dims.length ≠ da.shape.length := by
  rw [mem_checkDataArray]; simp [mem_checkEntity, DimSpec]

/-- tick count ≠ extent of the data dimension -/
theorem C14_complete_RangeDimTicksMismatch (da : DataArray) (idx : Nat) :
    .dim .RangeDimTicksMismatch idx ∈ checkDataArray da ↔
      ∃ d n, dimAt da idx = some (d, n) ∧ d.kind = .range ∧ d.ticks.length ≠ n := by
  rw [C14_dim_message da _ idx (Or.inl ⟨_, rfl⟩)]; simp [DimSpec]

/-- label count ≠ extent (an unlabelled set dimension is allowed) -/
theorem C14_complete_SetDimLabelsMismatch (da : DataArray) (idx : Nat) :
    .dim .SetDimLabelsMismatch idx ∈ checkDataArray da ↔
      ∃ d n, dimAt da idx = some (d, n) ∧ d.kind = .set ∧ d.nLabels ≠ 0 ∧ d.nLabels ≠ n := by
  rw [C14_dim_message da _ idx (Or.inl ⟨_, rfl⟩)]; simp [DimSpec]

/-- missing ticks -/
theorem C14_complete_NoTicks (da : DataArray) (idx : Nat) :
    .dim .NoTicks idx ∈ checkDataArray da ↔ ∃ d n, dimAt da idx = some (d, n) ∧ d.kind = .range ∧ d.ticks = [] := by
  rw [C14_dim_message da _ idx (Or.inl ⟨_, rfl⟩)]; simp [DimSpec]

/-- ticks present but not strictly increasing -/
theorem C14_complete_UnsortedTicks (da : DataArray) (idx : Nat) :
    .dim .UnsortedTicks idx ∈ checkDataArray da ↔
      ∃ d n, dimAt da idx = some (d, n) ∧ d.kind = .range ∧ d.ticks ≠ [] ∧ ¬ List.Pairwise (· < ·) d.ticks := by
  rw [C14_dim_message da _ idx (Or.inl ⟨_, rfl⟩)]
  simp only [DimSpec, Msg.dim.injEq, reduceCtorEq, false_and, and_false, or_false, false_or, true_and, and_true,
    ← ticksSorted_iff, Bool.not_eq_true]

/-- a unit is set on a range or sampled dimension and is not an atomic SI unit -/
theorem C14_complete_InvalidDimensionUnit (da : DataArray) (idx : Nat) :
    .dim .InvalidDimensionUnit idx ∈ checkDataArray da ↔
      ∃ d n, dimAt da idx = some (d, n) ∧ (d.kind = .range ∨ d.kind = .sample) ∧
        ∃ u, d.unit = some u ∧ u ≠ [] ∧ isAtomic u = false := by
  rw [C14_dim_message da _ idx (Or.inl ⟨_, rfl⟩)]
  have hb : ∀ u : Option Str, badDimUnit u = true ↔ ∃ s, u = some s ∧ s ≠ [] ∧ isAtomic s = false := by
    intro u
    cases u with
    | none => simp [badDimUnit, falsy]
    | some s => simp [badDimUnit, falsy, List.isEmpty_iff]
  simp [DimSpec, hb]

/-- sampling interval missing (or zero) -/
theorem C14_complete_NoSamplingInterval (da : DataArray) (idx : Nat) :
    .dim .NoSamplingInterval idx ∈ checkDataArray da ↔
      ∃ d n, dimAt da idx = some (d, n) ∧ d.kind = .sample ∧ (d.interval = none ∨ d.interval = some 0) := by
  rw [C14_dim_message da _ idx (Or.inl ⟨_, rfl⟩)]
  have hn : ∀ o : Option Rat, noInterval o = true ↔ (o = none ∨ o = some 0) := by
    intro o; cases o <;> simp [noInterval]
  simp [DimSpec, hn]

/-- negative sampling interval -/
theorem C14_complete_InvalidSamplingInterval (da : DataArray) (idx : Nat) :
    .dim .InvalidSamplingInterval idx ∈ checkDataArray da ↔
      ∃ d n, dimAt da idx = some (d, n) ∧ d.kind = .sample ∧ ∃ r, d.interval = some r ∧ r < 0 := by
  rw [C14_dim_message da _ idx (Or.inl ⟨_, rfl⟩)]; simp [DimSpec]

/-- the stored index of the descriptor is not positive / differs from its position -/
theorem C14_complete_DimensionIndex (da : DataArray) (idx : Nat) :
    (.dim .InvalidDimensionIndex idx ∈ checkDataArray da ↔ ∃ d n, dimAt da idx = some (d, n) ∧ d.index ≤ 0) ∧
    (∀ v, .dim2 .IncorrectDimensionIndex idx v ∈ checkDataArray da ↔
      ∃ d n, dimAt da idx = some (d, n) ∧ d.index = v ∧ 0 < v ∧ v ≠ (idx : Int)) := by
  constructor
  · rw [C14_dim_message da _ idx (Or.inl ⟨_, rfl⟩)]; simp [DimSpec]
  · intro v
    rw [C14_dim_message da _ idx (Or.inr ⟨_, _, rfl⟩)]
    simp only [DimSpec, reduceCtorEq, false_and, false_or, or_false, Msg.dim2.injEq, true_and]
    constructor
    · rintro ⟨d, n, h, rfl, h1, h2⟩; exact ⟨d, n, h, rfl, h1, h2⟩
    · rintro ⟨d, n, h, rfl, h1, h2⟩; exact ⟨d, n, h, rfl, h1, h2⟩

/-! ## tags -/

/-- missing position -/
theorem C14_complete_NoPosition (arrays : List DataArray) (t : Tag) :
    .plain .NoPosition ∈ checkTag arrays t ↔ t.posLen = 0 := by
  rw [mem_checkTag]; simp [mem_checkEntity, mem_refUnitMsgs, mem_checkFeature]

/-- position / extent length mismatch — for every tag, referenced arrays or not (repaired: the test used to
sit inside `if tag.references`) -/
theorem C14_complete_PositionExtentMismatch (arrays : List DataArray) (t : Tag) :
    .plain .PositionExtentMismatch ∈ checkTag arrays t ↔ t.extLen ≠ 0 ∧ t.extLen ≠ t.posLen := by
  rw [mem_checkTag]; simp [mem_checkEntity, mem_refUnitMsgs, mem_checkFeature]

/-- position length ≠ rank of some referenced array -/
theorem C14_complete_PositionDimensionMismatch (arrays : List DataArray) (t : Tag) :
    .plain .PositionDimensionMismatch ∈ checkTag arrays t ↔
      ∃ da ∈ refArrays arrays t.refs, t.posLen ≠ da.shape.length := by
  rw [mem_checkTag]
  have : (∃ da ∈ refArrays arrays t.refs, t.posLen ≠ da.shape.length) → t.refs ≠ [] := by
    rintro ⟨da, hda, -⟩ h; simp [refArrays, h] at hda
  simp only [mem_checkEntity, mem_refUnitMsgs, mem_checkFeature, reduceCtorEq, false_and, false_or, or_false,
    Msg.plain.injEq, true_and, and_false, exists_const, exists_false]
  exact ⟨fun h => h.2, fun h => ⟨this h, h⟩⟩

/-- extent length ≠ rank of some referenced array -/
theorem C14_complete_ExtentDimensionMismatch (arrays : List DataArray) (t : Tag) :
    .plain .ExtentDimensionMismatch ∈ checkTag arrays t ↔
      t.extLen ≠ 0 ∧ ∃ da ∈ refArrays arrays t.refs, t.extLen ≠ da.shape.length := by
  rw [mem_checkTag]
  have : (∃ da ∈ refArrays arrays t.refs, t.extLen ≠ da.shape.length) → t.refs ≠ [] := by
    rintro ⟨da, hda, -⟩ h; simp [refArrays, h] at hda
  simp only [mem_checkEntity, mem_refUnitMsgs, mem_checkFeature, reduceCtorEq, false_and, false_or, or_false,
    Msg.plain.injEq, true_and, and_false, exists_const, exists_false]
  exact ⟨fun h => h.2, fun h => ⟨this h.2, h⟩⟩

/-- unit count ≠ number of descriptors of some referenced array (relational: a surplus descriptor on an array
makes every tag that references it with one unit per data dimension inconsistent) -/
theorem C14_complete_ReferenceUnitsMismatch (arrays : List DataArray) (t : Tag) :
    .plain .ReferenceUnitsMismatch ∈ checkTag arrays t ↔
      UnitsLenMismatch t.units (refArrays arrays t.refs) := by
  rw [mem_checkTag]
  have : UnitsLenMismatch t.units (refArrays arrays t.refs) → t.refs ≠ [] := by
    rintro ⟨da, hda, -⟩ h; simp [refArrays, h] at hda
  simp only [mem_checkEntity, mem_refUnitMsgs, mem_checkFeature, reduceCtorEq, false_and, false_or, or_false,
    Msg.plain.injEq, true_and, and_false, exists_const, exists_false]
  exact ⟨fun h => h.2, fun h => ⟨this h, h⟩⟩

/-- some unit of the tag is not convertible to the unit of the descriptor at the same position -/
theorem C14_complete_ReferenceUnitsIncompatible (arrays : List DataArray) (t : Tag) :
    .plain .ReferenceUnitsIncompatible ∈ checkTag arrays t ↔
      UnitsUnconvertible t.units (refArrays arrays t.refs) := by
  rw [mem_checkTag]
  have : UnitsUnconvertible t.units (refArrays arrays t.refs) → t.refs ≠ [] := by
    rintro ⟨da, hda, -⟩ h; simp [refArrays, h] at hda
  simp only [mem_checkEntity, mem_refUnitMsgs, mem_checkFeature, reduceCtorEq, false_and, false_or, or_false,
    Msg.plain.injEq, true_and, and_false, exists_const, exists_false]
  exact ⟨fun h => h.2, fun h => ⟨this h, h⟩⟩

/-- some unit of the tag is set and is not an SI unit -/
theorem C14_complete_InvalidUnit (arrays : List DataArray) (t : Tag) :
    .plain .InvalidUnit ∈ checkTag arrays t ↔ ∃ u ∈ t.units, u ≠ [] ∧ isSi u = false := by
  rw [mem_checkTag]; simp [mem_checkEntity, mem_refUnitMsgs, mem_checkFeature]

/-- feature messages of a tag: for exactly the feature at the position the message names -/
theorem C14_complete_feature (arrays : List DataArray) (t : Tag) (i : Nat) (k : MsgId) :
    .feature i k ∈ checkTag arrays t ↔ ∃ ft, t.features[i]? = some ft ∧ .feature i k ∈ checkFeature arrays ft i := by
  rw [mem_checkTag]
  simp only [mem_checkEntity, mem_refUnitMsgs, reduceCtorEq, false_and, false_or, or_false, and_false]
  constructor
  · rintro ⟨j, ft, hj, hm⟩
    obtain ⟨k', hk'⟩ := checkFeature_idx hm
    cases hk'
    exact ⟨ft, hj, hm⟩
  · rintro ⟨ft, hi, hm⟩; exact ⟨i, ft, hi, hm⟩

/-- the four feature entries: missing id, missing date, linked data without entries, missing / unknown link type -/
theorem C14_complete_feature_entries (arrays : List DataArray) (ft : Feature) (i : Nat) :
    (.feature i .NoID ∈ checkFeature arrays ft i ↔ falsy ft.id = true) ∧
    (.feature i .NoDate ∈ checkFeature arrays ft i ↔ ft.createdAt = none) ∧
    (.feature i .NoData ∈ checkFeature arrays ft i ↔
      ∃ da, ft.data.bind (fun k => arrays[k]?) = some da ∧ firstLen da.shape = some 0) ∧
    (.feature i .NoLinkType ∈ checkFeature arrays ft i ↔ linkTypeOk ft.linkType = false) := by
  refine ⟨?_, ?_, ?_, ?_⟩ <;> rw [mem_checkFeature] <;> simp

/-! ## multi-tags -/

/-- missing positions: the positions link is absent (repaired: `MultiTag.positions` raising RuntimeError used to
propagate out of `validate()`), or the linked positions array has no entries -/
theorem C14_complete_NoPositions (arrays : List DataArray) (t : MultiTag) :
    .plain .NoPositions ∈ checkMultiTag arrays t ↔
      (MtPosShape arrays t = none ∨ (MtPosShape arrays t).bind firstLen = some 0) := by
  rw [mem_checkMultiTag]; simp [mem_checkEntity, mem_refUnitMsgs, mem_checkFeature]

/-- a missing positions link does not make `validate()` raise any more: the multi-tag contributes no exception unless
its id, extents or features do -/
theorem C14_missing_positions_reported (arrays : List DataArray) (t : MultiTag) (h : MtPosShape arrays t = none) :
    .plain .NoPositions ∈ checkMultiTag arrays t ∧
    mtagEvents arrays { t with extents := none, features := [] } = ctorEvents t.ent.idUuid := by
  refine ⟨(C14_complete_NoPositions arrays t).mpr (Or.inl h), ?_⟩
  have hp : (t.positions.bind fun k => arrays[k]?) = none := by
    unfold MtPosShape at h
    cases hx : (t.positions.bind fun k => arrays[k]?) with
    | none => rfl
    | some v => simp [hx] at h
  simp [mtagEvents, hp]

/-- linked positions and (non-empty) extents differ in shape — references or not (repaired) -/
theorem C14_complete_PositionsExtentsMismatch (arrays : List DataArray) (t : MultiTag) :
    .plain .PositionsExtentsMismatch ∈ checkMultiTag arrays t ↔
      MtPosShape arrays t ≠ none ∧
      ∃ es, MtExtShape arrays t = some es ∧ firstLen es ≠ some 0 ∧ MtPosShape arrays t ≠ some es := by
  rw [mem_checkMultiTag]; simp [mem_checkEntity, mem_refUnitMsgs, mem_checkFeature]

/-- entries per (linked) position ≠ rank of some referenced array -/
theorem C14_complete_PositionsDimensionMismatch (arrays : List DataArray) (t : MultiTag) :
    .plain .PositionsDimensionMismatch ∈ checkMultiTag arrays t ↔
      MtPosShape arrays t ≠ none ∧
      ∃ da ∈ refArrays arrays t.refs, (MtPosShape arrays t).bind secondDim ≠ some da.shape.length := by
  rw [mem_checkMultiTag]
  have : (∃ da ∈ refArrays arrays t.refs, (MtPosShape arrays t).bind secondDim ≠ some da.shape.length) →
      t.refs ≠ [] := by
    rintro ⟨da, hda, -⟩ h; simp [refArrays, h] at hda
  simp only [mem_checkEntity, mem_refUnitMsgs, mem_checkFeature, reduceCtorEq, false_and, false_or, or_false,
    Msg.plain.injEq, true_and, and_false, exists_const, exists_false]
  exact ⟨fun h => h.2, fun h => ⟨this h.2, h⟩⟩

/-- entries per extent ≠ rank of some referenced array -/
theorem C14_complete_ExtentsDimensionMismatch (arrays : List DataArray) (t : MultiTag) :
    .plain .ExtentsDimensionMismatch ∈ checkMultiTag arrays t ↔
      ∃ es, MtExtShape arrays t = some es ∧ firstLen es ≠ some 0 ∧
        ∃ da ∈ refArrays arrays t.refs, secondDim es ≠ some da.shape.length := by
  rw [mem_checkMultiTag]
  have : (∃ es, MtExtShape arrays t = some es ∧ firstLen es ≠ some 0 ∧
        ∃ da ∈ refArrays arrays t.refs, secondDim es ≠ some da.shape.length) → t.refs ≠ [] := by
    rintro ⟨es, -, -, da, hda, -⟩ h; simp [refArrays, h] at hda
  simp only [mem_checkEntity, mem_refUnitMsgs, mem_checkFeature, reduceCtorEq, false_and, false_or, or_false,
    Msg.plain.injEq, true_and, and_false, exists_const, exists_false]
  exact ⟨fun h => h.2, fun h => ⟨this h, h⟩⟩

/-- unit entries of a multi-tag: as for tags -/
theorem C14_complete_mtag_units (arrays : List DataArray) (t : MultiTag) :
    (.plain .ReferenceUnitsMismatch ∈ checkMultiTag arrays t ↔
      UnitsLenMismatch t.units (refArrays arrays t.refs)) ∧
    (.plain .ReferenceUnitsIncompatible ∈ checkMultiTag arrays t ↔
      UnitsUnconvertible t.units (refArrays arrays t.refs)) ∧
    (.plain .InvalidUnit ∈ checkMultiTag arrays t ↔ ∃ u ∈ t.units, u ≠ [] ∧ isSi u = false) := by
  have h1 : UnitsLenMismatch t.units (refArrays arrays t.refs) → t.refs ≠ [] := by
    rintro ⟨da, hda, -⟩ h; simp [refArrays, h] at hda
  have h2 : UnitsUnconvertible t.units (refArrays arrays t.refs) → t.refs ≠ [] := by
    rintro ⟨da, hda, -⟩ h; simp [refArrays, h] at hda
  refine ⟨?_, ?_, ?_⟩
  · rw [mem_checkMultiTag]
    simp only [mem_checkEntity, mem_refUnitMsgs, mem_checkFeature, reduceCtorEq, false_and, false_or, or_false,
      Msg.plain.injEq, true_and, and_false, exists_const, exists_false]
    exact ⟨fun h => h.2, fun h => ⟨h1 h, h⟩⟩
  · rw [mem_checkMultiTag]
    simp only [mem_checkEntity, mem_refUnitMsgs, mem_checkFeature, reduceCtorEq, false_and, false_or, or_false,
      Msg.plain.injEq, true_and, and_false, exists_const, exists_false]
    exact ⟨fun h => h.2, fun h => ⟨h2 h, h⟩⟩
  · rw [mem_checkMultiTag]; simp [mem_checkEntity, mem_refUnitMsgs, mem_checkFeature]

/-! ## "convertible" on real unit strings -/

/-- for two units written from the regenerated SI tables (optional prefix, unit symbol, optional power `^-3 … ^3`) the
validator's pair test holds iff the unit symbols and the powers agree — only the magnitude prefix may differ -/
theorem C14_unit_pair_atoms (p₁ p₂ u₁ u₂ w₁ w₂ : Str) (h₁ : p₁ ∈ optPrefixes) (h₂ : p₂ ∈ optPrefixes)
    (hu₁ : u₁ ∈ Nix.Units.Gen.units) (hu₂ : u₂ ∈ Nix.Units.Gen.units) (hw₁ : w₁ ∈ powerTexts) (hw₂ : w₂ ∈ powerTexts) :
    unitPairOk (p₁ ++ u₁ ++ w₁, p₂ ++ u₂ ++ w₂) = true ↔ (u₁ = u₂ ∧ w₁.drop 1 = w₂.drop 1) :=
  unitPairOk_atoms p₁ p₂ u₁ u₂ w₁ w₂ h₁ h₂ hu₁ hu₂ hw₁ hw₂

/-- "unconvertible units" is reported for a tag *and* for a multi-tag as soon as ONE reference (first, inner or last)
has, at ONE position, a table unit of another symbol or power than the tag's unit at that position -/
theorem C14_unconvertible_atoms (arrays : List DataArray) (t : Tag) (mt : MultiTag) (da : DataArray) (i : Nat)
    (p₁ p₂ u₁ u₂ w₁ w₂ : Str) (h₁ : p₁ ∈ optPrefixes) (h₂ : p₂ ∈ optPrefixes)
    (hu₁ : u₁ ∈ Nix.Units.Gen.units) (hu₂ : u₂ ∈ Nix.Units.Gen.units) (hw₁ : w₁ ∈ powerTexts) (hw₂ : w₂ ∈ powerTexts)
    (hd : (getDimUnits da)[i]? = some (p₂ ++ u₂ ++ w₂)) (hne : u₁ ≠ u₂ ∨ w₁.drop 1 ≠ w₂.drop 1) :
    (da ∈ refArrays arrays t.refs → t.units[i]? = some (p₁ ++ u₁ ++ w₁) →
      .plain .ReferenceUnitsIncompatible ∈ checkTag arrays t) ∧
    (da ∈ refArrays arrays mt.refs → mt.units[i]? = some (p₁ ++ u₁ ++ w₁) →
      .plain .ReferenceUnitsIncompatible ∈ checkMultiTag arrays mt) := by
  constructor
  · intro hda ht
    exact (C14_complete_ReferenceUnitsIncompatible arrays t).mpr
      (unitsUnconvertible_of_atoms t.units _ da hda i p₁ p₂ u₁ u₂ w₁ w₂ h₁ h₂ hu₁ hu₂ hw₁ hw₂ ht hd hne)
  · intro hda ht
    exact (C14_complete_mtag_units arrays mt).2.1.mpr
      (unitsUnconvertible_of_atoms mt.units _ da hda i p₁ p₂ u₁ u₂ w₁ w₂ h₁ h₂ hu₁ hu₂ hw₁ hw₂ ht hd hne)

/-! ## sections and properties -/

/-- property messages of a section: for exactly the property at the position the message names -/
theorem C14_complete_property (e : Ent) (ps : List Property) (i : Nat) :
    (.property i .NoName ∈ checkSection e ps ↔ ∃ p, ps[i]? = some p ∧ falsy p.name = true) ∧
    (.property i .NoID ∈ checkSection e ps ↔ ∃ p, ps[i]? = some p ∧ falsy p.id = true) := by
  constructor
  · rw [mem_checkSection]
    simp only [mem_checkEntity, mem_checkProperty, reduceCtorEq, false_and, and_false, false_or, or_false,
      Msg.property.injEq, and_true]
    constructor
    · rintro ⟨j, p, hj, rfl, h⟩; exact ⟨p, hj, h⟩
    · rintro ⟨p, hi, h⟩; exact ⟨i, p, hi, rfl, h⟩
  · rw [mem_checkSection]
    simp only [mem_checkEntity, mem_checkProperty, reduceCtorEq, false_and, and_false, false_or, or_false,
      Msg.property.injEq, and_true]
    constructor
    · rintro ⟨j, p, hj, rfl, h⟩; exact ⟨p, hj, h⟩
    · rintro ⟨p, hi, h⟩; exact ⟨i, p, hi, rfl, h⟩

/-! ## the catalogue -/

/-- the message texts of the catalogue are pairwise different: a reported text identifies its entry -/
theorem C14_catalogue_distinct (a b : MsgId) (h : a.template = b.template) : a = b := by
  have hn : (MsgId.all.map MsgId.template).Nodup := by decide +kernel
  have ha : a ∈ MsgId.all := by cases a <;> decide
  have hb : b ∈ MsgId.all := by cases b <;> decide
  exact List.inj_on_of_nodup_map hn ha hb h

/-- every identifier the model reports belongs to the generated catalogue -/
theorem C14_catalogue_complete (m : MsgId) : m ∈ MsgId.all := by
  cases m <;> decide

/-! ## tie to the source: every message the model can produce is one the corresponding Python function refers to -/

/-- the `ValidationError` identifiers the source function `fn` refers to (generated from the AST) -/
def emitsOf (fn : String) : List MsgId := (emits.filter (fun p => p.1 == fn)).flatMap (·.2)

theorem C14_emits_entity (e : Ent) (m : Msg) (h : m ∈ checkEntity e) :
    ∃ k ∈ emitsOf "check_entity", m = .plain k := by
  rcases checkEntity_ids e m h with rfl | rfl | rfl | rfl <;> exact ⟨_, by decide, rfl⟩

theorem C14_emits_dims (d : Dim) (idx : Nat) (m : Msg) :
    (m ∈ checkRangeDim d idx → ∃ k ∈ emitsOf "check_range_dimension", m = .dim k idx) ∧
    (m ∈ checkSampledDim d idx → ∃ k ∈ emitsOf "check_sampled_dimension", m = .dim k idx) := by
  constructor
  · rw [mem_checkRangeDim]
    rintro (⟨rfl, -⟩ | ⟨rfl, -⟩ | ⟨rfl, -⟩) <;> exact ⟨_, by decide, rfl⟩
  · rw [mem_checkSampledDim]
    rintro (⟨rfl, -⟩ | ⟨rfl, -⟩ | ⟨rfl, -⟩) <;> exact ⟨_, by decide, rfl⟩

theorem C14_emits_feature_property (arrays : List DataArray) (ft : Feature) (p : Property) (i : Nat) (m : Msg) :
    (m ∈ checkFeature arrays ft i → ∃ k ∈ emitsOf "check_feature", m = .feature i k) ∧
    (m ∈ checkProperty p i → ∃ k ∈ emitsOf "check_property", m = .property i k) := by
  constructor
  · rw [mem_checkFeature]
    rintro (⟨rfl, -⟩ | ⟨rfl, -⟩ | ⟨rfl, -⟩ | ⟨rfl, -⟩) <;> exact ⟨_, by decide, rfl⟩
  · rw [mem_checkProperty]
    rintro (⟨rfl, -⟩ | ⟨rfl, -⟩) <;> exact ⟨_, by decide, rfl⟩

theorem C14_emits_tags (arrays : List DataArray) (t : Tag) (mt : MultiTag) (m : Msg) :
    (m ∈ checkTag arrays t →
      (∃ k ∈ emitsOf "check_entity" ++ emitsOf "check_tag", m = .plain k) ∨ ∃ i k, k ∈ emitsOf "check_feature" ∧ m = .feature i k) ∧
    (m ∈ checkMultiTag arrays mt →
      (∃ k ∈ emitsOf "check_entity" ++ emitsOf "check_multi_tag", m = .plain k) ∨ ∃ i k, k ∈ emitsOf "check_feature" ∧ m = .feature i k) := by
  constructor
  · rw [mem_checkTag, mem_refUnitMsgs]
    rintro (h | ⟨rfl, -⟩ | ⟨rfl, -⟩ | ⟨-, ⟨rfl, -⟩ | ⟨rfl, -⟩ | ⟨rfl, -⟩ | ⟨rfl, -⟩⟩ | ⟨rfl, -⟩ | ⟨i, ft, -, h⟩)
    · obtain ⟨k, hk, rfl⟩ := C14_emits_entity _ _ h
      exact Or.inl ⟨k, List.mem_append_left _ hk, rfl⟩
    all_goals first
      | exact Or.inl ⟨_, by decide, rfl⟩
      | (obtain ⟨k, hk, rfl⟩ := (C14_emits_feature_property arrays ft ⟨none, false, none⟩ i m).1 h
         exact Or.inr ⟨i, k, hk, rfl⟩)
  · rw [mem_checkMultiTag, mem_refUnitMsgs]
    rintro (h | ⟨rfl, -⟩ | ⟨rfl, -⟩ | ⟨-, ⟨rfl, -⟩ | ⟨rfl, -⟩ | ⟨rfl, -⟩ | ⟨rfl, -⟩⟩ | ⟨rfl, -⟩ | ⟨i, ft, -, h⟩)
    · obtain ⟨k, hk, rfl⟩ := C14_emits_entity _ _ h
      exact Or.inl ⟨k, List.mem_append_left _ hk, rfl⟩
    all_goals first
      | exact Or.inl ⟨_, by decide, rfl⟩
      | (obtain ⟨k, hk, rfl⟩ := (C14_emits_feature_property arrays ft ⟨none, false, none⟩ i m).1 h
         exact Or.inr ⟨i, k, hk, rfl⟩)

theorem C14_emits_array (da : DataArray) (m : Msg) (h : m ∈ checkDataArray da) :
    (∃ k ∈ emitsOf "check_entity" ++ emitsOf "check_data_array", m = .plain k) ∨
    (∃ idx k, k ∈ emitsOf "check_data_array" ++ emitsOf "check_range_dimension" ++ emitsOf "check_sampled_dimension" ∧
        (m = .dim k idx ∨ ∃ v, m = .dim2 k idx v)) := by
  rw [mem_checkDataArray] at h
  rcases h with h | ⟨rfl, -⟩ | ⟨rfl, -⟩ | ⟨i, d, n, -, h⟩
  · obtain ⟨k, hk, rfl⟩ := C14_emits_entity _ _ h
    exact Or.inl ⟨k, List.mem_append_left _ hk, rfl⟩
  · exact Or.inl ⟨_, by decide, rfl⟩
  · exact Or.inl ⟨_, by decide, rfl⟩
  · unfold DimSpec at h
    rcases h with ⟨rfl, -⟩ | ⟨rfl, -⟩ | ⟨rfl, -⟩ | ⟨rfl, -⟩ | ⟨rfl, -⟩ | ⟨rfl, -⟩ | ⟨rfl, -⟩ | ⟨rfl, -⟩ | ⟨rfl, -⟩
    all_goals first
      | exact Or.inr ⟨_, _, by decide, Or.inl rfl⟩
      | exact Or.inr ⟨_, _, by decide, Or.inr ⟨_, rfl⟩⟩

/-- the catalogue identifier a message carries -/
def msgId : Msg → MsgId
  | .plain m => m
  | .dim m _ => m
  | .dim2 m _ _ => m
  | .feature _ m => m
  | .property _ m => m

/-- every identifier some source function refers to -/
def emittedIds : List MsgId := emits.flatMap (·.2)

theorem emitsOf_sub (fn : String) (k : MsgId) (h : k ∈ emitsOf fn) : k ∈ emittedIds := by
  simp only [emitsOf, emittedIds, List.mem_flatMap, List.mem_filter] at h ⊢
  obtain ⟨p, ⟨hp, -⟩, hk⟩ := h
  exact ⟨p, hp, hk⟩

/-- **nothing else**: whatever object of whatever file — every message in its list carries an identifier that a
function of `validator.py` refers to -/
theorem C14_only_emitted (f : File) (kind : Kind) (msgs : List Msg) (m : Msg)
    (h : IsCheckOf f kind msgs) (hm : m ∈ msgs) : msgId m ∈ emittedIds := by
  have hent : ∀ e, m ∈ checkEntity e → msgId m ∈ emittedIds := by
    intro e he
    obtain ⟨k, hk, rfl⟩ := C14_emits_entity e m he
    exact emitsOf_sub _ k hk
  have happ : ∀ (a b : String) k, k ∈ emitsOf a ++ emitsOf b → k ∈ emittedIds := by
    intro a b k hk
    rcases List.mem_append.mp hk with hk | hk <;> exact emitsOf_sub _ k hk
  cases kind with
  | file =>
    simp only [IsCheckOf] at h
    subst h
    unfold checkFileObj at hm
    split at hm
    · simp only [List.mem_singleton] at hm; subst hm; decide
    · simp at hm
  | block => obtain ⟨b, -, rfl⟩ := h; exact hent _ hm
  | group => obtain ⟨b, -, g, -, rfl⟩ := h; exact hent _ hm
  | source => obtain ⟨b, -, e, -, rfl⟩ := h; exact hent _ hm
  | array =>
    obtain ⟨b, -, da, -, rfl⟩ := h
    rcases C14_emits_array da m hm with ⟨k, hk, rfl⟩ | ⟨idx, k, hk, rfl | ⟨v, rfl⟩⟩
    · exact happ _ _ k hk
    · rcases List.mem_append.mp hk with hk | hk
      · exact happ _ _ k hk
      · exact emitsOf_sub _ k hk
    · rcases List.mem_append.mp hk with hk | hk
      · exact happ _ _ k hk
      · exact emitsOf_sub _ k hk
  | tag =>
    obtain ⟨b, -, t, -, rfl⟩ := h
    rcases (C14_emits_tags b.arrays t ⟨t.ent, none, none, [], [], []⟩ m).1 hm with ⟨k, hk, rfl⟩ | ⟨i, k, hk, rfl⟩
    · exact happ _ _ k hk
    · exact emitsOf_sub _ k hk
  | mtag =>
    obtain ⟨b, -, t, -, rfl⟩ := h
    rcases (C14_emits_tags b.arrays ⟨t.ent, 0, 0, [], [], []⟩ t m).2 hm with ⟨k, hk, rfl⟩ | ⟨i, k, hk, rfl⟩
    · exact happ _ _ k hk
    · exact emitsOf_sub _ k hk
  | «section» =>
    obtain ⟨n, -, rfl⟩ := h
    rw [mem_checkSection] at hm
    rcases hm with hm | ⟨i, p, -, hm⟩
    · exact hent _ hm
    · obtain ⟨k, hk, rfl⟩ := (C14_emits_feature_property [] ⟨none, false, none, none, none⟩ p i m).2 hm
      exact emitsOf_sub _ k hk

/-- two catalogue entries have no check: they are never reported, for no file and no object -/
theorem C14_never_reported (f : File) (kind : Kind) (msgs : List Msg) (m : Msg)
    (h : IsCheckOf f kind msgs) (hm : m ∈ msgs) :
    msgId m ≠ .DimensionTypeMismatch ∧ msgId m ≠ .DataFrameMismatch := by
  have := C14_only_emitted f kind msgs m h hm
  constructor <;> intro he <;> rw [he] at this <;> revert this <;> decide

/-- `check_file` visits the containers of a block in the order the model's `blockChecks` does, then the sections -/
theorem C14_traversal_order :
    blockOrder = ["groups", "data_arrays", "tags", "multi_tags", "sources"] ∧ afterBlocks = ["traverse_sections"] := by
  decide
/-! ## tie to the source: the shape of the check functions

`reportSites` (generated from the AST) lists, for every `ValidationError.<X>` a function refers to, the conditions it
sits under.  The literals below are what the model's check functions were written from: `checkTag` tests
`PositionExtentMismatch` outside and the four reference rules inside `if tag.references`, `checkMultiTag` guards the
two position comparisons by `positions is not None`, … .  Moving a test into or out of a guard, changing a condition,
or rewriting a verdict helper breaks `lake build` at the theorem of that function. -/

/-- the report sites of the source functions `fns`, in source order -/
def sitesOf (fns : List String) : List (String × MsgId × List String) := reportSites.filter fun s => fns.contains s.1

theorem C14_shape_tag :
    sitesOf ["check_tag"] = [
      ("check_tag", .NoPosition, ["not tag.position"]),
      ("check_tag", .PositionExtentMismatch, ["tag.extent and len(tag.extent) != len(tag.position)"]),
      ("check_tag", .PositionDimensionMismatch, ["tag.references", "any((posdim != len(da.shape) for da in tag.references))"]),
      ("check_tag", .ExtentDimensionMismatch, ["tag.references", "tag.extent", "any((extlen != len(da.shape) for da in tag.references))"]),
      ("check_tag", .ReferenceUnitsMismatch, ["tag.references", "any((len(ru) != len(tag.units) for ru in refs_units))"]),
      ("check_tag", .ReferenceUnitsIncompatible, ["tag.references", "not tag_units_match_refs_units(tag.units, refs_units)"]),
      ("check_tag", .InvalidUnit, ["any((not units.is_si(u) for u in tag.units if u))"])] := by
  decide

theorem C14_shape_multi_tag :
    sitesOf ["check_multi_tag"] = [
      ("check_multi_tag", .NoPositions, ["not positions"]),
      ("check_multi_tag", .PositionsExtentsMismatch, ["positions is not None and mtag.extents and (positions.shape != mtag.extents.shape)"]),
      ("check_multi_tag", .PositionsDimensionMismatch, ["mtag.references", "positions is not None", "any((posdim != len(da.shape) for da in mtag.references))"]),
      ("check_multi_tag", .ExtentsDimensionMismatch, ["mtag.references", "mtag.extents", "any((extdim != len(da.shape) for da in mtag.references))"]),
      ("check_multi_tag", .ReferenceUnitsMismatch, ["mtag.references", "any((len(ru) != len(mtag.units) for ru in refs_units))"]),
      ("check_multi_tag", .ReferenceUnitsIncompatible, ["mtag.references", "not tag_units_match_refs_units(mtag.units, refs_units)"]),
      ("check_multi_tag", .InvalidUnit, ["any((not units.is_si(u) for u in mtag.units if u))"])] := by
  decide

theorem C14_shape_array :
    sitesOf ["check_data_array", "check_range_dimension", "check_sampled_dimension"] = [
      ("check_data_array", .NoDataType, ["not da.data_type"]),
      ("check_data_array", .DimensionMismatch, ["len(da.dimensions) != len(da.shape)"]),
      ("check_data_array", .InvalidDimensionIndex, ["for (idx, (dim, datalen)) in enumerate(zip(da.dimensions, da.shape), 1)", "not dim.index or dim.index <= 0"]),
      ("check_data_array", .IncorrectDimensionIndex, ["for (idx, (dim, datalen)) in enumerate(zip(da.dimensions, da.shape), 1)", "not (not dim.index or dim.index <= 0)", "dim.index != idx"]),
      ("check_data_array", .RangeDimTicksMismatch, ["for (idx, (dim, datalen)) in enumerate(zip(da.dimensions, da.shape), 1)", "dim.dimension_type == DimensionType.Range", "dim.ticks is not None and len(dim.ticks) != datalen"]),
      ("check_data_array", .SetDimLabelsMismatch, ["for (idx, (dim, datalen)) in enumerate(zip(da.dimensions, da.shape), 1)", "not (dim.dimension_type == DimensionType.Range)", "not (dim.dimension_type == DimensionType.Sample)", "dim.dimension_type == DimensionType.Set", "dim.labels and len(dim.labels) != datalen"]),
      ("check_range_dimension", .NoTicks, ["not dim.ticks"]),
      ("check_range_dimension", .UnsortedTicks, ["not (not dim.ticks)", "not all((ti < tj for ti, tj in zip(dim.ticks[:-1], dim.ticks[1:])))"]),
      ("check_range_dimension", .InvalidDimensionUnit, ["dim.unit and (not units.is_atomic(dim.unit))"]),
      ("check_sampled_dimension", .NoSamplingInterval, ["not dim.sampling_interval"]),
      ("check_sampled_dimension", .InvalidSamplingInterval, ["not (not dim.sampling_interval)", "dim.sampling_interval < 0"]),
      ("check_sampled_dimension", .InvalidDimensionUnit, ["dim.unit", "not units.is_atomic(dim.unit)"])] := by
  decide

theorem C14_shape_entities :
    sitesOf ["check_file", "check_entity", "check_feature", "check_property"] = [
      ("check_file", .NoDate, ["file_created_at is None"]),
      ("check_feature", .NoID, ["not feat.id"]),
      ("check_feature", .NoDate, ["feat.created_at is None"]),
      ("check_feature", .NoData, ["not feat.data"]),
      ("check_feature", .NoLinkType, ["not feat.link_type"]),
      ("check_property", .NoID, ["not prop.id"]),
      ("check_property", .NoName, ["not prop.name"]),
      ("check_entity", .NoType, ["not entity.type"]),
      ("check_entity", .NoID, ["not entity.id"]),
      ("check_entity", .NoName, ["not entity.name"]),
      ("check_entity", .NoDate, ["entity.created_at is None"])] := by
  decide

/-- no other function refers to a catalogue identifier -/
theorem C14_shape_no_other_sites :
    (reportSites.filter fun s => !["check_data_array", "check_entity", "check_feature", "check_file", "check_multi_tag", "check_property", "check_range_dimension", "check_sampled_dimension", "check_tag"].contains s.1) = [] := by
  decide

/-- the verdict helpers: `get_dim_units` (one entry per descriptor: its unit, or "" for a unit-less or set descriptor) and
`tag_units_match_refs_units` (every reference, every zipped pair; both empty: fine; else `units.scalable`; first failure
decides) — the statements `getDimUnits` / `unitsMatch` transcribe -/
theorem C14_shape_helpers :
    helperShapes = [
      ("get_dim_units", ["unit_list = []", "for dim in data_array.dimensions:", "if dim.dimension_type == DimensionType.Range or dim.dimension_type == DimensionType.Sample:", "unit_list.append(dim.unit if dim.unit else '')", "elif dim.dimension_type == DimensionType.Set:", "unit_list.append('')", "return unit_list"]),
      ("tag_units_match_refs_units", ["for ref_units in refs_units:", "for tag_unit, ref_unit in zip(tag_units, ref_units):", "if tag_unit == '' and ref_unit == '':", "continue", "if not units.scalable(tag_unit, ref_unit):", "return False", "return True"])] := by
  decide

/-! ## tie to the source: the guards, compiled and evaluated

`Generated/ValidatorGuards.lean` holds the conditions of the report sites compiled from the AST into `PyGuard.Expr`
(reads, `not` / `and` / `or`, `is None`, comparisons, `len`, `units.is_atomic` / `is_si`, generators over tuples, the
adjacent-pairs idiom); `PyGuard.eval` gives them Python's meaning (truthiness of `None`, `0`, `0.0`, `""`, `()`, an
object of length 0; `and` / `or` returning operands; `None < 0` a TypeError).  The theorems below say: for ALL values the
reads can return, evaluating the source's conditions yields exactly the message list of the model's check function —
so a date at the epoch, a type `"0"`, a position `(0.0,)`, ticks `(0.0,)`, an interval `0.0` are decided by a
kernel-checked computation over the *source's* conditions, not by a transcription.  Editing a condition in the source
(`is None` → `not`, `<` → `<=`, `not all(a < b …)` → `any(a > b …)`) changes the generated term; the build then fails at
the theorem of that function unless the edit is semantically neutral. -/

/-- `check_entity`: the four sites, evaluated on what the entity's reads return, are `checkEntity` -/
theorem C14_guards_entity (e : Ent) :
    (fired (entEnv e) guards_check_entity).map (List.map Msg.plain) = .ok (checkEntity e) := guards_entity e

/-- `check_file`: the date test on the file object (`none` = the attribute is missing) -/
theorem C14_guards_file (f : File) :
    (fired (fileEnv f) guards_check_file).map (List.map Msg.plain) = .ok (checkFileObj f) := guards_file f

/-- `check_property` -/
theorem C14_guards_property (p : Property) (i : Nat) :
    (fired (propEnv p) guards_check_property).map (List.map (Msg.property i)) = .ok (checkProperty p i) :=
  guards_property p i

/-- `check_feature`, for a feature whose reads return (data linked to an array of `n` entries, link type a member of
the enum; otherwise `validate()` raises, see `featureEvents`) -/
theorem C14_guards_feature (arrays : List DataArray) (ft : Feature) (i n : Nat) (da : DataArray)
    (hd : ft.data.bind (fun k => arrays[k]?) = some da) (hn : firstLen da.shape = some n)
    (hl : linkTypeOk ft.linkType = true) :
    (fired (featEnv ft n) guards_check_feature).map (List.map (Msg.feature i)) = .ok (checkFeature arrays ft i) :=
  guards_feature arrays ft i n da hd hn hl

/-- `check_range_dimension`: missing ticks, the adjacent-pairs test (`all(ti < tj …)` is `ticksSorted`), the unit -/
theorem C14_guards_range (d : Dim) (idx : Nat) :
    (fired (rangeEnv d) guards_check_range_dimension).map (List.map (Msg.dim · idx)) = .ok (checkRangeDim d idx) :=
  guards_range d idx

/-- `check_sampled_dimension`: `not interval` (None or 0), `interval < 0`, the unit -/
theorem C14_guards_sampled (d : Dim) (idx : Nat) :
    (fired (sampledEnv d) guards_check_sampled_dimension).map (List.map (Msg.dim · idx)) =
      .ok (checkSampledDim d idx) :=
  guards_sampled d idx

/-- `check_data_array`: the two array-level sites and — for every iteration of the loop (descriptor `d` with labels
`labels`, data length `n`, position `idx`) — the four sites of the loop body: what fires is what the model reports -/
theorem C14_guards_array (da : DataArray) (d : Dim) (labels : List Str) (n idx : Nat) (hl : labels.length = d.nLabels) :
    (∃ ids, fired (dimEnv da d labels n idx) (guards_check_data_array.take 2) = .ok ids ∧
      checkDataArray da = checkEntity da.ent ++ ids.map Msg.plain ++ dimLoop 1 (da.dims.zip da.shape)) ∧
    (∃ ids, fired (dimEnv da d labels n idx) (guards_check_data_array.drop 2) = .ok ids ∧
      dimMsgs idx d n = ids.map (renderDim idx d.index) ++
        (match d.kind with
         | .range => checkRangeDim d idx
         | .sample => checkSampledDim d idx
         | .set => [])) := by
  refine ⟨?_, guards_dim_loop da d labels n idx hl⟩
  have h := guards_array_head da d labels n idx
  cases hf : fired (dimEnv da d labels n idx) (guards_check_data_array.take 2) with
  | error e => rw [hf] at h; cases h
  | ok ids =>
    rw [hf] at h
    refine ⟨ids, rfl, ?_⟩
    have h' : ids.map Msg.plain = (if falsy da.dataType then [.plain .NoDataType] else []) ++
        (if da.dims.length != da.shape.length then [.plain .DimensionMismatch] else []) := by
      simpa [Except.map] using h
    unfold checkDataArray
    rw [h']
    simp only [List.append_assoc]

/-- `check_tag`: ALL seven sites (missing position — a position of zeros is a position —, position / extent
lengths, position and extent length against the rank of every reference, unit count against the references'
descriptors, convertibility — the verdict helper inlined —, non-SI unit): the identifiers that fire, in source order,
between the entity messages and the feature messages, ARE the model's `checkTag`; `position` / `extent` are the stored
tuples, of which the description keeps the lengths -/
theorem C14_guards_tag (position extent : List Rat) (arrays : List DataArray) (t : Tag)
    (hp : position.length = t.posLen) (he : extent.length = t.extLen) :
    ∃ ids, fired (tagEnv position extent t.units t.refs.length (refArrays arrays t.refs)) guards_check_tag = .ok ids ∧
      checkTag arrays t = checkEntity t.ent ++ ids.map Msg.plain ++ featLoop arrays 0 t.features := by
  refine ⟨_, guards_tag position extent arrays t hp he, ?_⟩
  unfold checkTag refUnitMsgs
  simp only [List.map_append, List.append_assoc, List.append_cancel_left_eq, List.append_cancel_right_eq]
  generalize (t.posLen == 0) = c1
  generalize (t.extLen != 0 && t.extLen != t.posLen) = c2
  generalize ((refArrays arrays t.refs).any fun da => t.posLen != da.shape.length) = c3
  generalize ((refArrays arrays t.refs).any fun da => t.extLen != da.shape.length) = c4
  generalize ((List.map getDimUnits (refArrays arrays t.refs)).any fun ru => ru.length != t.units.length) = c5
  generalize unitsMatch t.units (List.map getDimUnits (refArrays arrays t.refs)) = c6
  generalize anyNonSi t.units = c7
  generalize (t.extLen != 0) = e
  generalize t.refs.isEmpty = r
  cases c1 <;> cases c2 <;> cases r <;> cases c3 <;> cases e <;> cases c4 <;> cases c5 <;> cases c6 <;> cases c7 <;> rfl

/-- `check_multi_tag`, for a multi-tag whose shape reads return (linked arrays of rank ≥ 1): ALL seven sites (missing
positions — no link, or a linked array without entries —, positions / extents shapes, entries per position / extent
against the rank of every reference, unit count, convertibility, non-SI unit) fire as the model reports -/
theorem C14_guards_multi_tag (arrays : List DataArray) (t : MultiTag)
    (hp : ∀ sh, MtPosShape arrays t = some sh → sh ≠ []) (he : ∀ sh, MtExtShape arrays t = some sh → sh ≠ []) :
    ∃ ids, fired (mtagEnv (MtPosShape arrays t) (MtExtShape arrays t) t.units t.refs.length (refArrays arrays t.refs))
        guards_check_multi_tag = .ok ids ∧
      checkMultiTag arrays t = checkEntity t.ent ++ ids.map Msg.plain ++ featLoop arrays 0 t.features := by
  refine ⟨_, guards_multi_tag arrays t hp he, ?_⟩
  unfold checkMultiTag refUnitMsgs MtPosShape MtExtShape
  simp only [List.map_append, List.append_assoc, List.append_cancel_left_eq, List.append_cancel_right_eq]
  generalize (Option.map (fun x => x.shape) (t.positions.bind fun k => arrays[k]?)) = ps
  generalize (Option.map (fun x => x.shape) (t.extents.bind fun k => arrays[k]?)) = es
  generalize ((List.map getDimUnits (refArrays arrays t.refs)).any fun ru => ru.length != t.units.length) = c5
  generalize unitsMatch t.units (List.map getDimUnits (refArrays arrays t.refs)) = c6
  generalize anyNonSi t.units = c7
  generalize (ps.isNone || ps.bind firstLen == some 0) = c1
  cases es with
  | none =>
    simp only [pemFlag, edmFlag, pdmFlag]
    by_cases hr : t.refs.isEmpty = true <;>
    by_cases ha : ps.isSome = true <;>
    by_cases h3 : ((refArrays arrays t.refs).any fun da => ps.bind secondDim != some da.shape.length) = true <;>
    simp only [hr, ha, h3, Bool.not_true, Bool.not_false, Bool.false_and, Bool.true_and, Bool.and_false, Bool.and_true] <;>
    cases c1 <;> cases c5 <;> cases c6 <;> cases c7 <;> simp
  | some e =>
    simp only [pemFlag, edmFlag, pdmFlag]
    by_cases hr : t.refs.isEmpty = true <;>
    by_cases ha : ps.isSome = true <;>
    by_cases hb : (ps != some e) = true <;>
    by_cases h3 : ((refArrays arrays t.refs).any fun da => ps.bind secondDim != some da.shape.length) = true <;>
    by_cases hf : (firstLen e != some 0) = true <;>
    by_cases h4 : ((refArrays arrays t.refs).any fun da => secondDim e != some da.shape.length) = true <;>
    simp only [hr, ha, hb, h3, hf, h4, Bool.not_true, Bool.not_false, Bool.false_and, Bool.true_and, Bool.and_false,
      Bool.and_true] <;>
    cases c1 <;> cases c5 <;> cases c6 <;> cases c7 <;> simp

/-- every report site of every check function is compiled (the verdict helper `tag_units_match_refs_units` is inlined
at its two calls): nothing is tied by text alone -/
theorem C14_guards_opaque :
    opaque_check_tag = [] ∧ opaque_check_multi_tag = [] ∧
    opaque_check_file = [] ∧ opaque_check_entity = [] ∧ opaque_check_feature = [] ∧ opaque_check_property = [] ∧
    opaque_check_data_array = [] ∧ opaque_check_range_dimension = [] ∧ opaque_check_sampled_dimension = [] ∧
    inlinedHelpers = ["tag_units_match_refs_units"] := by
  decide

/-- the compiled sites are all the report sites of the source, function by function, in source order -/
theorem C14_guards_cover :
    reportSites.map (fun s => (s.1, s.2.1)) = guardTable.flatMap fun f => f.2.map fun g => (f.1, g.1) := by
  decide

/-- `get_dim_units`, compiled from its statements (`out = []; for dim in data_array.dimensions: if …: out.append(…)
elif …; return out`), returns the model's `getDimUnits` for every array: the value the read `refs_units` stands for in
`C14_guards_tag` / `C14_guards_multi_tag` (one such list per referenced array) -/
theorem C14_guards_get_dim_units (da : DataArray) :
    Nix.PyGuard.collected getDimUnitsBranches (da.dims.map dimUnitEnv) = .ok ((getDimUnits da).map .str) ∧
    getDimUnitsLoop = ("dim", "data_array.dimensions") := by
  refine ⟨?_, by decide⟩
  rw [collected_getDimUnits]
  rfl

/-- the locals the compiled conditions read, and the statements that assign them: `positions` / `file_created_at` are
the read, or `None` when the read raises (what `linkedVal none` / `ofOptInt none` stand for); `posdim` / `extlen` /
`extdim` the lengths the environments give them (`dimVal` = `secondDim`); `refs_units` the dimension units of every
referenced array (`refs.map getDimUnits`, `C14_shape_helpers`) -/
theorem C14_guards_locals :
    localDefs = [
      ("check_file", "file_created_at", ["try: file_created_at = nixfile.created_at", "except KeyError: file_created_at = None"]),
      ("check_tag", "posdim", ["if tag.references: posdim = len(tag.position)"]),
      ("check_tag", "extlen", ["if tag.extent: extlen = len(tag.extent)"]),
      ("check_tag", "refs_units", ["if tag.references: refs_units = [get_dim_units(da) for da in tag.references]"]),
      ("check_multi_tag", "posdim", ["if len(positions.shape) == 1: posdim = 1", "if not (len(positions.shape) == 1): posdim = positions.shape[1]"]),
      ("check_multi_tag", "refs_units", ["if mtag.references: refs_units = [get_dim_units(da) for da in mtag.references]"]),
      ("check_multi_tag", "positions", ["try: positions = mtag.positions", "except RuntimeError: positions = None"]),
      ("check_multi_tag", "extdim", ["if len(mtag.extents.shape) == 1: extdim = 1", "if not (len(mtag.extents.shape) == 1): extdim = mtag.extents.shape[1]"])] ∧
    siteLoops.map (fun s => (s.1, s.2.1)) = [("check_data_array", .InvalidDimensionIndex),
      ("check_data_array", .IncorrectDimensionIndex), ("check_data_array", .RangeDimTicksMismatch),
      ("check_data_array", .SetDimLabelsMismatch)] := by
  decide

/-! ## "no ID set": never reported for an entity (genuine defect, known finding) -/

/-- full statement: validating reports "no ID set" for an object iff its id is missing -/
def C14_complete_NoID_full : Prop :=
  ∀ (f : File) (b : Block), b ∈ f.blocks →
    (falsy b.ent.id = true ↔ ∃ rs p msgs, validate f = .ok rs ∧ (⟨.block, p⟩, msgs) ∈ rs ∧ .plain .NoID ∈ msgs)

/-- a file whose only block has no id -/
def noIdBlock : Block :=
  { ent := { type_ := some ['t'], id := none, idUuid := false, name := some ['b'], createdAt := some 1 },
    groups := [], arrays := [], tags := [], mtags := [], sources := [] }

def noIdFile : File := { createdAt := some 1, sections := [], blocks := [noIdBlock] }

/-- the API refuses the entity, the exception propagates out of `validate()` -/
theorem C14_complete_NoID_counterexample : ¬ C14_complete_NoID_full := by
  intro h
  have := (h noIdFile noIdBlock (by simp [noIdFile])).mp (by decide)
  obtain ⟨rs, p, msgs, hv, -, -⟩ := this
  have : validate noIdFile = .error .valueError := by decide
  rw [this] at hv
  cases hv

/-- what holds instead: whenever validation returns, every entity it visited has a UUID id, so the `NoID` branch
of `check_entity` is reachable only for ids the API accepts and that are falsy — which a UUID never is
(hypothesis `hid`: `is_uuid(id)` implies the id is a non-empty string) -/
theorem C14_complete_NoID_partial (f : File) (rs : List (Key × List Msg)) (hv : validate f = .ok rs)
    (b : Block) (hb : b ∈ f.blocks) (hid : b.ent.idUuid = true → falsy b.ent.id = false) :
    b.ent.idUuid = true ∧ .plain .NoID ∉ checkEntity b.ent := by
  have hr : raiseEvents f = [] := by
    unfold validate at hv
    cases h : (raiseEvents f).head? with
    | none => simpa using h
    | some e => simp [h] at hv
  have hu : b.ent.idUuid = true := by
    unfold raiseEvents at hr
    have h1 := (List.append_eq_nil_iff.mp hr).1
    rw [List.flatMap_eq_nil_iff] at h1
    have h2 := h1 b hb
    unfold blockEvents at h2
    simp only [List.append_eq_nil_iff] at h2
    have h3 := h2.1.1.1.1.1
    unfold ctorEvents at h3
    by_cases hc : b.ent.idUuid = true
    · exact hc
    · simp [hc] at h3
  refine ⟨hu, ?_⟩
  rw [C14_complete_NoID_check, hid hu]
  decide

/-! ## non-vacuity -/

/-- a concrete well-formed file: one block with a 2-d array (range + sampled descriptor), a tag referencing it -/
def sampleFile : File :=
  let e (n : String) : Ent := { type_ := some ['t'], id := some n.toList, idUuid := true, name := some n.toList,
                                createdAt := some 1 }
  { createdAt := some 1, sections := [.mk (e "sec") [{ id := some ['p'], idUuid := true, name := some ['p'] }] []],
    blocks := [{ ent := e "b", groups := [e "g"],
                 arrays := [{ ent := e "a", dataType := some ['d'], shape := [2, 3],
                              dims := [{ kind := .range, index := 1, ticks := [1, 2], nLabels := 0, interval := none,
                                         unit := some "ms".toList },
                                       { kind := .sample, index := 2, ticks := [], nLabels := 0, interval := some (1/2),
                                         unit := some "V".toList }] }],
                 tags := [{ ent := e "t", posLen := 2, extLen := 2, units := ["s".toList, "mV".toList], refs := [0],
                            features := [] }],
                 mtags := [], sources := [.mk (e "s") []] }] }

/-- the hypothesis of `C14_sound` is met by it -/
example : WellFormed sampleFile := by
  refine ⟨by decide, ?_, ?_⟩
  · intro b hb
    simp only [sampleFile, List.mem_singleton] at hb
    subst hb
    refine ⟨by simp [EntOk, falsy], ?_, ?_, ?_, ?_, ?_⟩
    · intro g hg; simp only [List.mem_singleton] at hg; subst hg; simp [EntOk, falsy]
    · intro da hda; simp only [List.mem_singleton] at hda; subst hda
      refine ⟨by simp [EntOk, falsy], by simp [falsy], rfl, ?_⟩
      intro i d n hi
      match i with
      | 0 =>
        simp at hi; obtain ⟨rfl, rfl⟩ := hi
        refine ⟨rfl, ?_, by simp, by simp⟩
        intro _
        refine ⟨rfl, by simp, by simp <;> decide, ?_⟩
        intro s hs _; cases hs; decide +kernel
      | 1 =>
        simp at hi; obtain ⟨rfl, rfl⟩ := hi
        refine ⟨rfl, by simp, ?_, by simp⟩
        intro _
        refine ⟨⟨_, rfl, by decide +kernel⟩, ?_⟩
        intro s hs _; cases hs; decide +kernel
      | k + 2 => simp at hi
    · intro t ht; simp only [List.mem_singleton] at ht; subst ht
      refine ⟨by simp [EntOk, falsy], by simp, ?_, ?_, ?_, by simp⟩
      · intro da hda; simp [refArrays] at hda; subst hda; rfl
      · right; refine ⟨rfl, ?_⟩; intro da hda; simp [refArrays] at hda; subst hda; rfl
      · refine ⟨?_, ?_, ?_⟩
        · intro da hda; simp [refArrays] at hda; subst hda; rfl
        · intro da hda p hp; simp [refArrays] at hda; subst hda
          simp [getDimUnits] at hp
          rcases hp with rfl | rfl <;> right <;> decide +kernel
        · intro u hu _; simp at hu; rcases hu with rfl | rfl <;> decide +kernel
    · intro t ht; simp at ht
    · intro e he; simp [sourcesEnts, sourceEnts] at he; subst he; simp [EntOk, falsy]
  · intro n hn
    simp [sampleFile, sectionsNodes, sectionNodes] at hn
    subst hn
    refine ⟨by simp [EntOk, falsy], ?_⟩
    intro p hp; simp at hp; subst hp; simp [PropertyOk, falsy]

example : validate sampleFile = .ok [] := by decide +kernel

/-- an injected inconsistency is reported at its object: unsorted ticks on dimension 1 of the array -/
example :
    validate { sampleFile with blocks := sampleFile.blocks.map fun b =>
      { b with arrays := b.arrays.map fun a => { a with dims := a.dims.map fun d => { d with ticks := [2, 1] } } } }
      = .ok [(⟨.array, [0, 0]⟩, [.dim .UnsortedTicks 1])] := by decide +kernel

/-- look-alike symbols: a tag in `mol` on a dimension in `mm`, `Wb` on `kW`, `mSv` on `uS` — none is convertible -/
example : unitPairOk ("mol".toList, "mm".toList) = false ∧ unitPairOk ("Wb".toList, "kW".toList) = false ∧
    unitPairOk ("mSv".toList, "uS".toList) = false ∧ unitPairOk ("mmol".toList, "mol".toList) = true := by
  decide +kernel

/-- the hypotheses of `C14_unit_pair_atoms` are met by `mol` / `mm` -/
example : ([] : Str) ∈ optPrefixes ∧ "m".toList ∈ optPrefixes ∧ "mol".toList ∈ Nix.Units.Gen.units ∧
    "m".toList ∈ Nix.Units.Gen.units ∧ ([] : Str) ∈ powerTexts := by decide

/-- three references, only the FIRST has a descriptor in another quantity (mV against the tag's s): reported -/
example :
    let arr (u : String) : DataArray :=
      { ent := { type_ := some ['t'], id := some ['a'], idUuid := true, name := some ['a'], createdAt := some 1 },
        dataType := some ['d'], shape := [2],
        dims := [{ kind := .sample, index := 1, ticks := [], nLabels := 0, interval := some (1/2),
                   unit := some u.toList }] }
    checkTag [arr "mV", arr "ms", arr "s"]
      { ent := { type_ := some ['t'], id := some ['t'], idUuid := true, name := some ['t'], createdAt := some 1 },
        posLen := 1, extLen := 0, units := ["s".toList], refs := [0, 1, 2], features := [] }
      = [.plain .ReferenceUnitsIncompatible] := by decide +kernel

/-- a multi-tag without positions link is *reported* (`positions are not set`), validate() returns -/
example :
    validate { sampleFile with blocks := sampleFile.blocks.map fun b =>
      { b with mtags := [{ ent := b.ent, positions := none, extents := none, units := [], refs := [], features := [] }] } }
      = .ok [(⟨.mtag, [0, 0]⟩, [.plain .NoPositions])] := by decide +kernel

/-- boundary VALUES are not missing values: an entity dated at the epoch, with type `"0"` and name `" "`, fires no
site of `check_entity`; a file dated at the epoch none of `check_file`; the same with the date really absent fires -/
example :
    fired (entEnv { type_ := some ['0'], id := some ['i'], idUuid := true, name := some [' '], createdAt := some 0 })
      guards_check_entity = .ok [] ∧
    fired (fileEnv { createdAt := some 0, blocks := [], sections := [] }) guards_check_file = .ok [] ∧
    fired (fileEnv { createdAt := none, blocks := [], sections := [] }) guards_check_file = .ok [.NoDate] ∧
    fired (entEnv { type_ := some [], id := some ['i'], idUuid := true, name := none, createdAt := none })
      guards_check_entity = .ok [.NoType, .NoName, .NoDate] := by
  refine ⟨?_, ?_, ?_, ?_⟩ <;> rfl

/-- a position `(0.0,)` with extent `(0.0,)` is a position; ticks `(0.0,)` are ticks; ticks `(-0.0, 0.0)` (equal as
numbers) are not sorted; an interval of `0` is "not set", a tiny negative one invalid, a tiny positive one fine -/
example :
    fired (tagEnv [0] [0] [] 0 []) guards_check_tag = .ok [] ∧
    fired (tagEnv [] [] [] 0 []) guards_check_tag = .ok [.NoPosition] ∧
    fired (rangeEnv { kind := .range, index := 1, ticks := [0], nLabels := 0, interval := none, unit := some [] })
      guards_check_range_dimension = .ok [] ∧
    fired (rangeEnv { kind := .range, index := 1, ticks := [0, 0], nLabels := 0, interval := none, unit := none })
      guards_check_range_dimension = .ok [.UnsortedTicks] ∧
    fired (sampledEnv { kind := .sample, index := 1, ticks := [], nLabels := 0, interval := some 0, unit := none })
      guards_check_sampled_dimension = .ok [.NoSamplingInterval] ∧
    fired (sampledEnv { kind := .sample, index := 1, ticks := [], nLabels := 0, interval := some (-1/1000000), unit := none })
      guards_check_sampled_dimension = .ok [.InvalidSamplingInterval] ∧
    fired (sampledEnv { kind := .sample, index := 1, ticks := [], nLabels := 0, interval := some (1/1000000), unit := none })
      guards_check_sampled_dimension = .ok [] := by
  refine ⟨?_, ?_, ?_, ?_, ?_, ?_, ?_⟩ <;> decide +kernel

/-! ## range descriptors whose ticks come through a link (`Pure/DimLinkTicks.lean`) -/

/-- A range descriptor whose ticks are the vector a DataArray link selects (`RangeDimension.ticks` →
`DimensionLink.values`): the tick count message is in the array's list iff the PROVIDER's extent along the axis the
index marks with `-1` differs from the data extent the descriptor stands at - for every provider, index and data;
`is_alias` plays no role. -/
theorem C14_linked_ticks_count (da : DataArray) (idx : Nat) (d : Dim) (n : Nat)
    (shape : List Nat) (index : List Int) (data : List Rat)
    (hd : dimAt da idx = some (d, n)) (hk : d.kind = .range)
    (hv : DimLinkTicks.linkedTicks shape index data = .ok d.ticks) :
    .dim .RangeDimTicksMismatch idx ∈ checkDataArray da ↔ DimLinkTicks.axisLen shape index ≠ some n := by
  rw [C14_complete_RangeDimTicksMismatch]
  have hl := DimLinkTicks.values_length shape index data d.ticks hv
  constructor
  · rintro ⟨d', n', h, _, hne⟩
    rw [hd] at h
    cases h
    rw [hl]
    simpa using hne
  · intro h
    refine ⟨d, n, hd, hk, ?_⟩
    rw [hl] at h
    simpa using h

/-- the read of a link never fails when the index is one with exactly one `-1` and every other coordinate inside the
provider, and its length is the provider's extent along the marked axis -/
theorem C14_linked_ticks_read (shape : List Nat) (index : List Int) (data : List Rat)
    (hc : DimLinkTicks.coordsOk shape index = true) (hlen : data.length = DimLinkTicks.blockSize shape) :
    ∃ v, DimLinkTicks.linkedTicks shape index data = .ok v ∧ DimLinkTicks.axisLen shape index = some v.length := by
  obtain ⟨v, hv⟩ := DimLinkTicks.values_total shape index data hc hlen
  exact ⟨v, hv, DimLinkTicks.values_length shape index data v hv⟩

/-- `link_data_array` accepts every such index, and its verdict depends on the RANK of the provider only: a provider
whose selected vector has any other length is accepted as well -/
theorem C14_link_accepts_any_length (shape shape' : List Nat) (index : List Int)
    (hr : shape.length = shape'.length) :
    DimLinkTicks.linkDataArray shape index = DimLinkTicks.linkDataArray shape' index ∧
    (DimLinkTicks.coordsOk shape index = true → DimLinkTicks.linkDataArray shape index = .ok ()) := by
  refine ⟨by simp [DimLinkTicks.linkDataArray, hr], fun hc => ?_⟩
  obtain ⟨h1, h2⟩ := DimLinkTicks.coordsOk_accepted shape index hc
  simp [DimLinkTicks.linkDataArray, h1, h2]

/-- after an accepted `link_data_array` the descriptor IS an alias in the sense of `is_alias`, whatever array it is
linked to: `is_alias` says nothing about where the ticks come from or how many there are -/
theorem C14_linked_is_alias (s : DimLinkTicks.RangeStore) : DimLinkTicks.isAlias (DimLinkTicks.afterLinkArray s) = true :=
  DimLinkTicks.isAlias_afterLinkArray s

/-- row 1 of a 3x4 provider; a column of it; a coordinate outside the provider; an index with two `-1` is refused -/
example :
    DimLinkTicks.linkedTicks [3, 4] [1, -1] [0, 1, 2, 3, 4, 5, 6, 7, 8, 9, 10, 11] = .ok [4, 5, 6, 7] ∧
    DimLinkTicks.linkedTicks [3, 4] [-1, 2] [0, 1, 2, 3, 4, 5, 6, 7, 8, 9, 10, 11] = .ok [2, 6, 10] ∧
    DimLinkTicks.linkedTicks [3, 4] [3, -1] [0, 1, 2, 3, 4, 5, 6, 7, 8, 9, 10, 11] = .error .indexError ∧
    DimLinkTicks.linkDataArray [3, 4] [-1, -1] = .error .valueError ∧
    DimLinkTicks.linkDataArray [3, 4] [-1] = .error .incompatibleDimensions ∧
    DimLinkTicks.linkDataArray [3, 4] [1, -1] = .ok () := by
  refine ⟨?_, ?_, ?_, ?_, ?_, ?_⟩ <;> decide +kernel

end Nix.C14
