import NixModel.Props.C01

/-!
# C12 — array data: a refused `DataSet.append` / write / resize leaves the stored array as it was

`DataSet.append` enlarges the dataset *before* the hyperslab write can find out that the data cannot be stored
(text into a float array, objects, a shape h5py refuses): it is the one data-level call whose refusal needs a
roll-back.  C01 compiles `data_set.py` into Lean (`Generated/DataSetShape.lean`) and proves the compiled functions
equal to the state-passing model `Pure/NdStore.lean`; the statements below are C12's reading of that model, on the
*compiled* definitions: an edit of `append` in the source (a dropped or re-ordered check, a dropped restore, another
class in the `except` clause) changes `dsAppend` and breaks `C01_source_append`, on which these theorems rest.
-/
namespace Nix.C12
open Nix Nix.Nd Nix.Nd.Lemmas Nix.NdGen

/-- `DataSet.append(data, axis)` as compiled from the source, for every stored array, every typed data and every
axis: refused (whatever the class: rank, axis, shape, data that cannot be converted, a failing resize) ⇒ the
extent, every element, the element type and the filter flag are what they were -/
theorem append_refused_unchanged (A : DArr) (d : Arr) (axis : Int) (e : IoErr)
    (h : (Nix.Gen.DataSet.dsAppend A d axis).2 = some e) :
    EqArr (Nix.Gen.DataSet.dsAppend A d axis).1.arr A.arr ∧
    (Nix.Gen.DataSet.dsAppend A d axis).1.dtype = A.dtype ∧
    (Nix.Gen.DataSet.dsAppend A d axis).1.compressed = A.compressed := by
  rw [Nix.C01.C01_source_append] at h ⊢
  exact Nix.C01.C01_raised_unchanged A (.append d axis) e h

/-- every data-level step (`write_direct`, `__setitem__`, `append`, `data_extent = …`) of a history: raised ⇒
unchanged -/
theorem data_step_refused_unchanged (A : DArr) (s : TStep) (e : IoErr) (h : (stepS A s).2 = some e) :
    EqArr (stepS A s).1.arr A.arr ∧ (stepS A s).1.dtype = A.dtype ∧ (stepS A s).1.compressed = A.compressed :=
  Nix.C01.C01_raised_unchanged A s e h

/-- … and so is a whole history: the array after any list of steps is the array after the steps that raised
nothing (`performed`), their data converted to the element type -/
theorem data_history_skips_refused (A : DArr) (steps : List TStep) (hp : ∀ s ∈ steps, s.plain = true) :
    EqArr (runS A steps).arr (refRun A.dtype.fill A.arr (performed A steps)) :=
  (Nix.C01.C01_typed_history A steps hp).1

end Nix.C12
