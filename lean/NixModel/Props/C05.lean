import NixModel.Lemmas.C05Alias
import NixModel.Lemmas.C05Dim
import NixModel.Generated.LinkShape
import NixModel.Lemmas.C05Accept
import NixModel.Lemmas.C05Stale
import NixModel.Lemmas.C05Hist
import NixModel.Lemmas.C05Copy
import NixModel.Lemmas.C05Kind

/-!
# C05 — links are aliases of the original entity, never copies, and stay in their block

Statements over the structural model (`Store/Graph`, `Store/Api`, `Store/Step`) and the dimension
model (`Pure/DimLink`).  A link stores the *key* of the target node, so every access path that
resolves to a node reads and writes that node; the theorems below say so for arbitrary graphs,
paths, attribute values, data and index vectors (no bound on sizes or histories).
-/
namespace Nix.C05
open Nix.Store Nix.Store.Graph Nix.Store.Lemmas Nix.DimLink Nix.DimLink.Lemmas

/-! ## alias: every path to a node reads that node, a write through one path shows through all -/

/-- two access paths that resolve to the same node read the same attributes, the same children
and the same stored data, in every state -/
theorem alias_read (s : DState) (p q : Path) (lp lq : Loc)
    (_hp : resolve s.g rootLoc p = some lp) (_hq : resolve s.g rootLoc q = some lq) (h : lp.key = lq.key) :
    (∀ a, s.g.getAttr lp.key a = s.g.getAttr lq.key a) ∧ s.g.links lp.key = s.g.links lq.key ∧
      dataOf s lp.key = dataOf s lq.key := by
  rw [h]; exact ⟨fun _ => rfl, rfl, rfl⟩

/-- an attribute written through path `p` is read through every path `q` to the same node -/
theorem alias_write_visible (g g' : Graph) (p q : Path) (attr : String) (v : Option String) (lp lq : Loc)
    (hw : setAttrOp g p attr v = .ok g')
    (hp : resolve g rootLoc p = some lp) (hq : resolve g rootLoc q = some lq) (h : lq.key = lp.key) :
    resolve g' rootLoc q = some lq ∧ g'.getAttr lq.key attr = writtenValue attr v := by
  obtain ⟨o, ho, hnode, hg'⟩ := setAttrOp_ok hw
  rw [hp] at ho
  cases ho
  subst hg'
  refine ⟨by rw [resolve_setAttr]; exact hq, ?_⟩
  rw [h]
  exact getAttr_setAttr_self g attr _ hnode

/-- … and nothing else changes: every other attribute of every node, and every link -/
theorem alias_write_frame (g g' : Graph) (p : Path) (attr : String) (v : Option String) (lp : Loc)
    (hw : setAttrOp g p attr v = .ok g') (hp : resolve g rootLoc p = some lp) :
    (∀ k a, (k ≠ lp.key ∨ a ≠ attr) → g'.getAttr k a = g.getAttr k a) ∧ (∀ k, g'.links k = g.links k) := by
  obtain ⟨o, ho, _, hg'⟩ := setAttrOp_ok hw
  rw [hp] at ho
  cases ho
  subst hg'
  refine ⟨?_, fun k => links_setAttr g _ _ _ k⟩
  intro k a hne
  rw [getAttr_setAttr]
  have : ¬ (k = lp.key ∧ a = attr) := by
    rintro ⟨h1, h2⟩
    rcases hne with h | h
    · exact h h1
    · exact h h2
  simp [this]

/-- data written through path `q` is what every path to the same array reads -/
theorem alias_data_write_visible (s s' : DState) (q r : Path) (lq lr : Loc) (vals : List Rat)
    (hw : writeData s q vals = .ok s') (hq : resolve s.g rootLoc q = some lq)
    (hr : resolve s.g rootLoc r = some lr) (h : lr.key = lq.key) :
    resolve s'.g rootLoc r = some lr ∧ ∃ d, dataOf s lq.key = some d ∧
      dataOf s' lr.key = some { d with vals := vals } := by
  obtain ⟨a, ds, d, ha, hds, hd, hs'⟩ := writeData_ok hw
  obtain ⟨l, hl, hla, _⟩ := arrayAt_ok ha
  rw [hq] at hl
  cases hl
  subst hla
  subst hs'
  refine ⟨hr, d, by simp [dataOf, hds, hd], ?_⟩
  rw [h]
  simp [dataOf, hds, look_put_self]

/-- every path resolves after the write exactly as before -/
theorem alias_paths_stable (g g' : Graph) (p : Path) (attr : String) (v : Option String)
    (hw : setAttrOp g p attr v = .ok g') (q : Path) : resolve g' rootLoc q = resolve g rootLoc q := by
  obtain ⟨o, _, _, hg'⟩ := setAttrOp_ok hw
  subst hg'
  exact resolve_setAttr g _ _ _ _ q

/-- close + reopen: nixio keeps no state outside the file -/
theorem alias_reopen (g : Graph) : step g .reopen = g := rfl

/-! ## append links the target itself -/

/-- `append_effect`: after an accepted `append` of the entity at node `k` the list is the old
list without the entry named by its id, followed by the entry `(id, k)` — the target node
itself, never a fresh node.  (`c` as returned by `openCont`; the owner and, when present, the
list's group are nodes of the graph.) -/
theorem append_effect (g g' : Graph) (c : Cont) (k : Nat)
    (hc : c.node = g.child? c.owner.key c.cname) (ho : (g.node? c.owner.key).isSome)
    (hcn : ∀ cn, c.node = some cn → (g.node? cn).isSome ∧ cn ≠ c.owner.key)
    (hfresh : g.node? g.nextKey = none)
    (h : contAppend g c (.ent k) = .ok g') :
    ∃ id, g.entityId k = some id ∧
      cLinks g' (g'.child? c.owner.key c.cname) =
        (cLinks g c.node).filter (fun l => l.1 != id) ++ [(id, k)] :=
  contAppend_effect g g' c k hc ho hcn hfresh h

/-- the new entry is the target node under its id -/
theorem append_links_target_itself (g g' : Graph) (c : Cont) (k : Nat)
    (hc : c.node = g.child? c.owner.key c.cname) (ho : (g.node? c.owner.key).isSome)
    (hcn : ∀ cn, c.node = some cn → (g.node? cn).isSome ∧ cn ≠ c.owner.key)
    (hfresh : g.node? g.nextKey = none)
    (h : contAppend g c (.ent k) = .ok g') :
    ∃ id, g.entityId k = some id ∧ (id, k) ∈ cLinks g' (g'.child? c.owner.key c.cname) := by
  obtain ⟨id, h1, h2⟩ := append_effect g g' c k hc ho hcn hfresh h
  exact ⟨id, h1, by rw [h2]; simp⟩

/-! ## link lists and role links accept exactly the entities of the same block -/

/-- group member lists / tag references: `append(item)` succeeds iff the item has an id, the
kind the list holds, and the node stored under its name in the owning block's container is that
very node (`inBlockStore_iff`) -/
theorem accept_iff_same_block (g : Graph) (c : Cont) (k b : Nat)
    (hf : c.info.flavour = .link) (hb : c.block = some b) :
    (∃ g', contAppend g c (.ent k) = .ok g') ↔
      ((g.entityId k).isSome ∧ kindOf g k = c.info.item ∧ inBlockStore g b c.info.store k = true) := by
  unfold contAppend inBlockStore
  simp only [hf, hb]
  cases hid : g.entityId k with
  | none => simp
  | some id =>
    by_cases hk : kindOf g k = c.info.item
    · simp only [hk, bne_self_eq_false, Bool.false_eq_true, ↓reduceIte, Option.isSome_some, true_and]
      cases hn : g.getAttr k "name" with
      | none => simp
      | some nm =>
        cases hl : getByName g (g.child? b c.info.store) nm with
        | none => simp [hl]
        | some l =>
          by_cases he : l.2 = k
          · simp [hl, he]
          · have : (l.2 == k) = false := by simpa using he
            simp [hl, this]
    · have : (kindOf g k != c.info.item) = true := by simpa using hk
      simp [this, hk]

/-- source lists: `append(item)` succeeds iff the item's id occurs in the block's source tree **and** the item is
that very object of the tree (not merely a source with the same id, e.g. of an id-keeping copy of the block) -/
theorem accept_source_iff_in_tree (g : Graph) (c : Cont) (k b : Nat)
    (hf : c.info.flavour = .sourceLink) (hb : c.block = some b) :
    (∃ g', contAppend g c (.ent k) = .ok g') ↔
      ∃ id, g.entityId k = some id ∧ inSourceTree g b id = true ∧ inSourceTreeObj g b k = true := by
  unfold contAppend
  simp only [hf, hb]
  cases hid : g.entityId k with
  | none => simp
  | some id =>
    by_cases ht : inSourceTree g b id = true <;> by_cases ho : inSourceTreeObj g b k = true <;> simp [ht, ho]

/-- multi-tag `positions` / `extents`: the assignment succeeds iff the item is a DataArray and
the node stored under its name in the multi-tag's block is that very node -/
theorem accept_role_iff_same_block (g : Graph) (p : Path) (role : String) (t b : Nat) (o : Loc)
    (hrole : role = "positions" ∨ role = "extents")
    (ho : resolve g rootLoc p = some o) (hk : kindOf g o.key = "multi_tag") (hb : blockOfPath g p = some b) :
    (∃ g', setRole g p role (some t) = .ok g') ↔
      (kindOf g t = "data_array" ∧ inBlockStore g b "data_arrays" t = true) := by
  rcases hrole with rfl | rfl <;>
  · unfold setRole
    simp only [ho, hk, hb, isKind]
    by_cases h1 : kindOf g t = "data_array"
    · by_cases h2 : inBlockStore g b "data_arrays" t = true <;> simp [h1, h2]
    · simp [h1]

/-- an accepted `positions` / `extents` assignment links the target node itself: the role link of
the multi-tag leads to the very node `t` -/
theorem role_links_target_itself (g g' : Graph) (p : Path) (role : String) (t b : Nat) (o : Loc)
    (hrole : role = "positions" ∨ role = "extents")
    (ho : resolve g rootLoc p = some o) (hk : kindOf g o.key = "multi_tag") (hb : blockOfPath g p = some b)
    (h : setRole g p role (some t) = .ok g') : g'.child? o.key role = some t := by
  have hnode : (g.node? o.key).isSome := kindOf_ne_empty_node (by rw [hk]; decide)
  rcases hrole with rfl | rfl <;>
  · unfold setRole at h
    simp only [ho, hk, hb, isKind] at h
    by_cases h1 : kindOf g t = "data_array"
    · by_cases h2 : inBlockStore g b "data_arrays" t = true
      · simp [h1, h2] at h
        subst h
        exact child?_createLinkIn_self g _ t hnode
      · simp [h1, h2] at h
    · simp [h1] at h

/-- feature data: the assignment succeeds iff the item is a DataArray / DataFrame stored under
its name in the feature's block as that very node (a DataFrame only for untagged/indexed links) -/
theorem accept_feature_data_iff_same_block (g : Graph) (p : Path) (t b : Nat) (o : Loc)
    (ho : resolve g rootLoc p = some o) (hk : kindOf g o.key = "feature") (hb : blockOfPath g p = some b) :
    (∃ g', setRole g p "data" (some t) = .ok g') ↔
      ((kindOf g t = "data_array" ∧ inBlockStore g b "data_arrays" t = true) ∨
       (kindOf g t = "data_frame" ∧ inBlockStore g b "data_frames" t = true ∧
          g.getAttr o.key "link_type" ≠ some "tagged")) := by
  unfold setRole
  simp only [ho, hk, hb, isKind]
  by_cases h1 : kindOf g t = "data_array"
  · by_cases h2 : inBlockStore g b "data_arrays" t = true <;> simp [h1, h2]
  · by_cases h3 : kindOf g t = "data_frame"
    · by_cases h4 : inBlockStore g b "data_frames" t = true
      · by_cases h5 : g.getAttr o.key "link_type" = some "tagged" <;> simp [h3, h4, h5]
      · simp [h3, h4]
    · simp [h1, h3]

/-- an accepted `feature.data = x` links the target node itself and records its class: the feature's `data` link leads
to the very node `t`, and `target_type` says DataArray / DataFrame according to what `t` is (so `Feature.data` hands
out the entity itself, seen as what it is) -/
theorem feature_data_links_target_itself (g g' : Graph) (p : Path) (t b : Nat) (o : Loc)
    (ho : resolve g rootLoc p = some o) (hk : kindOf g o.key = "feature") (hb : blockOfPath g p = some b)
    (h : setRole g p "data" (some t) = .ok g') :
    g'.child? o.key "data" = some t ∧
      g'.getAttr o.key "target_type" =
        some (if kindOf g t = "data_array" then "DataArray" else "DataFrame") := by
  have hnode : (g.node? o.key).isSome := kindOf_ne_empty_node (by rw [hk]; decide)
  unfold setRole at h
  simp only [ho, hk, hb, isKind] at h
  by_cases h1 : kindOf g t = "data_array"
  · by_cases h2 : inBlockStore g b "data_arrays" t = true
    · simp [h1, h2] at h
      subst h
      refine ⟨child?_createLinkIn_self _ _ t (by rw [node?_isSome_setAttr]; exact hnode), ?_⟩
      rw [getAttr_createLinkIn', getAttr_setAttr]
      simp [h1, hnode]
    · simp [h1, h2] at h
  · by_cases h3 : kindOf g t = "data_frame"
    · by_cases h4 : inBlockStore g b "data_frames" t = true
      · by_cases h5 : g.getAttr o.key "link_type" = some "tagged"
        · simp [h1, h3, h4, h5] at h
        · simp [h1, h3, h4, h5] at h
          subst h
          refine ⟨child?_createLinkIn_self _ _ t (by rw [node?_isSome_setAttr]; exact hnode), ?_⟩
          rw [getAttr_createLinkIn', getAttr_setAttr]
          simp [h1, hnode]
      · simp [h1, h3, h4] at h
    · simp [h1, h3] at h

/-- an accepted `x.metadata = section` links the section node itself (whatever id it carries): the owner's `metadata`
link leads to the very node `t`, and only sections are accepted -/
theorem metadata_links_target_itself (g g' : Graph) (p : Path) (t : Nat) (o : Loc)
    (ho : resolve g rootLoc p = some o) (h : setRole g p "metadata" (some t) = .ok g') :
    g'.child? o.key "metadata" = some t ∧ kindOf g t = "section" := by
  unfold setRole at h
  simp only [ho] at h
  split at h
  · cases h
  · rename_i hkind
    split at h
    · cases h
    · rename_i hsec
      have hnode : (g.node? o.key).isSome := by
        apply kindOf_ne_empty_node
        intro e
        apply hkind
        simp [e]
      cases h
      exact ⟨child?_createLinkIn_self g _ t hnode, by simpa [isKind] using hsec⟩

/-- a refused call (or one that cannot even be formed) leaves the graph exactly as it was -/
theorem refused_unchanged (g : Graph) (op : Op)
    (h : (∃ e, apply g op = some (.error e)) ∨ apply g op = none) : step g op = g := by
  unfold step
  rcases h with ⟨e, h⟩ | h <;> simp [h]

/-! ## dimension links -/

/-- what `data[tuple(index)]` with the `-1` replaced by a full slice yields: as many values as
the sliced axis is long, the `j`-th being the stored value at the row-major offset of the fixed
indices with `j` at the slice position -/
theorem select_vector_spec (d : NdData) (iv : List Int) (vs : List Rat) (h : selectVector d iv = .ok vs) :
    ∃ p n fx, slicePos iv = some p ∧ iv.length = d.shape.length ∧ d.shape[p]? = some n ∧
      fixedIdx d.shape iv p = some fx ∧ vs.length = n ∧
      ∀ j (hj : j < vs.length), (flatIndex d.shape (fx.set p j)).bind (fun off => d.vals[off]?) = some vs[j] :=
  selectVector_ok h

/-- a link is accepted only for an index vector with exactly one `-1`, no other negative entry,
and as many entries as the linked array has axes -/
theorem link_index_checked (s s' : DState) (p : Path) (i t dn : Nat) (iv : List Int)
    (hl : linkDataArray s p i t iv = .ok s') (hdn : dimAt s p i = .ok dn)
    (hk : kindOf s.g dn = kDimRange ∨ kindOf s.g dn = kDimSet) (hfresh : s.g.node? s.g.nextKey = none) :
    (iv.filter (· == -1)).length = 1 ∧ (iv.filter (· < 0)).length = 1 ∧
      ∃ d, dataOf s t = some d ∧ d.shape.length = iv.length := by
  obtain ⟨_, hci, ⟨d, hd, hr, _⟩, _, _⟩ := linkDataArray_linked hl hdn hk hfresh
  unfold checkIndex at hci
  simp only [Bool.and_eq_true, beq_iff_eq] at hci
  exact ⟨hci.1, hci.2, d, hd, hr⟩

/-- right after `link_data_array` the ticks of the range dimension are the selected vector of
the linked array's stored data -/
theorem linked_ticks_current_data (s s' : DState) (p : Path) (i t dn : Nat) (iv : List Int)
    (hl : linkDataArray s p i t iv = .ok s') (hdn : dimAt s p i = .ok dn)
    (hk : kindOf s.g dn = kDimRange) (hfresh : s.g.node? s.g.nextKey = none) :
    ∃ d, dataOf s' t = some d ∧ readTicks s' dn = selectVector d iv := by
  obtain ⟨hlinked, _, ⟨d, _, _, hd'⟩, _, _⟩ := linkDataArray_linked hl hdn (Or.inl hk) hfresh
  exact ⟨d, hd', readTicks_linked hlinked hd'⟩

/-- … and they follow every later write of the array's data, through whichever path `q` the
array is reached: the ticks are the selected vector of the CURRENT data -/
theorem linked_ticks_follow_writes (s s' : DState) (dn t : Nat) (iv : List Int) (q : Path) (lq : Loc)
    (vals : List Rat) (hl : Linked s dn t iv) (hq : resolve s.g rootLoc q = some lq) (ht : lq.key = t)
    (hw : writeData s q vals = .ok s') :
    ∃ d, dataOf s t = some d ∧ dataOf s' t = some { d with vals := vals } ∧
      readTicks s' dn = selectVector { d with vals := vals } iv ∧
      readLabels s' dn = (selectVector { d with vals := vals } iv).map Labels.nums := by
  obtain ⟨a, ds, d, ha, hds, hd, hs'⟩ := writeData_ok hw
  obtain ⟨l, hr, hla, _⟩ := arrayAt_ok ha
  rw [hq] at hr
  cases hr
  rw [ht] at hla
  subst hla
  have hd0 : dataOf s t = some d := by simp [dataOf, hds, hd]
  have hd1 : dataOf s' t = some { d with vals := vals } := by
    subst hs'
    simp [dataOf, hds, look_put_self]
  have hl' : Linked s' dn t iv := by
    subst hs'
    exact hl
  exact ⟨d, hd0, hd1, readTicks_linked hl' hd1, readLabels_linked hl' hd1⟩

/-- a linked set dimension reports the selected vector as its labels -/
theorem linked_labels_current_data (s s' : DState) (p : Path) (i t dn : Nat) (iv : List Int)
    (hl : linkDataArray s p i t iv = .ok s') (hdn : dimAt s p i = .ok dn)
    (hk : kindOf s.g dn = kDimSet) (hfresh : s.g.node? s.g.nextKey = none) :
    ∃ d, dataOf s' t = some d ∧ readLabels s' dn = (selectVector d iv).map Labels.nums := by
  obtain ⟨hlinked, _, ⟨d, _, _, hd'⟩, _, _⟩ := linkDataArray_linked hl hdn (Or.inr hk) hfresh
  exact ⟨d, hd', readLabels_linked hlinked hd'⟩

/-- unit and label of a linked range dimension are the linked array's -/
theorem linked_unit_label (s s' : DState) (p : Path) (i t dn : Nat) (iv : List Int)
    (hl : linkDataArray s p i t iv = .ok s') (hdn : dimAt s p i = .ok dn)
    (hk : kindOf s.g dn = kDimRange) (hfresh : s.g.node? s.g.nextKey = none) :
    readDimAttr s' dn "unit" = .ok (s'.g.getAttr t "unit") ∧
      readDimAttr s' dn "label" = .ok (s'.g.getAttr t "label") := by
  obtain ⟨hlinked, _, _, _, hkind, _⟩ := linkDataArray_linked hl hdn (Or.inl hk) hfresh
  rw [hk] at hkind
  exact ⟨readDimAttr_linked hlinked hkind _, readDimAttr_linked hlinked hkind _⟩

/-- … also after the array's unit / label is rewritten through any path to the array -/
theorem linked_unit_label_follow_writes (s : DState) (g' : Graph) (dn t : Nat) (iv : List Int) (q : Path)
    (lq : Loc) (attr : String) (v : Option String) (hattr : attr = "unit" ∨ attr = "label")
    (hl : Linked s dn t iv) (hk : kindOf s.g dn = kDimRange)
    (hq : resolve s.g rootLoc q = some lq) (ht : lq.key = t) (hw : setAttrOp s.g q attr v = .ok g') :
    readDimAttr { s with g := g' } dn attr = .ok (writtenValue attr v) := by
  obtain ⟨o, ho, hnode, hg'⟩ := setAttrOp_ok hw
  rw [hq] at ho
  cases ho
  subst hg'
  subst ht
  have hl' : Linked { s with g := s.g.setAttr lq.key attr (writtenValue attr v) } dn lq.key iv := by
    obtain ⟨ln, nm, h1, h2, h3, h4⟩ := hl
    refine ⟨ln, nm, by simp only [child?_setAttr]; exact h1, by simp only [links_setAttr]; exact h2, h3, ?_⟩
    show (s.g.setAttr lq.key attr (writtenValue attr v)).getAttr ln "data_object_type" = _
    rw [getAttr_setAttr_attr_ne _ _ _ _ (by rcases hattr with e | e <;> rw [e] <;> decide)]
    exact h4
  have hk' : kindOf (s.g.setAttr lq.key attr (writtenValue attr v)) dn = kDimRange := by
    unfold kindOf at hk ⊢
    rw [getAttr_setAttr_attr_ne _ _ _ _ (by rcases hattr with e | e <;> rw [e] <;> decide)]
    exact hk
  rw [readDimAttr_linked hl' hk']
  simp only
  rw [getAttr_setAttr_self _ _ _ hnode]

/-- `link_data_array` on a range dimension replaces the explicit ticks -/
theorem link_replaces_ticks (s s' : DState) (p : Path) (i t dn : Nat) (iv : List Int)
    (hl : linkDataArray s p i t iv = .ok s') (hdn : dimAt s p i = .ok dn)
    (hk : kindOf s.g dn = kDimRange) (hfresh : s.g.node? s.g.nextKey = none) :
    hasLink s'.g dn = true ∧ s'.g.hasChild dn "ticks" = false ∧ isAlias s' dn = true := by
  obtain ⟨hlinked, _, _, hnt, _⟩ := linkDataArray_linked hl hdn (Or.inl hk) hfresh
  have h1 := hasLink_of_linked hlinked
  have h2 := hnt hk
  exact ⟨h1, h2, by simp [isAlias, h1, h2, linkType_of_linkedAs hlinked]⟩

/-- `dim.ticks = ts` replaces the link: afterwards the dimension has no link and reports `ts` -/
theorem ticks_replace_link (s s' : DState) (p : Path) (i dn : Nat) (ts : List Rat)
    (h : setTicks s p i ts = .ok s') (hdn : dimAt s p i = .ok dn) :
    hasLink s'.g dn = false ∧ readTicks s' dn = .ok ts ∧ descending ts = false := by
  obtain ⟨_, h2, h3, _, h5, _⟩ := setTicks_spec h hdn
  exact ⟨h3, h5, h2⟩

/-- the ticks setter looks at nothing but the descriptor's kind and the new ticks themselves: whatever the dimension
reports at the moment — stored ticks, or the values of a link, also when these are exactly `ts` — the assignment is
accepted and has its full effect (`ticks_replace_link`); there is no "unchanged value" shortcut -/
theorem set_ticks_accepted_iff (s : DState) (p : Path) (i dn : Nat) (ts : List Rat) (hdn : dimAt s p i = .ok dn) :
    (∃ s', setTicks s p i ts = .ok s') ↔
      (kindOf s.g dn = kDimRange ∧ descending ts = false ∧ ts.isEmpty = false) := by
  unfold setTicks
  simp only [hdn]
  by_cases hk : kindOf s.g dn = kDimRange
  · cases hd : descending ts <;> cases he : ts.isEmpty <;> simp [hk, hd, he]
  · have : (kindOf s.g dn != kDimRange) = true := by simpa using hk
    simp [this, hk]

/-- "freezing" the ticks: a linked range dimension is assigned exactly the values it reports at that moment.  The
link is replaced all the same (`has_link`, `is_alias` False, the ticks are the dimension's own), and from then on
writes to any array — the formerly linked one included — do not show in the dimension any more -/
theorem freeze_ticks (s s' : DState) (p : Path) (i dn : Nat) (ts : List Rat)
    (hdn : dimAt s p i = .ok dn) (_hl : hasLink s.g dn = true) (_hcur : readTicks s dn = .ok ts)
    (h : setTicks s p i ts = .ok s') :
    hasLink s'.g dn = false ∧ isAlias s' dn = false ∧ readTicks s' dn = .ok ts ∧
    ∀ q vals s'', writeData s' q vals = .ok s'' →
      hasLink s''.g dn = false ∧ readTicks s'' dn = .ok ts := by
  obtain ⟨_, _, h3, h4, h5, _⟩ := setTicks_spec h hdn
  refine ⟨h3, by simp [isAlias, h4], h5, ?_⟩
  intro q vals s'' hw
  unfold writeData at hw
  cases ha : arrayAt s' q with
  | error e => simp [ha] at hw
  | ok a =>
    simp only [ha] at hw
    cases hc : s'.g.child? a "data" with
    | none => simp [hc] at hw
    | some ds =>
      simp only [hc] at hw
      cases hlk : look s'.data ds with
      | none => simp [hlk] at hw
      | some d =>
        simp only [hlk] at hw
        split at hw
        · cases hw
        · cases hw
          refine ⟨h3, ?_⟩
          have : readTicks { s' with data := put s'.data ds { d with vals := vals } } dn = readTicks s' dn := by
            unfold readTicks
            simp [h3]
          rw [this]; exact h5

/-- explicit ticks and a link exclude each other after either replacing operation -/
theorem ticks_link_exclusive (s s' : DState) (p : Path) (i dn : Nat) (hdn : dimAt s p i = .ok dn)
    (hk : kindOf s.g dn = kDimRange) (hfresh : s.g.node? s.g.nextKey = none)
    (h : (∃ t iv, linkDataArray s p i t iv = .ok s') ∨ (∃ ts, setTicks s p i ts = .ok s')) :
    ¬ (s'.g.hasChild dn "ticks" = true ∧ hasLink s'.g dn = true) := by
  rintro ⟨h1, h2⟩
  rcases h with ⟨t, iv, hl⟩ | ⟨ts, ht⟩
  · have := (link_replaces_ticks s s' p i t dn iv hl hdn hk hfresh).2.1
    rw [this] at h1; cases h1
  · have := (ticks_replace_link s s' p i dn ts ht hdn).1
    rw [this] at h2; cases h2

/-- the invariant "no range dimension anywhere in the file carries both explicit ticks and a
link" is kept by every operation on existing descriptors — ticks, link, unlink, labels, unit /
label, array data — for ALL descriptors of the file, not only the one operated on -/
theorem ticks_link_exclusive_invariant (s s' : DState) (hex : Excl s) (hfresh : s.g.node? s.g.nextKey = none)
    (h : (∃ p i ts, setTicks s p i ts = .ok s') ∨
         (∃ p i t iv, linkDataArray s p i t iv = .ok s' ∧ ∀ dn, dimAt s p i = .ok dn →
            kindOf s.g dn = kDimRange ∨ kindOf s.g dn = kDimSet ∨ kindOf s.g dn = kDimSample) ∨
         (∃ p i, removeLink s p i = .ok s') ∨ (∃ q vals, writeData s q vals = .ok s') ∨
         (∃ p i ls, setLabels s p i ls = .ok s') ∨ (∃ p i a v, setDimAttr s p i a v = .ok s') ∨
         (∃ p i t c, linkDataFrame s p i t c = .ok s' ∧ ∀ dn, dimAt s p i = .ok dn →
            kindOf s.g dn = kDimRange ∨ kindOf s.g dn = kDimSet ∨ kindOf s.g dn = kDimSample) ∨
         (∃ q c vals, writeColumn s q c vals = .ok s') ∨ (∃ q units, setUnits s q units = .ok s')) : Excl s' := by
  rcases h with ⟨p, i, ts, h⟩ | ⟨p, i, t, iv, h, hk⟩ | ⟨p, i, h⟩ | ⟨q, vals, h⟩ | ⟨p, i, ls, h⟩ | ⟨p, i, a, v, h⟩ |
    ⟨p, i, t, c, h, hk⟩ | ⟨q, c, vals, h⟩ | ⟨q, units, h⟩
  · exact excl_setTicks hex h
  · exact excl_linkDataArray hex hfresh hk h
  · exact excl_removeLink hex h
  · exact excl_writeData hex h
  · exact excl_setLabels hex h
  · exact excl_setDimAttr hex h
  · exact excl_linkDataFrame hex hfresh hk h
  · exact excl_writeColumn hex h
  · exact excl_setUnits hex h

/-- it holds in the empty file -/
theorem ticks_link_exclusive_init : Excl initD := by
  intro dn hk
  exfalso
  have h0 : ∀ a, initD.g.getAttr dn a = none := by
    intro a
    unfold Graph.getAttr Graph.node?
    by_cases h : dn = 0
    · subst h; rfl
    · have : ((0 : Nat) == dn) = false := by simpa using fun e => h e.symm
      simp [initD, List.find?, this]
  unfold kindOf at hk
  rw [h0] at hk
  revert hk
  decide

/-! ## dimension links to a column of a data frame (`link_data_frame`) -/

/-- a link to a frame is accepted only for a column the frame has -/
theorem frame_link_index_checked (s s' : DState) (p : Path) (i t dn : Nat) (c : Int)
    (hl : linkDataFrame s p i t c = .ok s') (hdn : dimAt s p i = .ok dn)
    (hk : kindOf s.g dn = kDimRange ∨ kindOf s.g dn = kDimSet) (hfresh : s.g.node? s.g.nextKey = none) :
    ∃ fd, frameOf s t = some fd ∧ 0 ≤ c ∧ c.toNat < fd.cols.length := by
  obtain ⟨_, ⟨fd, h1, h2, h3, _⟩, _⟩ := linkDataFrame_linked hl hdn hk hfresh
  exact ⟨fd, h1, h2, h3⟩

/-- right after `link_data_frame(frame, c)` the ticks of a range dimension are column `c` of the
frame's stored rows, the labels of a set dimension likewise -/
theorem linked_frame_values_current_data (s s' : DState) (p : Path) (i t dn : Nat) (c : Int)
    (hl : linkDataFrame s p i t c = .ok s') (hdn : dimAt s p i = .ok dn)
    (hk : kindOf s.g dn = kDimRange ∨ kindOf s.g dn = kDimSet) (hfresh : s.g.node? s.g.nextKey = none) :
    ∃ fd, frameOf s' t = some fd ∧ readTicks s' dn = column fd c.toNat ∧
      readLabels s' dn = (column fd c.toNat).map Labels.nums := by
  obtain ⟨hlinked, ⟨fd, _, hc0, _, hf'⟩, _⟩ := linkDataFrame_linked hl hdn hk hfresh
  have hcc : ((c.toNat : Nat) : Int) = c := Int.toNat_of_nonneg hc0
  rw [← hcc] at hlinked
  exact ⟨fd, hf', readTicks_frame hlinked hf', readLabels_frame hlinked hf'⟩

/-- … and they follow every later `write_column` of the frame, through whichever path `q` the frame
is reached: the dimension reports column `c` of the CURRENT rows; when the written column is the linked
one (and every row has that cell) these are exactly the values written -/
theorem linked_frame_values_follow_writes (s s' : DState) (dn t c c' : Nat) (q : Path) (lq : Loc)
    (vals : List Rat) (hl : LinkedAs s dn t "DataFrame" [(c : Int)]) (hq : resolve s.g rootLoc q = some lq)
    (ht : lq.key = t) (hw : writeColumn s q c' vals = .ok s') :
    ∃ fd, frameOf s t = some fd ∧ frameOf s' t = some (setColumn fd c' vals) ∧
      readTicks s' dn = column (setColumn fd c' vals) c ∧
      readLabels s' dn = (column (setColumn fd c' vals) c).map Labels.nums ∧
      (c' = c → (∀ r ∈ fd.rows, c < r.length) → readTicks s' dn = .ok vals) := by
  obtain ⟨f, ds, fd, hf, hds, hd, hlen, _, hs'⟩ := writeColumn_ok hw
  obtain ⟨l, hr, hlf, _⟩ := frameAt_ok hf
  rw [hq] at hr
  cases hr
  rw [ht] at hlf
  subst hlf
  have hf0 : frameOf s t = some fd := by simp [frameOf, hds, hd]
  have hf1 : frameOf s' t = some (setColumn fd c' vals) := by
    subst hs'
    simp [frameOf, hds, look_put_self]
  have hl' : LinkedAs s' dn t "DataFrame" [(c : Int)] := by
    subst hs'
    exact hl
  refine ⟨fd, hf0, hf1, readTicks_frame hl' hf1, readLabels_frame hl' hf1, ?_⟩
  intro hcc hrows
  rw [readTicks_frame hl' hf1, hcc]
  exact column_setColumn fd c vals hlen hrows

/-- unit and label of a range dimension linked to a frame column are the frame's: the label is the column's
name; the unit is what `DataFrame.units` (`frameUnits`) shows for that column — None when the frame has no
units at all (the read used to raise TypeError there: repaired in nixio), the column's entry otherwise, an
entry kept as empty text reading None on both sides -/
theorem linked_frame_unit_label (s s' : DState) (p : Path) (i t dn : Nat) (c : Int)
    (hl : linkDataFrame s p i t c = .ok s') (hdn : dimAt s p i = .ok dn)
    (hk : kindOf s.g dn = kDimRange) (hfresh : s.g.node? s.g.nextKey = none) :
    ∃ fd n, frameOf s' t = some fd ∧ fd.cols[c.toNat]? = some n ∧
      readDimAttr s' dn "label" = .ok (some n) ∧
      (frameUnits fd = none → readDimAttr s' dn "unit" = .ok none) ∧
      (∀ us u, frameUnits fd = some us → us[c.toNat]? = some u → readDimAttr s' dn "unit" = .ok u) := by
  obtain ⟨hlinked, ⟨fd, _, hc0, hclt, hf'⟩, _, hkind, _⟩ := linkDataFrame_linked hl hdn (Or.inl hk) hfresh
  have hcc : ((c.toNat : Nat) : Int) = c := Int.toNat_of_nonneg hc0
  rw [← hcc] at hlinked
  rw [hk] at hkind
  have hn : fd.cols[c.toNat]? = some fd.cols[c.toNat] := List.getElem?_eq_getElem hclt
  obtain ⟨hu, hlab⟩ := readDimAttr_frame hlinked hkind hf' hn
  refine ⟨fd, _, hf', hn, hlab, ?_, ?_⟩
  · intro h0; rw [hu]; exact linkFrameUnit_no_units h0 _
  · intro us u h1 h2; rw [hu]; exact linkFrameUnit_of_units h1 h2

/-- … the read is never refused for a frame whose `units`, when present, has one entry per column -/
theorem linked_frame_unit_never_refused (s : DState) (dn t c : Nat) (fd : FrameData)
    (hl : LinkedAs s dn t "DataFrame" [(c : Int)]) (hk : kindOf s.g dn = kDimRange)
    (hf : frameOf s t = some fd) (hwf : FrameWF fd) (hc : c < fd.cols.length) :
    ∃ u, readDimAttr s dn "unit" = .ok u := by
  have hn : fd.cols[c]? = some fd.cols[c] := List.getElem?_eq_getElem hc
  rw [(readDimAttr_frame hl hk hf hn).1]
  exact linkFrameUnit_total hwf hc

/-- `dim.unit = v` through a range dimension linked to column `c` of a frame — `v` a text, the empty text or
None, the frame with or without units (both None and a frame without units used to raise TypeError: repaired
in nixio) — is accepted and is a write to the FRAME: afterwards the dimension and `DataFrame.units` both show
`v` for that column (None for None / ""), every other column reads as before (None where the frame had no
units), columns, rows and the link are untouched -/
theorem linked_frame_unit_write_visible (s : DState) (p : Path) (i dn t c : Nat) (fd : FrameData)
    (v : Option String) (hdn : dimAt s p i = .ok dn)
    (hl : LinkedAs s dn t "DataFrame" [(c : Int)]) (hk : kindOf s.g dn = kDimRange)
    (hf : frameOf s t = some fd) (hwf : FrameWF fd) (hc : c < fd.cols.length) :
    ∃ s' fd', setDimAttr s p i "unit" v = .ok s' ∧ frameOf s' t = some fd' ∧
      LinkedAs s' dn t "DataFrame" [(c : Int)] ∧ FrameWF fd' ∧ fd'.cols = fd.cols ∧ fd'.rows = fd.rows ∧
      readDimAttr s' dn "unit" = .ok (normUnit v) ∧
      frameUnits fd' = some ((match frameUnits fd with
        | some us => us
        | none => List.replicate fd.cols.length none).set c (normUnit v)) := by
  obtain ⟨fd', hset, hcols, hrows, hwf', hread, hunits⟩ := setFrameUnit_spec hwf hc v
  have hlk := hasLink_of_linkedAs hl
  have hty := linkType_of_linkedAs hl
  have hcol := linkColumn_of_linkedAs hl
  obtain ⟨ds, hds, hlook⟩ : ∃ ds, s.g.child? t "data" = some ds ∧ look s.frames ds = some fd := by
    unfold frameOf at hf
    cases hds : s.g.child? t "data" with
    | none => simp [hds] at hf
    | some ds => exact ⟨ds, rfl, by simpa [hds] using hf⟩
  have htgt : linkTarget s.g dn = some t := by
    obtain ⟨ln, nm, h1, h2, _, _⟩ := hl
    simp [linkTarget, h1, h2]
  let s' : DState := { s with frames := put s.frames ds fd' }
  have hstep : setDimAttr s p i "unit" v = .ok s' := by
    have hne : ¬ kDimRange = kDimSet := by decide
    simp [setDimAttr, hdn, hk, hne, hlk, htgt, hty, hds, hlook, hcol, hset, s']
  have hf' : frameOf s' t = some fd' := by simp [frameOf, s', hds, look_put_self]
  have hl' : LinkedAs s' dn t "DataFrame" [(c : Int)] := hl
  have hc' : c < fd'.cols.length := by rw [hcols]; exact hc
  have hn : fd'.cols[c]? = some fd'.cols[c] := List.getElem?_eq_getElem hc'
  refine ⟨s', fd', hstep, hf', hl', hwf', hcols, hrows, ?_, hunits⟩
  rw [(readDimAttr_frame hl' hk hf' hn).1]
  exact hread

/-- … and a unit assigned to the frame itself (`frame.units = units`, through whichever path `q` the frame is
reached) is what the dimension linked to column `c` reports from then on -/
theorem linked_frame_unit_follows_frame_writes (s s' : DState) (dn t c : Nat) (q : Path) (lq : Loc)
    (units : List (Option String)) (u : Option String)
    (hl : LinkedAs s dn t "DataFrame" [(c : Int)]) (hk : kindOf s.g dn = kDimRange)
    (hq : resolve s.g rootLoc q = some lq) (ht : lq.key = t) (hw : setUnits s q units = .ok s')
    (hu : units[c]? = some u) :
    ∃ fd', frameOf s' t = some fd' ∧ frameUnits fd' = some (units.map normUnit) ∧
      readDimAttr s' dn "unit" = .ok (normUnit u) := by
  obtain ⟨f, ds, fd, hf, hds, hd, hlen, hs'⟩ := setUnits_ok hw
  obtain ⟨l, hr, hlf, _⟩ := frameAt_ok hf
  rw [hq] at hr
  cases hr
  rw [ht] at hlf
  subst hlf
  have hf1 : frameOf s' t = some { fd with units := some (storeUnits units) } := by
    subst hs'
    simp [frameOf, hds, look_put_self]
  have hl' : LinkedAs s' dn t "DataFrame" [(c : Int)] := by
    subst hs'
    exact hl
  have hk' : kindOf s'.g dn = kDimRange := by
    subst hs'
    exact hk
  have hclt : c < fd.cols.length := by
    have := (List.getElem?_eq_some_iff.mp hu).1
    omega
  have hn : ({ fd with units := some (storeUnits units) } : FrameData).cols[c]? = some fd.cols[c] :=
    List.getElem?_eq_getElem hclt
  refine ⟨_, hf1, frameUnits_storeUnits fd units, ?_⟩
  rw [(readDimAttr_frame hl' hk' hf1 hn).1]
  exact linkFrameUnit_of_units (frameUnits_storeUnits fd units) (by simp [hu])

/-- `link_data_frame` on a range dimension replaces the explicit ticks (and the dimension is not an
"alias": that name is kept for links to a DataArray) -/
theorem frame_link_replaces_ticks (s s' : DState) (p : Path) (i t dn : Nat) (c : Int)
    (hl : linkDataFrame s p i t c = .ok s') (hdn : dimAt s p i = .ok dn)
    (hk : kindOf s.g dn = kDimRange) (hfresh : s.g.node? s.g.nextKey = none) :
    hasLink s'.g dn = true ∧ s'.g.hasChild dn "ticks" = false ∧ isAlias s' dn = false := by
  obtain ⟨hlinked, _, hnt, _⟩ := linkDataFrame_linked hl hdn (Or.inl hk) hfresh
  have h1 := hasLink_of_linkedAs hlinked
  have h2 := hnt hk
  exact ⟨h1, h2, by simp [isAlias, h1, h2, linkType_of_linkedAs hlinked]⟩

/-- a link — to an array or to a frame column — REPLACES whatever link was there: afterwards the
descriptor leads to the node that was handed in, whatever it was linked to before and whatever id
that node carries (ids play no part: an id-keeping copy of the previous target is a different node) -/
theorem relink_leads_to_new_target (s s' : DState) (p : Path) (i t dn : Nat)
    (hdn : dimAt s p i = .ok dn) (hk : kindOf s.g dn = kDimRange ∨ kindOf s.g dn = kDimSet)
    (hfresh : s.g.node? s.g.nextKey = none)
    (h : (∃ iv, linkDataArray s p i t iv = .ok s') ∨ (∃ c, linkDataFrame s p i t c = .ok s')) :
    linkTarget s'.g dn = some t := by
  have key : ∀ ty iv, LinkedAs s' dn t ty iv → linkTarget s'.g dn = some t := by
    rintro ty iv ⟨ln, nm, h1, h2, _, _⟩
    simp [linkTarget, h1, h2]
  rcases h with ⟨iv, h⟩ | ⟨c, h⟩
  · exact key _ _ (linkDataArray_linked h hdn hk hfresh).1
  · exact key _ _ (linkDataFrame_linked h hdn hk hfresh).1

/-! ## the tie to the source: the statement lists generated from `nixio/dimensions.py`, `container.py`,
`source_link_container.py`, `multi_tag.py`, `feature.py` (`Generated/LinkShape.lean`) -/

/-- in every link method all checks stand before the first write: a refused `link_data_array`,
`link_data_frame`, `remove_link` or `ticks = …` has written nothing (the `RangeDimension` wrappers with
the base-class body in the place of their `super()` call) -/
theorem shape_checks_before_writes :
    checksFirst Gen.linkDataArrayBody = true ∧ checksFirst Gen.linkDataFrameBody = true ∧
    checksFirst (inlineSuper Gen.linkDataArrayBody Gen.rangeLinkDataArrayBody) = true ∧
    checksFirst (inlineSuper Gen.linkDataFrameBody Gen.rangeLinkDataFrameBody) = true ∧
    checksFirst Gen.removeLinkBody = true ∧ checksFirst Gen.ticksSetterBody = true := by decide

/-- both link methods test the file of the object they are given (HDF5 has no hard links between files) among the
checks that stand before their first write: an object of another file is refused with the descriptor untouched -/
theorem shape_link_tests_file_first :
    LStmt.checkSameFile ∈ Gen.linkDataArrayBody.takeWhile (fun st => !st.isWrite) ∧
    LStmt.checkSameFile ∈ Gen.linkDataFrameBody.takeWhile (fun st => !st.isWrite) := by decide

/-- the writes of the generated `link_data_array` (for a range dimension: of the `RangeDimension`
wrapper around it) are the model's `attachLink`: old link removed, link group created with the type
"DataArray", then — range only — the ticks dropped -/
theorem shape_link_data_array_writes (s : DState) (dn t : Nat) (tid : String) (iv : List Int) :
    runWrites { dn := dn, target := t, tid := tid, iv := iv }
      (if kindOf s.g dn == kDimRange then inlineSuper Gen.linkDataArrayBody Gen.rangeLinkDataArrayBody
       else Gen.linkDataArrayBody) s = attachLink s dn t tid "DataArray" iv := by
  unfold attachLink
  by_cases hk : (kindOf s.g dn == kDimRange) = true <;> by_cases hl : hasLink s.g dn = true <;>
    simp [hk, hl, runWrites, execWrite, inlineSuper, Gen.linkDataArrayBody, Gen.rangeLinkDataArrayBody]

/-- … and the writes of the generated `link_data_frame` likewise, with the type "DataFrame" -/
theorem shape_link_data_frame_writes (s : DState) (dn t : Nat) (tid : String) (iv : List Int) :
    runWrites { dn := dn, target := t, tid := tid, iv := iv }
      (if kindOf s.g dn == kDimRange then inlineSuper Gen.linkDataFrameBody Gen.rangeLinkDataFrameBody
       else Gen.linkDataFrameBody) s = attachLink s dn t tid "DataFrame" iv := by
  unfold attachLink
  by_cases hk : (kindOf s.g dn == kDimRange) = true <;> by_cases hl : hasLink s.g dn = true <;>
    simp [hk, hl, runWrites, execWrite, inlineSuper, Gen.linkDataFrameBody, Gen.rangeLinkDataFrameBody]

/-- an accepted `remove_link` / `ticks = ts` is the generated body's writes on the descriptor -/
theorem shape_remove_link_and_ticks (s s' : DState) (p : Path) (i : Nat) :
    (removeLink s p i = .ok s' → ∃ dn, dimAt s p i = .ok dn ∧
      s' = runWrites { dn := dn, target := 0, tid := "", iv := [] } Gen.removeLinkBody s) ∧
    (∀ ts, setTicks s p i ts = .ok s' → ∃ dn, dimAt s p i = .ok dn ∧
      s' = runWrites { dn := dn, target := 0, tid := "", iv := [], ts := ts } Gen.ticksSetterBody s) := by
  constructor
  · intro h
    unfold removeLink at h
    cases hdn : dimAt s p i with
    | error e => simp [hdn] at h
    | ok dn =>
      simp only [hdn] at h
      split at h
      · cases h
      · exact ⟨dn, rfl, by simpa [runWrites, execWrite, Gen.removeLinkBody] using (Except.ok.inj h).symm⟩
  · intro ts h
    unfold setTicks at h
    cases hdn : dimAt s p i with
    | error e => simp [hdn] at h
    | ok dn =>
      simp only [hdn] at h
      split at h
      · cases h
      · split at h
        · cases h
        · split at h
          · cases h
          · refine ⟨dn, rfl, ?_⟩
            have hs' := (Except.ok.inj h).symm
            by_cases hl : hasLink s.g dn = true <;>
              simpa [hl, runWrites, execWrite, Gen.ticksSetterBody] using hs'

/-- what is tested before a link is written is the ENTITY ITSELF (`item`, `da`, `dataobj` — never a
name or an id) for membership in the owning block's container; `append` links what `_accept`
returned under its id; `Container.__contains__` and `SourceLinkContainer._accept` compare HDF5
objects; a dimension link is a hard link to the data object itself, named by its id and found again
as the first entry of the link group; a sampled dimension refuses links -/
theorem shape_membership_by_object :
    Gen.membershipTests =
      [("LinkContainer._accept", "item", "self._itemstore"),
       ("MultiTag.positions", "da", "self._parent.data_arrays"),
       ("MultiTag.extents", "da", "self._parent.data_arrays"),
       ("Feature.data", "dataobj", "parblock.data_arrays"),
       ("Feature.data", "dataobj", "parblock.data_frames")] ∧
    Gen.appendBody = ["item = self._accept(item)", "self._backend.create_link(item, item.id)"] ∧
    Gen.containsComparisons = ["self._backend.group[item.name] == mine"] ∧
    Gen.sourceAcceptComparisons = ["src.id == item.id", "src._h5group.group == mine"] ∧
    Gen.linkNamedByTargetId = true ∧ Gen.linkedGroupIsFirstEntry = true ∧ Gen.sampledRefuses = true := by
  decide

/-- the DataFrame branch of the `DimensionLink.unit` getter, as it stands in `nixio/dimensions.py`, executed on
any frame content and column, is the model's `linkFrameUnit`: None for a frame without units, the entry with the
empty text read as None otherwise (an edit that drops the test for a missing `units` attribute, or reads the entry
raw, breaks this) -/
theorem shape_frame_unit_getter (fd : FrameData) (c : Nat) :
    runUnitGetter Gen.frameUnitGetterBody fd c = linkFrameUnit fd c := by
  unfold linkFrameUnit
  cases hu : fd.units with
  | none => simp [runUnitGetter, Gen.frameUnitGetterBody, execU, hu]
  | some us =>
    cases hc : us[c]? with
    | none => simp [runUnitGetter, Gen.frameUnitGetterBody, execU, hu, hc]
    | some u => simp [runUnitGetter, Gen.frameUnitGetterBody, execU, hu, hc]

/-- … and the DataFrame branch of the setter is the model's `setFrameUnit`: a frame without units gets one empty
entry per column first, None is written as the empty text, the list goes back into the `units` attribute -/
theorem shape_frame_unit_setter (fd : FrameData) (c : Nat) (v : Option String) :
    runUnitSetter Gen.frameUnitSetterBody fd c v = setFrameUnit fd c v := by
  unfold setFrameUnit
  cases hu : fd.units with
  | none =>
    by_cases hc : c < fd.cols.length <;>
      simp [runUnitSetter, Gen.frameUnitSetterBody, execU, hu, hc]
  | some us =>
    by_cases hc : c < us.length <;>
      simp [runUnitSetter, Gen.frameUnitSetterBody, execU, hu, hc]

/-! ## `_accept`, `append`, `extend` statement by statement; handles that stand for no member of a block -/

/-- the body of `LinkContainer._accept` as it stands in `nixio/container.py` (`Gen.acceptBody`), run on ANY graph,
list and key (an entity handle, an id text, anything else), followed by the link `append` writes, is the shared
model `contAppend`.  Every statement of the body is in the vocabulary `AStmt`: none of them lets an item through
before `item not in self._itemstore` was asked (a fast path keyed on the handle's Python parent, a cache of accepted
ids … break the translator or this theorem) -/
theorem shape_accept_link (g : Graph) (c : Cont) (key : Key) (hf : c.info.flavour = .link) :
    contAppend g c key = appendVia g c (execAccept g c Gen.acceptBody key) :=
  contAppend_eq_accept_link g c key hf

/-- … and the body of `SourceLinkContainer._accept` likewise for source lists (same id AND same object somewhere in
the block's source tree) -/
theorem shape_accept_source (g : Graph) (c : Cont) (key : Key) (hf : c.info.flavour = .sourceLink) :
    contAppend g c key = appendVia g c (execAccept g c Gen.sourceAcceptBody key) :=
  contAppend_eq_accept_source g c key hf

/-- `LinkContainer.extend` as it stands in the source is the model `contExtend` (whose `_accept` bodies are the
generated ones): every item is checked in the graph as it is before the call, the links follow -/
theorem shape_extend (g : Graph) (c : Cont) (keys : List Key) :
    (acceptBodyOf c = if c.info.flavour = .sourceLink then Gen.sourceAcceptBody else Gen.acceptBody) ∧
    (c.info.flavour = .link ∨ c.info.flavour = .sourceLink →
      execExtend c keys Gen.extendBody g none = contExtend g c keys) := by
  constructor
  · unfold acceptBodyOf
    cases c.info.flavour <;> rfl
  · intro hf
    unfold contExtend
    rcases hf with hf | hf <;> simp only [hf, Gen.extendBody, execExtend] <;>
      (cases acceptAll g c keys with
       | error e => rfl
       | ok ks => simp only []; cases linkAll g c ks <;> rfl)

/-- the `MultiTag.positions` setter as it stands in `nixio/multi_tag.py` (`Gen.positionsSetterBody`), run on any
graph with any assigned value (None, any node), is the model's `setRole … "positions"`: None and non-arrays are
refused with TypeError, an array that is not the block's member with RuntimeError, all before the old link is dropped
and the new one written (an edit that links first, tests a name, or skips the test for "known" handles breaks the
translator or this theorem) -/
theorem shape_positions_setter (g : Graph) (p : Path) (t : Option Nat) (o : Loc) (b : Nat)
    (ho : resolve g rootLoc p = some o) (hk : kindOf g o.key = "multi_tag") (hb : blockOfPath g p = some b) :
    setRole g p "positions" t = execRole o.key b Gen.positionsSetterBody g t :=
  setRole_positions_eq g p t o b ho hk hb

/-- … and the `MultiTag.extents` setter (`if da is None: … else: …`, then the time stamp) is `setRole … "extents"` -/
theorem shape_extents_setter (g : Graph) (p : Path) (t : Option Nat) (o : Loc) (b : Nat)
    (ho : resolve g rootLoc p = some o) (hk : kindOf g o.key = "multi_tag") (hb : blockOfPath g p = some b) :
    setRole g p "extents" t =
      execRoleIfNone o.key b Gen.extentsNoneBody Gen.extentsSetBody Gen.extentsTail g t :=
  setRole_extents_eq g p t o b ho hk hb

/-- the `Feature.data` setter as it stands in `nixio/feature.py` (`Gen.featureDataBody`) is the model's
`setRole … "data"` on any graph and any assigned value: every refusal (None, wrong class, not the block's member,
a DataFrame on a tagged feature) precedes the first write — `target_type`, the old link, the new link (the seeded
change C05-4 wrote `target_type` before the tests: outside the vocabulary, and this equation would fail) -/
theorem shape_feature_data_setter (g : Graph) (p : Path) (t : Option Nat) (o : Loc) (b : Nat)
    (ho : resolve g rootLoc p = some o) (hk : kindOf g o.key = "feature") (hb : blockOfPath g p = some b) :
    setRole g p "data" t = (execFeat o.key b t 12 Gen.featureDataBody g none).map (·.1) :=
  setRole_data_eq g p t o b ho hk hb

/-- `H5Group.create_link` as it stands in `nixio/hdf5/h5group.py`: an entry of that name is dropped, then the name is
bound to the TARGET NODE ITSELF — the model's `createLinkIn` on every graph (a copy of the target, a link to something
looked up by name or id, or keeping a stale entry would not be this) -/
theorem shape_create_link (g : Graph) (grp : Nat) (name : String) (t : Nat) :
    execCreateLink grp name t Gen.createLinkBody g = createLinkIn g grp name t := by
  simp only [Gen.createLinkBody, execCreateLink, Store.createLinkIn]

/-- `extend` is all or nothing: it succeeds iff EVERY item passes `_accept` in the unchanged graph; otherwise the
call is refused and (the state being what the refused call leaves) nothing was linked -/
theorem extend_all_or_nothing (g : Graph) (c : Cont) (keys : List Key)
    (hf : c.info.flavour = .link ∨ c.info.flavour = .sourceLink) :
    (∃ g', contExtend g c keys = .ok g') ↔
      ∀ key ∈ keys, ∃ k, execAccept g c (acceptBodyOf c) key = .ok k :=
  contExtend_ok_iff g c keys hf

/-- `extend([item])` is `append(item)` -/
theorem extend_single_is_append (g : Graph) (c : Cont) (key : Key)
    (hf : c.info.flavour = .link ∨ c.info.flavour = .sourceLink) : contExtend g c [key] = contAppend g c key :=
  contExtend_single g c key hf

/-- a handle whose node no group of the file links (kept across the deletion of its entity: HDF5 keeps the object
alive while the handle is open) is refused by every list of every block — member lists, references, source lists —
whatever its kind, name and id, also when another entity was created under its name since -/
theorem detached_refused_by_lists (g : Graph) (k : Nat) (hd : Detached g k) (c : Cont) :
    ∃ e, contAppend g c (.ent k) = .error e := contAppend_detached hd c

/-- … by `extend` as soon as it is among the items (the other items are not linked either) -/
theorem detached_refused_by_extend (g : Graph) (k : Nat) (hd : Detached g k) (c : Cont) (keys : List Key)
    (hk : Key.ent k ∈ keys) : ∃ e, contExtend g c keys = .error e := by
  by_cases hf : c.info.flavour = .link ∨ c.info.flavour = .sourceLink
  · cases h : contExtend g c keys with
    | error e => exact ⟨e, rfl⟩
    | ok g' =>
      exfalso
      obtain ⟨k', hk'⟩ := (contExtend_ok_iff g c keys hf).mp ⟨g', h⟩ _ hk
      obtain ⟨e, he⟩ := contAppend_detached hd c
      have h1 : contExtend g c [.ent k] = contAppend g c (.ent k) := contExtend_single g c _ hf
      have h2 : ∃ g1, contExtend g c [.ent k] = .ok g1 :=
        (contExtend_ok_iff g c [.ent k] hf).mpr (by intro key hkey; simp at hkey; subst hkey; exact ⟨k', hk'⟩)
      obtain ⟨g1, hg1⟩ := h2
      rw [h1, he] at hg1
      cases hg1
  · unfold contExtend
    cases hfl : c.info.flavour <;> simp_all

/-- … and as `positions` / `extents` of a multi-tag and as data of a feature -/
theorem detached_refused_by_roles (g : Graph) (t : Nat) (hd : Detached g t) (p : Path) (role : String)
    (hrole : role = "positions" ∨ role = "extents" ∨ role = "data") :
    ∃ e, setRole g p role (some t) = .error e := setRole_detached hd p role hrole

/-- deleting an entity from its block (`del block.data_arrays[x]`, tags, multi-tags, data frames, groups) leaves its
node detached: from then on the kept handle is refused everywhere (the three theorems above) -/
theorem deleted_is_detached (g : Graph) (c : Cont) (k : Nat) (hf : c.info.flavour = .plain)
    (hk : kindOf g k = c.info.item) :
    contDel g c (.ent k) = .ok (g.deleteObjs [k]) ∧ Detached (g.deleteObjs [k]) k := by
  constructor
  · unfold contDel
    simp [hf, hk]
  · intro p l hl e
    rw [links_deleteObjs] at hl
    have := (List.mem_filter.mp hl).2
    unfold keepObj at this
    rw [e] at this
    simp at this


/-- what a kept handle stands for: the node its name leads to in its parent group (when the name exists there — the
entity it was taken from, or whatever was created / linked under that name since), else the object it opened -/
theorem kept_handle_cases (g : Graph) (h : Handle) :
    g.child? h.parent h.lname = some (h.node g) ∨ (g.child? h.parent h.lname = none ∧ h.node g = h.key) := by
  unfold Handle.node
  cases g.child? h.parent h.lname with
  | some k => exact .inl rfl
  | none => exact .inr ⟨rfl, rfl⟩

/-- **for all histories**: once an entity was deleted from its block, its node is never linked again — whatever
follows: creations (also of another entity under its name), deletions, `append`, `extend`, role links, attribute
writes, reopen, and any of these calls handed ANY kept handle, the deleted entity's own included (`HOp`).  In every
later state every list refuses it (`append`, and `extend` as soon as it is among the items), as do `positions`,
`extents` and feature data.  (`k ≠ 0`, `k < g.nextKey`: the node is an entity made earlier — C03's `reachable_wf`.) -/
theorem deleted_entity_refused_forever (g : Graph) (c : Cont) (k : Nat) (hf : c.info.flavour = .plain)
    (hk : kindOf g k = c.info.item) (hk0 : k ≠ 0) (hlt : k < g.nextKey) (ops : List HOp) :
    contDel g c (.ent k) = .ok (g.deleteObjs [k]) ∧
    Detached (runH (g.deleteObjs [k]) ops) k ∧
    (∀ c' : Cont, ∃ e, contAppend (runH (g.deleteObjs [k]) ops) c' (.ent k) = .error e) ∧
    (∀ (c' : Cont) (keys : List Key), Key.ent k ∈ keys →
      ∃ e, contExtend (runH (g.deleteObjs [k]) ops) c' keys = .error e) ∧
    (∀ (p : Path) (role : String), role = "positions" ∨ role = "extents" ∨ role = "data" →
      ∃ e, setRole (runH (g.deleteObjs [k]) ops) p role (some k) = .error e) := by
  obtain ⟨h1, h2⟩ := deleted_is_detached g c k hf hk
  have hd := detached_runH hk0 (by rw [nextKey_deleteObjs]; exact hlt) h2 ops
  exact ⟨h1, hd, fun c' => detached_refused_by_lists _ k hd c',
    fun c' keys hin => detached_refused_by_extend _ k hd c' keys hin,
    fun p role hr => detached_refused_by_roles _ k hd p role hr⟩

/-- any detached node, any history: the general form of the above -/
theorem detached_stays_detached (g : Graph) (k : Nat) (hk0 : k ≠ 0) (hlt : k < g.nextKey) (hd : Detached g k)
    (ops : List HOp) : Detached (runH g ops) k := detached_runH hk0 hlt hd ops

/-- **entities that live only inside a copy**: `Block.create_tag / create_multi_tag / create_data_array (copy_from=obj)`
duplicates everything the source links to (the arrays a tag refers to, a multi-tag's positions …).  None of the nodes the
copy made — they carry the names and, with `keep_copy_id`, the ids of members of a block — except the copy itself is a
member of any block that existed before: every member list / reference list of such a block refuses it, as do
`positions`, `extents` and feature data.  (`FileOk`: keys below the supply, link targets exist — C03's invariant.) -/
theorem entities_inside_a_copy_refused (g g' : Graph) (hf : Nix.Store.C20.FileOk g) (bp : Path) (b : Loc)
    (what cls name : String) (obj : Nat) (keepId : Bool)
    (hb : resolve g rootLoc bp = some b) (hbk : kindOf g b.key = "block") (hcls : Nix.Store.C20.clsOf what = some cls)
    (hk : kindOf g obj = what) (h0 : b.key ∈ keys g) (hc : copyIntoBlock g g bp what obj name keepId = .ok g')
    (t' b2 : Nat) (hnew : (Nix.Store.C20.destG g b.key cls).nextKey ≤ t')
    (hroot : t' ≠ Nix.Store.C20.copyMap g g b.key cls obj false obj)
    (hb2 : b2 ∈ keys g) (hb2c : b2 ≠ Nix.Store.C20.destC g b.key cls) :
    (∀ c' : Cont, c'.info.flavour = .link → c'.block = some b2 → ∃ e, contAppend g' c' (.ent t') = .error e) ∧
    (∀ (p : Path) (o : Loc) (role : String), role = "positions" ∨ role = "extents" →
      resolve g' rootLoc p = some o → kindOf g' o.key = "multi_tag" → blockOfPath g' p = some b2 →
      ∃ e, setRole g' p role (some t') = .error e) ∧
    (∀ (p : Path) (o : Loc), resolve g' rootLoc p = some o → kindOf g' o.key = "feature" →
      blockOfPath g' p = some b2 → ∃ e, setRole g' p "data" (some t') = .error e) := by
  have hm : ∀ store, inBlockStore g' b2 store t' = false := fun store =>
    Nix.Store.C20.copyIntoBlock_inner_not_members hf hb hbk hcls hk h0 hc t' b2 store hnew hroot hb2 hb2c
  refine ⟨?_, ?_, ?_⟩
  · intro c' hfl hblk
    cases hr : contAppend g' c' (.ent t') with
    | error e => exact ⟨e, rfl⟩
    | ok g'' =>
      have := (accept_iff_same_block g' c' t' b2 hfl hblk).mp ⟨g'', hr⟩
      rw [hm] at this
      exact absurd this.2.2 (by simp)
  · intro p o role hrole ho hko hbo
    cases hr : setRole g' p role (some t') with
    | error e => exact ⟨e, rfl⟩
    | ok g'' =>
      have := (accept_role_iff_same_block g' p role t' b2 o hrole ho hko hbo).mp ⟨g'', hr⟩
      rw [hm] at this
      exact absurd this.2 (by simp)
  · intro p o ho hko hbo
    cases hr : setRole g' p "data" (some t') with
    | error e => exact ⟨e, rfl⟩
    | ok g'' =>
      have := (accept_feature_data_iff_same_block g' p t' b2 o ho hko hbo).mp ⟨g'', hr⟩
      rw [hm, hm] at this
      rcases this with h1 | h1
      · exact absurd h1.2 (by simp)
      · exact absurd h1.2.1 (by simp)

/-! ## what the membership tests walk: entries of the block's own groups, nothing reachable through other links -/

/-- source lists (`DataArray` / `Tag` / `MultiTag` / `Group` `.sources`): whatever `append` accepts is reached from the
list's block by `sources` groups only (block -sources-> entry -sources-> entry …, the walk of `Block.find_sources`).
No `metadata`, `link`, `properties`, `references`, `features` or dimension link is followed. -/
theorem source_list_takes_only_the_source_walk (g g' : Graph) (c : Cont) (k : Nat)
    (hf : c.info.flavour = .sourceLink) (h : contAppend g c (.ent k) = .ok g') :
    ∃ b, c.block = some b ∧ SourceOf g b k := contAppend_source_ok hf h

/-- member lists and references: whatever `append` accepts is an entry of the block's own container group of the
list's kind (`data_arrays`, `tags`, `multi_tags`, `data_frames`) and has the kind the list holds -/
theorem member_list_takes_only_store_entries (g g' : Graph) (c : Cont) (k : Nat)
    (hf : c.info.flavour = .link) (h : contAppend g c (.ent k) = .ok g') :
    ∃ b, c.block = some b ∧ EntryOf g c.info.store b k ∧ kindOf g k = c.info.item := contAppend_link_ok hf h

/-- an object that is no entry of any `sources` group - a Section that is the metadata of a source of the block (or
lies below / is linked from such a section), a Property, an array, a tag: whatever else is *reachable* below the
block's sources in the file - is refused by every source list of every block, by `append` … -/
theorem not_a_sources_entry_refused (g : Graph) (k : Nat) (hk : ∀ p, ¬ EntryOf g "sources" p k) (c : Cont)
    (hf : c.info.flavour = .sourceLink) : ∃ e, contAppend g c (.ent k) = .error e := by
  cases h : contAppend g c (.ent k) with
  | error e => exact ⟨e, rfl⟩
  | ok g' =>
    obtain ⟨b, _, hs⟩ := contAppend_source_ok hf h
    obtain ⟨p, hp⟩ := sourceOf_entry hs
    exact absurd hp (hk p)

/-- … and by `extend` as soon as it is among the items (no item is linked then) -/
theorem not_a_sources_entry_refused_by_extend (g : Graph) (k : Nat) (hk : ∀ p, ¬ EntryOf g "sources" p k) (c : Cont)
    (hf : c.info.flavour = .sourceLink) (keys : List Key) (hmem : Key.ent k ∈ keys) :
    ∃ e, contExtend g c keys = .error e := by
  have hfl : c.info.flavour = .link ∨ c.info.flavour = .sourceLink := Or.inr hf
  cases h : contExtend g c keys with
  | error e => exact ⟨e, rfl⟩
  | ok g' =>
    exfalso
    obtain ⟨k', hk'⟩ := (contExtend_ok_iff g c keys hfl).mp ⟨g', h⟩ _ hmem
    obtain ⟨e, he⟩ := not_a_sources_entry_refused g k hk c hf
    have h1 : contExtend g c [.ent k] = contAppend g c (.ent k) := contExtend_single g c _ hfl
    have h2 : ∃ g1, contExtend g c [.ent k] = .ok g1 :=
      (contExtend_ok_iff g c [.ent k] hfl).mpr (by intro key hkey; simp at hkey; subst hkey; exact ⟨k', hk'⟩)
    obtain ⟨g1, hg1⟩ := h2
    rw [h1, he] at hg1
    cases hg1

/-- an entity of another kind than the list holds, or one that is no entry of the block's container of that kind
(whatever else it is linked from: a tag's references, a feature, positions, a dimension link), is refused by
member lists and references -/
theorem not_a_store_entry_refused (g : Graph) (k : Nat) (c : Cont) (hf : c.info.flavour = .link)
    (hk : kindOf g k ≠ c.info.item ∨ ∀ b, c.block = some b → ¬ EntryOf g c.info.store b k) :
    ∃ e, contAppend g c (.ent k) = .error e := by
  cases h : contAppend g c (.ent k) with
  | error e => exact ⟨e, rfl⟩
  | ok g' =>
    obtain ⟨b, hb, he, hkind⟩ := contAppend_link_ok hf h
    rcases hk with hk | hk
    · exact absurd hkind hk
    · exact absurd he (hk b hb)

/-- The reachable-state form: in every state reached by dimension and structural operations no
range dimension has both ticks and a link.  `ticks_link_exclusive_invariant` proves the step for
the operations that write ticks, links and data; lifting it to all histories additionally needs
the frame facts that structural operations never add children to a dimension group and that
descriptor names are `1..n` (so `append_*_dimension` always makes a new group) — kept as a
statement, checked on every `dim_read` / HDF5-level dump of the correspondence run. -/
def ExclusiveInvariant : Prop :=
  ∀ ops : List DOp, ∀ dn, kindOf (runD initD ops).g dn = kDimRange →
    ¬ ((runD initD ops).g.hasChild dn "ticks" = true ∧ hasLink (runD initD ops).g dn = true)

/-! ## non-vacuity: a concrete history with two blocks, equal names, a link list, a dimension link -/

def demoOps : List DOp := [
  .store (.createBlock "b1" "t"), .store (.createBlock "b2" "t"),
  .createArray [.name "data", .name "b1"] "x" "t" [2, 3] [0, 1, 2, 3, 4, 5],
  .createArray [.name "data", .name "b2"] "x" "t" [2] [7, 8],
  .createArray [.name "data", .name "b1"] "y" "t" [3] [1, 2, 3],
  .store (.createIn [.name "data", .name "b1"] "group" "g" "t" none),
  .store (.append [.name "data", .name "b1", .name "groups", .name "g"] "data_arrays"
    (.obj [.name "data", .name "b1", .name "data_arrays", .name "x"])),
  -- the same-named array of the other block is refused
  .store (.append [.name "data", .name "b1", .name "groups", .name "g"] "data_arrays"
    (.obj [.name "data", .name "b2", .name "data_arrays", .name "x"])),
  .appendDim [.name "data", .name "b1", .name "data_arrays", .name "y"] (.range (some [1, 2, 3]) none none),
  .linkDataArray [.name "data", .name "b1", .name "data_arrays", .name "y"] 1
    [.name "data", .name "b1", .name "groups", .name "g", .name "data_arrays", .idx 0] [1, -1],
  -- write the array through the group's list: the ticks follow
  .writeData [.name "data", .name "b1", .name "groups", .name "g", .name "data_arrays", .idx 0] [0, 1, 2, 30, 40, 50]]

def demo : DState := runD initD demoOps

def demoDim : Option Nat :=
  (arrayAt demo [.name "data", .name "b1", .name "data_arrays", .name "y"]).toOption.bind fun a => dimNode demo.g a 1

example : (demoDim.bind fun dn => (readTicks demo dn).toOption) = some [30, 40, 50] := by decide +kernel
example : (demoDim.map fun dn => (hasLink demo.g dn, demo.g.hasChild dn "ticks")) = some (true, false) := by
  decide +kernel
example : ((openCont demo.g [.name "data", .name "b1", .name "groups", .name "g"] "data_arrays").map
    fun c => (contEntries demo.g c).length) = some 1 := by decide +kernel
example : ((resolve demo.g rootLoc [.name "data", .name "b1", .name "groups", .name "g", .name "data_arrays", .idx 0]).map (·.key)) =
    ((resolve demo.g rootLoc [.name "data", .name "b1", .name "data_arrays", .name "x"]).map (·.key)) := by
  decide +kernel

/-! ### … and a frame: a range dimension linked to column `v`, the column rewritten afterwards -/

/-! freezing: the linked dimension of `y` reports [30, 40, 50]; exactly these values are assigned as explicit ticks,
then the formerly linked array is rewritten: the link is gone and the ticks stay -/
def demoFrozen : DState := runD demo [
  .setTicks [.name "data", .name "b1", .name "data_arrays", .name "y"] 1 [30, 40, 50],
  .writeData [.name "data", .name "b1", .name "data_arrays", .name "x"] [0, 1, 2, 300, 400, 500]]

example : (demoDim.bind fun dn => (readTicks demoFrozen dn).toOption) = some [30, 40, 50] := by decide +kernel
example : (demoDim.map fun dn => (hasLink demoFrozen.g dn, demoFrozen.g.hasChild dn "ticks", isAlias demoFrozen dn)) =
    some (false, true, false) := by decide +kernel

/-! a kept handle across a deletion: `y` of block `b1` is accepted by the group's list while it is the block's member,
deleted from the block it is a detached node that `append`, `extend` (even next to the acceptable `x`) and
`positions` refuse; `extend` of acceptable items alone succeeds -/

def demoKey (name : String) : Option Nat :=
  (resolve demo.g rootLoc [.name "data", .name "b1", .name "data_arrays", .name name]).map (·.key)

def demoList (g : Graph) : Option Cont := openCont g [.name "data", .name "b1", .name "groups", .name "g"] "data_arrays"

def okOf {α : Type} (r : Except Nix.Err α) : Bool := match r with | .ok _ => true | .error _ => false

example : (demoKey "y").isSome = true := by decide +kernel
example : ((demoKey "y").bind fun k => (demoList demo.g).map fun c => okOf (contAppend demo.g c (.ent k))) = some true := by
  decide +kernel
example : ((demoKey "y").bind fun k => (demoList (demo.g.deleteObjs [k])).map fun c =>
    okOf (contAppend (demo.g.deleteObjs [k]) c (.ent k))) = some false := by decide +kernel
example : ((demoKey "y").bind fun k => (demoKey "x").bind fun x => (demoList (demo.g.deleteObjs [k])).map fun c =>
    (okOf (contExtend (demo.g.deleteObjs [k]) c [.ent x, .ent k]), okOf (contExtend (demo.g.deleteObjs [k]) c [.ent x]),
     okOf (contExtend demo.g c [.ent x, .ent k]))) = some (false, true, true) := by decide +kernel

/-! a Section that is the metadata of a source of block `b1`: in the file it hangs below the block's `sources` group
(`…/sources/s/metadata`), yet the source list of group `g` refuses it and accepts the source itself -/

def demoKind : Graph := [
  Op.createIn [.name "data", .name "b1"] "source" "s" "t" none,
  .createSection [] "sec" "t",
  .setRole [.name "data", .name "b1", .name "sources", .name "s"] "metadata" (some [.name "metadata", .name "sec"])].foldl step demo.g

def demoSrcList : Option Cont := openCont demoKind [.name "data", .name "b1", .name "groups", .name "g"] "sources"

def demoSecKey : Option Nat := (resolve demoKind rootLoc [.name "metadata", .name "sec"]).map (·.key)

example : demoSecKey.isSome = true ∧
    (resolve demoKind rootLoc [.name "data", .name "b1", .name "sources", .name "s", .name "metadata"]).map (·.key) = demoSecKey := by
  decide +kernel
example : (demoSecKey.bind fun k => demoSrcList.map fun c => (c.info.flavour == .sourceLink, okOf (contAppend demoKind c (.ent k)))) =
    some (true, false) := by decide +kernel
example : (((resolve demoKind rootLoc [.name "data", .name "b1", .name "sources", .name "s"]).map (·.key)).bind fun k =>
    demoSrcList.map fun c => okOf (contAppend demoKind c (.ent k))) = some true := by decide +kernel

/-! the history form: `y` is deleted, another `y` is created, handles are offered.  The handle taken from the block
(parent = the block's `data_arrays` group, name "y") follows its name: it stands for the new array and is accepted; a
handle that cannot find its name again (here: one named by an id no list holds) keeps standing for the deleted node,
which `append` refuses — the group's list holds `x` and the NEW `y`, never the old node -/

def demoStore : Option Nat := (resolve demo.g rootLoc [.name "data", .name "b1", .name "data_arrays"]).map (·.key)

def demoHist (k st : Nat) : List HOp := [
  .op (.createIn [.name "data", .name "b1"] "data_array" "y" "t" none),
  .appendH [.name "data", .name "b1", .name "groups", .name "g"] "data_arrays" { parent := st, lname := "gone-id", key := k },
  .extend [.name "data", .name "b1", .name "groups", .name "g"] "data_arrays"
    [.key (.obj [.name "data", .name "b1", .name "data_arrays", .name "x"]), .handle { parent := st, lname := "gone-id", key := k }],
  .setRoleH [.name "data", .name "b1", .name "groups", .name "g"] "positions" { parent := st, lname := "gone-id", key := k },
  .appendH [.name "data", .name "b1", .name "groups", .name "g"] "data_arrays" { parent := st, lname := "y", key := k }]

def demoAfter : Option Graph :=
  (demoKey "y").bind fun k => demoStore.map fun st => runH (demo.g.deleteObjs [k]) (demoHist k st)

example : (demoAfter.bind fun g' => (demoKey "y").bind fun k => (demoList g').map fun c =>
    ((cLinks g' c.node).map (·.2)).contains k) = some false := by decide +kernel
example : (demoAfter.bind fun g' => (demoList g').map fun c =>
    (cLinks g' c.node).map fun l => g'.getAttr l.2 "name") = some [some "x", some "y"] := by decide +kernel



def demoFrameOps : List DOp := [
  .store (.createBlock "b1" "t"),
  .createArray [.name "data", .name "b1"] "y" "t" [3] [1, 2, 3],
  .createFrame [.name "data", .name "b1"] "df" "t" ["t", "v"] (some [some "s", some "mV"]) [[0, 5], [1, 6], [2, 7]],
  .appendDim [.name "data", .name "b1", .name "data_arrays", .name "y"] (.range (some [1, 2, 3]) none none),
  .linkDataFrame [.name "data", .name "b1", .name "data_arrays", .name "y"] 1
    [.name "data", .name "b1", .name "data_frames", .name "df"] 1,
  .writeColumn [.name "data", .name "b1", .name "data_frames", .name "df"] 1 [50, 60, 70]]

def demoFrame : DState := runD initD demoFrameOps

def demoFrameDim : Option Nat :=
  (arrayAt demoFrame [.name "data", .name "b1", .name "data_arrays", .name "y"]).toOption.bind fun a =>
    dimNode demoFrame.g a 1

example : (demoFrameDim.bind fun dn => (readTicks demoFrame dn).toOption) = some [50, 60, 70] := by decide +kernel
example : (demoFrameDim.map fun dn => (hasLink demoFrame.g dn, demoFrame.g.hasChild dn "ticks", isAlias demoFrame dn,
    linkType demoFrame.g dn)) = some (true, false, false, "DataFrame") := by decide +kernel
example : (demoFrameDim.bind fun dn => (readDimAttr demoFrame dn "unit").toOption) = some (some "mV") := by
  decide +kernel
example : (demoFrameDim.bind fun dn => (readDimAttr demoFrame dn "label").toOption) = some (some "v") := by
  decide +kernel

/-! ### … and a frame made WITHOUT units (the repaired defect: reading or assigning the unit of a dimension
linked to such a frame, or assigning None, raised TypeError in nixio) -/

def demoBareOps : List DOp := [
  .store (.createBlock "b" "t"),
  .createArray [.name "data", .name "b"] "a" "t" [2] [1, 2],
  .createFrame [.name "data", .name "b"] "df" "t" ["x", "y"] none [[0, 5], [1, 6]],
  .appendDim [.name "data", .name "b", .name "data_arrays", .name "a"] (.range none none none),
  .linkDataFrame [.name "data", .name "b", .name "data_arrays", .name "a"] 1
    [.name "data", .name "b", .name "data_frames", .name "df"] 0]

def bareA : Path := [.name "data", .name "b", .name "data_arrays", .name "a"]

/-- unit of the dimension and `DataFrame.units` after a history -/
def bareView (ops : List DOp) : Option (Option String) × Option (Option (List (Option String))) :=
  let s := runD initD (demoBareOps ++ ops)
  (((arrayAt s bareA).toOption.bind fun a => dimNode s.g a 1).bind fun dn => (readDimAttr s dn "unit").toOption,
   ((frameAt s [.name "data", .name "b", .name "data_frames", .name "df"]).toOption.bind fun f => frameOf s f).map
     frameUnits)

example : bareView [] = (some none, some none) := by decide +kernel
example : bareView [.setDimAttr bareA 1 "unit" (some "mV")] = (some (some "mV"), some (some [some "mV", none])) := by
  decide +kernel
example : bareView [.setDimAttr bareA 1 "unit" none] = (some none, some (some [none, none])) := by decide +kernel
example : bareView [.setDimAttr bareA 1 "unit" (some "mV"), .setDimAttr bareA 1 "unit" (some "")] =
    (some none, some (some [none, none])) := by decide +kernel
example : bareView [.setUnits [.name "data", .name "b", .name "data_frames", .name "df"] [some "s", none],
    .setDimAttr bareA 1 "unit" none] = (some none, some (some [none, none])) := by decide +kernel
example : bareView [.setUnits [.name "data", .name "b", .name "data_frames", .name "df"] [some "s", some "kg"]] =
    (some (some "s"), some (some [some "s", some "kg"])) := by decide +kernel

end Nix.C05
