import NixModel.Lemmas.C12Guarded
import NixModel.Generated.CopyOrder

/-!
# C12 — copies: a refused `create_*(copy_from=…)` / `copy_section` leaves the destination container as it was

`guarded_refused_unchanged` is the discipline theorem of `Pure/Guarded.lean` for *every* system of guards and
writes; `copy_sound` shows that the copying functions form such a system; `copy_functions_safe` evaluates the
discipline on the step lists rendered from the source (`Generated/CopyOrder.lean`, `H5Group.copy` inlined).
-/
namespace Nix.C12
open Nix.Guarded Nix.CopyWrite Nix.Generated.CopyOrder

/-- for every system of guards and writes that is sound (a write whose needs are established does not refuse, an
invisible write changes nothing readers see), every argument and every file: a list that obeys the discipline,
when refused, ends in a file readers cannot tell from the one it started with -/
theorem guarded_refused_unchanged {A S O G W : Type} [DecidableEq G] (sys : Sys A S O G W) (hs : sys.Sound)
    (steps : List (Step G W)) (h : safe sys steps = true) (a : A) (s : S) (e : Err)
    (he : (run sys a steps s).2 = some e) : sys.obs (run sys a steps s).1 = sys.obs s :=
  safe_refused_unchanged sys hs steps h a s e he

/-- the copying functions are such a system -/
theorem copy_sound : CopyWrite.sys.Sound where
  exec_ok := by
    intro c f w hn
    cases w with
    | openContainer => rfl
    | h5copy =>
      have h1 := hn .nameFree (by simp [sys, needs])
      simp only [sys, check] at h1
      have hm : c.name.memberOk = true := by
        cases h : c.name.memberOk with
        | true => rfl
        | false => simp [h] at h1
      have ht : c.name.taken = false := by
        cases h : c.name.taken with
        | false => rfl
        | true => simp [hm, h] at h1
      simp [sys, exec, hm, ht]
    | setName =>
      have h2 := hn .nameStorable (by simp [sys, needs])
      simp only [sys, check] at h2
      have hst : c.name.storable = true := by
        cases h : c.name.storable with
        | true => rfl
        | false => simp [h] at h2
      simp [sys, exec, hst]
    | freshIds =>
      have h2 := hn .keepIdBool (by simp [sys, needs])
      simp only [sys, check] at h2
      have hb : c.keepId.boolOk = true := by
        cases h : c.keepId.boolOk with
        | true => rfl
        | false => simp [h] at h2
      simp [sys, exec, hb]
    | copyProps =>
      have h1 := hn .childrenBool (by simp [sys, needs])
      have h2 := hn .keepIdBool (by simp [sys, needs])
      simp only [sys, check] at h1 h2
      have hb : c.keepId.boolOk = true := by
        cases h : c.keepId.boolOk with
        | true => rfl
        | false => simp [h] at h2
      have hc : c.children.boolOk = true := by
        cases h : c.children.boolOk with
        | true => rfl
        | false => simp [h] at h1
      simp [sys, exec, hb, hc]
  invisible_obs := by
    intro c f w hi
    cases w <;> simp [sys] at hi
    rfl
  implies_ok := by
    intro c g g' _ h
    simp [sys] at h

/-- every copying function of nixio, as generated from the source, obeys the discipline -/
theorem copy_functions_safe : ∀ p ∈ Nix.Generated.CopyOrder.all, safe CopyWrite.sys p.2 = true := by decide

/-- **copies: refused ⇒ the destination container lists what it listed** — for each of the five functions, every
spelling of name / keep-id flag / children flag / source, every container -/
theorem copy_refused_unchanged (p : String × List CStep) (hp : p ∈ Nix.Generated.CopyOrder.all) (c : Call) (f : File)
    (e : Err) (he : (run CopyWrite.sys c p.2 f).2 = some e) : (run CopyWrite.sys c p.2 f).1.items = f.items :=
  safe_refused_unchanged CopyWrite.sys copy_sound p.2 (copy_functions_safe p hp) c f e he

/-- `H5Group.copy` as it was before nixio f4ba150 / 6e5e1c9: the name text and the keep-id flag are looked at
only by the statements that follow the copy -/
def h5GroupCopyLateChecks : List CStep :=
  h5GroupCopy.filter fun s => s != .guard .nameStorable && s != .guard .keepIdBool

def nulName : Call :=
  ⟨true, ⟨true, true, false, false, 4⟩, ⟨true, true⟩, ⟨true, true⟩, 10, 11⟩

/-- **the order matters**: without the guards in front, a name with an embedded NUL is refused by the write of
the `name` attribute — after the copy has been made -/
theorem late_name_check_counterexample :
    safe CopyWrite.sys h5GroupCopyLateChecks = false ∧
    run CopyWrite.sys nulName [.write .openContainer, .write .h5copy, .write .setName] ⟨true, []⟩ =
      (⟨true, [⟨4, 10, false, true⟩]⟩, some .typeError) ∧
    (run CopyWrite.sys nulName h5GroupCopy ⟨true, []⟩) = (⟨true, []⟩, some .valueError) := by
  refine ⟨by decide, ?_, by decide⟩
  decide

/-! ## Non-vacuity -/

/-- an accepted copy with fresh ids adds one named item with the new id -/
example : run CopyWrite.sys ⟨true, ⟨true, true, false, true, 4⟩, ⟨true, false⟩, ⟨true, true⟩, 10, 11⟩ blockCopyObjects
    ⟨false, [⟨1, 2, true, true⟩]⟩ = (⟨true, [⟨1, 2, true, true⟩, ⟨4, 11, true, true⟩]⟩, none) := by decide

/-- a taken name is refused; the (invisible) container group may have been created, the items stand -/
example : run CopyWrite.sys ⟨true, ⟨true, true, true, true, 1⟩, ⟨true, false⟩, ⟨true, true⟩, 10, 11⟩ blockCopyObjects
    ⟨false, [⟨1, 2, true, true⟩]⟩ = (⟨true, [⟨1, 2, true, true⟩]⟩, some .keyError) := by decide

end Nix.C12
