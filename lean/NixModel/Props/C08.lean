import NixModel.Pure.Tagging
import NixModel.Lemmas.C08Axis
import NixModel.Lemmas.C08Slices
import NixModel.Lemmas.C08View
import NixModel.Lemmas.C08Lookup
import NixModel.Lemmas.C08Band
import NixModel.Lemmas.C08Cases
import NixModel.Props.C06

/-!
# C08 — tagged data is exactly the samples inside the tagged region

Property theorems only; helper lemmas and the vocabulary live in `Lemmas/C08Axis.lean` (one axis, units),
`Lemmas/C08Slices.lean` (the slice tuple, for any number of axes) and `Lemmas/C08View.lean` (the view).
The statements are about the model `Pure/Tagging.lean` of `nixio/tag.py` / `nixio/multi_tag.py`, which is
built on the models of C07 (`Pure/Dim.lean`, with the tolerances regenerated from the source), C09
(`Pure/Units.lean`, with the regenerated unit tables) and C06 (`Pure/DataView.lean`); the theorems below are
the composition of `C07.range_indices_*`, `C09.scaling_ratio` / `not_scalable` and `C06.C06_window`, axis by
axis, and inherit their hypotheses.

Vocabulary (all defined in the Lemmas files, walking the axes in lock-step with `_calc_data_slices`):
* `AxesOK stop dims pos ext units scs` — per axis that has a position: the tag unit converts to the
  dimension's unit with the exact factor `sc` (`UnitRel`: none / `"none"` on a set dimension, no tag units,
  or two prefixed forms of one SI unit ⇒ `10^(e₁-e₂)` to the power), the descriptor is inside C07's theorems
  (`DimOK`: positive interval, ascending ticks) and both end points of the scaled region meet C07's
  `Separated` tolerance hypothesis (`SepAt`; nothing for ticks);
* `regionOf stop p e? sc` — `[p·sc, p·sc + e·sc]`, end excluded iff the stop rule is `Exclusive` and the
  extent entry is `> 0`; a missing or non-positive entry is inclusive (zero: the exact position);
* `WindowsExact … ws` — every window `[a, b)` of an axis with a position is non-empty, inside the stored
  extent, consists of sample indices of the descriptor, and a sample index lies in it **iff** its coordinate
  lies in the region; axes beyond the position's length are `[0, extent)`;
* `EmptyAxis …` — some axis has no sample of its descriptor in its region;
* `BeyondAxis …` — some axis' region contains a sample of its descriptor that is not stored (index ≥ extent).
-/
namespace Nix.C08
open Nix Nix.Dim Nix.DataView Nix.Units Nix.Units.Lemmas Nix.Units.Gen Nix.Tagging

/-! ## the tie to the source: decisions and order of checks re-rendered from `tag.py` / `multi_tag.py` -/

/-- **Generated decisions.** The pieces of `_calc_data_slices`, `_slices_in_data`, `_scale_position` and
`MultiTag.feature_data` that `harness/extract/tagshape.py` renders from the source and the model uses as they come
are the ones every theorem below is about: the stop rule is kept iff the (unscaled) extent entry is `> 0`, otherwise
— and without an entry — the mode is `Inclusive`; the stop position is `extent · scaling + start`; the slice is
`slice(a, b + 1)`; a whole axis starts at 0; a stop is inside the data iff `stop ≤ extent`; an indexed feature is
refused by the first test iff `posidx > rows`; on a set dimension `"none"` counts as no unit; `InvalidUnit` from the
scaling becomes `IncompatibleDimensions`.  An edit of one of them in the source changes the generated file and
breaks this theorem (and the proofs that use it). -/
theorem C08_generated_decisions :
    (∀ e : Rat, Gen.extentKeepsStopRule e = true ↔ 0 < e) ∧
    sliceModeNamed Gen.extentElseMode = .inclusive ∧ sliceModeNamed Gen.noExtentMode = .inclusive ∧
    Gen.extentElseMode = "Inclusive" ∧ Gen.noExtentMode = "Inclusive" ∧
    (∀ e sc start : Rat, Gen.stopPos e sc start = e * sc + start) ∧
    (∀ a b : Int, Gen.sliceOf a b = (a, b + 1)) ∧ Gen.wholeAxisStart = 0 ∧
    (∀ s n : Int, Gen.stopInData s n = true ↔ s ≤ n) ∧
    (∀ i rows : Nat, Gen.indexedRowBeyond i rows = true ↔ rows < i) ∧
    Gen.setNoUnitText = "none".toList ∧ Gen.invalidUnitBecomes = ("InvalidUnit", "IncompatibleDimensions") := by
  refine ⟨fun e => (gen_extent_mode e).1, (gen_extent_mode 0).2.1, (gen_extent_mode 0).2.2, by decide, by decide,
    fun _ _ _ => rfl, fun _ _ => rfl, rfl, ?_, ?_, by decide, by decide⟩
  · intro s n; simp [Gen.stopInData]
  · intro i rows; simp [Gen.indexedRowBeyond]

/-- **Order of checks in the source.** The `if` / `except` tests of the eight functions, in source order, with what
each does (`raise <class>`, `return`, `-` = neither), as re-rendered on every run.  The model's functions make the
same tests in the same order (`Tag.taggedData`, `Tag.featureData`, `calcSlicesMtag`, `MultiTag.taggedData`,
`MultiTag.featureData`, `scalePosition`, `calcSlices`, `slicesInData`); a check that is added, removed, reordered
or raises another class breaks this theorem. -/
theorem C08_source_shape :
    Gen.guardsCalcDataSlices =
      [("not self.units", "-"), ("idx < len(position)", "-"), ("extent is not None and idx < len(extent)", "-")] ∧
    Gen.guardsSlicesInData = [("slices is None or not all(slices)", "return")] ∧
    Gen.guardsScalePosition =
      [("dimtype == DimensionType.Set", "-"), ("dimtype == DimensionType.Set", "-"),
       ("unit and unit != 'none'", "raise IncompatibleDimensions"),
       ("dimunit is None and unit is not None", "raise IncompatibleDimensions"),
       ("dimunit is not None and unit is not None", "-"), ("except InvalidUnit", "raise IncompatibleDimensions")] ∧
    Gen.guardsTagTaggedData =
      [("len(references) == 0", "raise OutOfBounds"),
       ("isinstance(refidx, int) and refidx >= len(references)", "raise OutOfBounds"),
       ("extent and len(position) != len(extent)", "raise IncompatibleDimensions"),
       ("not all(slices)", "return"), ("not self._slices_in_data(ref, slices)", "raise OutOfBounds")] ∧
    Gen.guardsTagFeatureData =
      [("len(self.features) == 0", "raise OutOfBounds"), ("except KeyError", "-"),
       ("feature.data.name == featidx or feature.data.id == featidx", "-"), ("feat is None", "raise"),
       ("data is None", "raise UninitializedEntity"), ("feat.link_type == LinkType.Tagged", "-"),
       ("not self._slices_in_data(data, slices)", "raise OutOfBounds")] ∧
    Gen.guardsMtagCalcSlices =
      [("not positions or index >= positions.shape[0]", "raise OutOfBounds"),
       ("extents and index >= extents.shape[0]", "raise OutOfBounds"),
       ("extents and positions.data_extent != extents.data_extent", "raise IncompatibleDimensions"),
       ("len(positions.shape) == 1", "-"), ("extents and len(extents.shape) == 1", "-"),
       ("extents is not None and len(extents) > 0", "-")] ∧
    Gen.guardsMtagTaggedData =
      [("len(references) == 0", "raise OutOfBounds"),
       ("posidx >= positions.data_extent[0] or (extents and posidx >= extents.data_extent[0])", "raise OutOfBounds")] ∧
    Gen.guardsMtagFeatureData =
      [("len(self.features) == 0", "raise OutOfBounds"), ("except KeyError", "-"),
       ("feature.data.name == featidx or feature.data.id == featidx", "-"), ("feat is None", "raise"),
       ("data is None", "raise UninitializedEntity"), ("feat.link_type == LinkType.Tagged", "-"),
       ("not self._slices_in_data(data, slices)", "raise OutOfBounds"), ("feat.link_type == LinkType.Indexed", "-"),
       ("posidx > data.data_extent[0]", "raise OutOfBounds"),
       ("not self._slices_in_data(data, slices)", "raise OutOfBounds")] := by
  refine ⟨?_, ?_, ?_, ?_, ?_, ?_, ?_, ?_⟩ <;> decide

/-- **Default stop rule and deprecated wrappers.** The four public methods take `stop_rule` last with the default
`SliceMode.Exclusive`; `retrieve_data` / `retrieve_feature_data` return the same method with the same arguments and
no stop rule — so a call without a stop rule, and the deprecated spelling, is the `Exclusive` result (the region
theorems then apply with `stop = .exclusive`). -/
theorem C08_default_stop_rule (t : TagDesc) (mt : MTagDesc) (refs : List RefEnt) (feats : List FeatEnt) (key : Key)
    (posidx : Nat) :
    Gen.defaultStopRules =
      [("Tag.tagged_data(refidx, stop_rule)", "Exclusive"), ("Tag.feature_data(featidx, stop_rule)", "Exclusive"),
       ("MultiTag.tagged_data(posidx, refidx, stop_rule)", "Exclusive"),
       ("MultiTag.feature_data(posidx, featidx, stop_rule)", "Exclusive")] ∧
    Gen.retrieveWrappers =
      [("Tag.retrieve_data(refidx)", "self.tagged_data(refidx)"),
       ("Tag.retrieve_feature_data(featidx)", "self.feature_data(featidx)"),
       ("MultiTag.retrieve_data(posidx, refidx)", "self.tagged_data(posidx, refidx)"),
       ("MultiTag.retrieve_feature_data(posidx, featidx)", "self.feature_data(posidx, featidx)")] ∧
    Tag.retrieveData t refs key = Tag.taggedDataBy t refs key .exclusive ∧
    Tag.retrieveFeatureData t feats key = Tag.featureDataBy t feats key .exclusive ∧
    MultiTag.retrieveData mt refs posidx key = MultiTag.taggedDataBy mt refs posidx key .exclusive ∧
    MultiTag.retrieveFeatureData mt feats posidx key = MultiTag.featureDataBy mt feats posidx key .exclusive := by
  have h1 : defaultStop? "Tag.tagged_data(refidx, stop_rule)" = some .exclusive := by decide
  have h2 : defaultStop? "Tag.feature_data(featidx, stop_rule)" = some .exclusive := by decide
  have h3 : defaultStop? "MultiTag.tagged_data(posidx, refidx, stop_rule)" = some .exclusive := by decide
  have h4 : defaultStop? "MultiTag.feature_data(posidx, featidx, stop_rule)" = some .exclusive := by decide
  refine ⟨by decide, by decide, ?_, ?_, ?_, ?_⟩
  · simp only [Tag.retrieveData, withDefaultStop, h1]
  · simp only [Tag.retrieveFeatureData, withDefaultStop, h2]
  · simp only [MultiTag.retrieveData, withDefaultStop, h3]
  · simp only [MultiTag.retrieveFeatureData, withDefaultStop, h4]

/-! ## one axis, units -/

/-- **Units.** When the tag unit relates to the dimension's unit (`UnitRel`), `_scale_position` multiplies
by the exact factor — for two prefixed forms `p₁uw`, `p₂uw` of one SI unit: `(10^(e p₁ − e p₂))^w` (C09) —
which is positive; a unit on a set dimension, a unit for a dimension that has none, and another base unit or
power are refused with `IncompatibleDimensions`. -/
theorem C08_units (pos : Rat) :
    (∀ u dim sc, UnitRel u dim sc → scalePosition pos u dim = .ok (pos * sc, sc) ∧ 0 < sc) ∧
    (∀ (dim : DimDesc) (p₁ p₂ u w : Str), p₁ ∈ optPrefixes → p₂ ∈ optPrefixes → u ∈ units → w ∈ powerTexts →
      (∀ n, dim ≠ .set n) → dim.unit = some (p₂ ++ u ++ w) →
      scalePosition pos (some (p₁ ++ u ++ w)) dim =
        .ok (pos * tenPow (expOf p₁ - expOf p₂) ^ powVal w, tenPow (expOf p₁ - expOf p₂) ^ powVal w)) ∧
    (∀ n u, u ≠ [] → u ≠ noneStr → scalePosition pos (some u) (.set n) = .error .incompatibleDimensions) ∧
    (∀ off si u, scalePosition pos (some u) (.sampled off si none) = .error .incompatibleDimensions) ∧
    (∀ ticks u, scalePosition pos (some u) (.range ticks none) = .error .incompatibleDimensions) ∧
    (∀ (dim : DimDesc) (p₁ p₂ u₁ u₂ w₁ w₂ : Str), p₁ ∈ optPrefixes → p₂ ∈ optPrefixes → u₁ ∈ units → u₂ ∈ units →
      w₁ ∈ powerTexts → w₂ ∈ powerTexts → (u₁ ≠ u₂ ∨ w₁.drop 1 ≠ w₂.drop 1) →
      dim.unit = some (p₂ ++ u₂ ++ w₂) →
      scalePosition pos (some (p₁ ++ u₁ ++ w₁)) dim = .error .incompatibleDimensions) := by
  obtain ⟨r1, r2, r3, r4⟩ := scalePosition_refuses pos
  refine ⟨fun u dim sc h => scalePosition_of_unitRel pos u dim sc h, ?_, r1, r2, r3, r4⟩
  intro dim p₁ p₂ u w h₁ h₂ hu hw hset hdim
  exact (scalePosition_of_unitRel pos _ dim _ (UnitRel.scaled dim p₁ p₂ u w h₁ h₂ hu hw hset hdim)).1

/-- **One axis.** For every descriptor kind, position, extent entry (present, absent, zero, negative), unit
pair and stop rule: the loop body of `_calc_data_slices` yields `slice(a, b)` with `a … b-1` exactly the
samples of the descriptor whose coordinate lies in the scaled region (and there is one), `None` when there is
none, or `IndexError` — and then there is none either. -/
theorem C08_axis (stop : SliceMode) (dim : DimDesc) (p : Rat) (e? : Option Rat) (unit : Option Str) (sc : Rat)
    (hd : DimOK dim) (hu : UnitRel unit dim sc)
    (hs : SepAt dim (regionOf stop p e? sc).s) (he : SepAt dim (regionOf stop p e? sc).e) :
    match axisSlice stop dim p e? unit with
    | .ok w => AxisSpec dim (regionOf stop p e? sc) w
    | .error err => err = .indexError ∧ ∀ i, InDom (dimDom dim) i → ¬ InRegion dim (regionOf stop p e? sc) i :=
  axisSlice_spec stop dim p e? unit sc hd (scalePosition_of_unitRel p unit dim sc hu).1 hs he

/-- the region of an axis: scaled start, scaled extent added, inclusive unless the entry is positive and the
stop rule exclusive -/
theorem C08_region_shape (stop : SliceMode) (p e sc : Rat) :
    regionOf stop p (some e) sc = ⟨if 0 < e then stop else .inclusive, p * sc, e * sc + p * sc⟩ ∧
    regionOf stop p none sc = ⟨.inclusive, p * sc, p * sc⟩ ∧
    regionOf stop p (some 0) sc = ⟨.inclusive, p * sc, p * sc⟩ := by
  refine ⟨regionOf_some stop p e sc, regionOf_none stop p sc, ?_⟩
  rw [regionOf_some]
  simp

/-! ## Tag.tagged_data -/

/-- **Region theorem (Tag).** For every referenced array of any rank with one descriptor per axis, every
mix of descriptor kinds, every position / extent vector (position shorter than the rank: remaining axes
whole; extent absent, zero, negative), unit list and stop rule, under `AxesOK`:

* a **valid** view has, on every axis, exactly the window `{ i < extent | coord i ∈ region }`
  (`WindowsExact`), and reading it reads that window of the array (C06);
* an **invalid** view reads empty and some axis has no sample in its region;
* `IndexError` only when some axis has no sample in its region; `OutOfBounds` only when some axis' region
  contains a sample beyond the stored extent;
* nothing else happens. -/
theorem C08_region (t : TagDesc) (nrefs refidx : Nat) (ref : Arr) (stop : SliceMode) (scs : List Rat)
    (hrank : ref.dims.length = ref.shape.length)
    (hok : AxesOK stop ref.dims t.position t.extent (unitsOpt t.units) scs)
    (href : refidx < nrefs) (hext : t.extent = [] ∨ t.extent.length = t.position.length) :
    match Tag.taggedData t nrefs refidx ref stop with
    | .ok v =>
      (v.valid = true ∧ v.parent = ref.shape ∧ WindowsIn v.window ref.shape ∧
        WindowsExact stop ref.dims ref.shape t.position t.extent scs v.window ∧
        viewRead v none = .ok (.sel (windowSel v.window))) ∨
      (v.valid = false ∧ EmptyAxis stop ref.dims t.position t.extent scs ∧ ∀ ix, viewRead v ix = .ok .empty)
    | .error e =>
      (e = .indexError ∧ EmptyAxis stop ref.dims t.position t.extent scs) ∨
      (e = .outOfBounds ∧ BeyondAxis stop ref.dims ref.shape t.position t.extent scs) := by
  have hcore := region_core stop ref t.position t.extent (unitsOpt t.units) scs hrank hok
  have h0 : ¬ nrefs = 0 := by omega
  have h1 : ¬ refidx ≥ nrefs := by omega
  have h2 : (!t.extent.isEmpty && t.position.length != t.extent.length) = false := by
    rcases hext with h | h <;> simp [h]
  unfold Tag.taggedData
  simp only [h0, h1, h2, if_false, Bool.false_eq_true]
  cases hc : calcSlices stop ref.dims ref.shape t.position t.extent (unitsOpt t.units) with
  | error e => rw [hc] at hcore; exact Or.inl hcore
  | ok sl =>
    rw [hc] at hcore
    simp only []
    cases hcore with
    | empty h1 h2 h3 h4 =>
      simp only [h1, Option.isNone_none, if_true]
      exact Or.inr ⟨h4, h2, fun ix => ((C06.C06_window ref.shape []).2.2.2.2 _ h4 ix).1⟩
    | exact ws h1 h3 h4 h5 h6 =>
      simp only [h1, Option.isNone_some, Bool.false_eq_true, if_false, viewIfInData, h3, h4]
      exact Or.inl ⟨trivial, trivial, h5, h6, (C06.C06_window_read ⟨ref.shape, true, ws⟩ ⟨rfl, h5⟩).1⟩
    | beyond ws h1 h2 h3 h4 =>
      simp only [h1, Option.isNone_some, Bool.false_eq_true, if_false, viewIfInData, h3]
      exact Or.inr ⟨trivial, h2⟩

/-- **Never other data.** Whenever some axis has no stored sample in its region, or the region of some axis
reaches a sample beyond the stored extent, the result is not a valid view: it is an invalid (empty) view,
`IndexError` or `OutOfBounds`. -/
theorem C08_region_refused (t : TagDesc) (nrefs refidx : Nat) (ref : Arr) (stop : SliceMode) (scs : List Rat)
    (hrank : ref.dims.length = ref.shape.length)
    (hok : AxesOK stop ref.dims t.position t.extent (unitsOpt t.units) scs)
    (href : refidx < nrefs) (hext : t.extent = [] ∨ t.extent.length = t.position.length)
    (hbad : EmptyAxis stop ref.dims t.position t.extent scs ∨
      BeyondAxis stop ref.dims ref.shape t.position t.extent scs) :
    match Tag.taggedData t nrefs refidx ref stop with
    | .ok v => v.valid = false ∧ ∀ ix, viewRead v ix = .ok .empty
    | .error e => e = .indexError ∨ e = .outOfBounds := by
  have h := C08_region t nrefs refidx ref stop scs hrank hok href hext
  cases hr : Tag.taggedData t nrefs refidx ref stop with
  | error e =>
    rw [hr] at h
    rcases h with h | h
    · exact Or.inl h.1
    · exact Or.inr h.1
  | ok v =>
    rw [hr] at h
    rcases h with ⟨_, _, _, hex, _⟩ | ⟨hv, _, hread⟩
    · have := windowsExact_not_empty hex
      rcases hbad with hb | hb
      · exact absurd hb this.1
      · exact absurd hb this.2
    · exact ⟨hv, hread⟩

/-- requests refused before any region is computed: no reference, reference index out of range
(`OutOfBounds`), position and extent of different lengths (`IncompatibleDimensions`) -/
theorem C08_tag_refusals (t : TagDesc) (nrefs refidx : Nat) (ref : Arr) (stop : SliceMode) :
    (nrefs ≤ refidx → Tag.taggedData t nrefs refidx ref stop = .error .outOfBounds) ∧
    (refidx < nrefs → t.extent ≠ [] → t.extent.length ≠ t.position.length →
      Tag.taggedData t nrefs refidx ref stop = .error .incompatibleDimensions) := by
  constructor
  · intro h
    unfold Tag.taggedData
    by_cases h0 : nrefs = 0
    · simp [h0]
    · have : refidx ≥ nrefs := h
      simp [h0, this]
  · intro h1 h2 h3
    unfold Tag.taggedData
    have h0 : ¬ nrefs = 0 := by omega
    have h1' : ¬ refidx ≥ nrefs := by omega
    have h4 : (!t.extent.isEmpty && t.position.length != t.extent.length) = true := by
      cases he : t.extent with
      | nil => exact absurd he h2
      | cons x xs =>
        have : t.position.length ≠ (x :: xs).length := by rw [← he]; exact fun h => h3 h.symm
        simpa using this
    simp only [h0, h1', h4, if_false, if_true]

/-! ## MultiTag: row selection, 1-D → 2-D promotion -/

/-- the position / extent vectors a multi-tag uses for position index `idx`: row `idx` of the positions
array (an entry of a 1-D array counts as a row of length 1) and row `idx` of the extents array when one is set,
not of length 0, and of the same shape as the positions -/
def MRow (t : MTagDesc) (idx : Nat) (position extent : List Rat) : Prop :=
  t.positions.row idx = some position ∧
  ((t.extents = none ∧ extent = []) ∨
   (∃ e, t.extents = some e ∧ e.len = 0 ∧ extent = []) ∨
   (∃ e, t.extents = some e ∧ 0 < e.len ∧ t.positions.extent = e.extent ∧ e.row idx = some extent))

theorem row_lt (a : PosArr) (i : Nat) (r : List Rat) (h : a.row i = some r) : i < a.len := by
  cases a with
  | oneD v =>
    simp only [PosArr.row, Option.map_eq_some_iff] at h
    obtain ⟨x, hx, _⟩ := h
    exact (List.getElem?_eq_some_iff.mp hx).1
  | twoD c rows =>
    simp only [PosArr.row] at h
    exact (List.getElem?_eq_some_iff.mp h).1

/-- **Row selection and promotion.** Entry `i` of a 1-D positions (extents) array is used as the vector `[p]`;
row `i` of a 2-D array as it is; `_calc_data_slices_mtag` is `_calc_data_slices` on those vectors; an index
beyond the positions or the extents is `OutOfBounds`; positions and extents of different shapes are
`IncompatibleDimensions`. -/
theorem C08_row_selection (t : MTagDesc) (data : Arr) (idx : Nat) (stop : SliceMode) :
    (∀ v i, (PosArr.oneD v).row i = (v[i]?).map fun p => [p]) ∧
    (∀ c rows i, (PosArr.twoD c rows).row i = rows[i]?) ∧
    (∀ position extent, MRow t idx position extent →
      calcSlicesMtag t data idx stop =
        calcSlices stop data.dims data.shape position extent (unitsOpt t.units)) ∧
    (t.positions.len ≤ idx → calcSlicesMtag t data idx stop = .error .outOfBounds) ∧
    (∀ e, t.extents = some e → 0 < e.len → e.len ≤ idx → calcSlicesMtag t data idx stop = .error .outOfBounds) ∧
    (∀ e, t.extents = some e → 0 < e.len → idx < e.len → idx < t.positions.len →
      t.positions.extent ≠ e.extent → calcSlicesMtag t data idx stop = .error .incompatibleDimensions) := by
  refine ⟨fun _ _ => rfl, fun _ _ _ => rfl, ?_, ?_, ?_, ?_⟩
  · intro position extent ⟨hrow, hext⟩
    have hlt := row_lt _ _ _ hrow
    have hp : ¬ (t.positions.len = 0 ∨ idx ≥ t.positions.len) := by omega
    unfold calcSlicesMtag
    rcases hext with ⟨he, hx⟩ | ⟨e, he, hl, hx⟩ | ⟨e, he, hl, hsame, hr⟩
    · subst hx
      simp [hp, he, extBeyond, extMismatch, extentRow, hrow]
    · subst hx
      simp [hp, he, hl, extBeyond, extMismatch, extentRow, hrow]
    · have hlt2 := row_lt _ _ _ hr
      have : ¬ idx ≥ e.len := by omega
      simp [hp, he, hl, extBeyond, extMismatch, extentRow, hrow, hr, hsame, this]
  · intro h
    unfold calcSlicesMtag
    have : t.positions.len = 0 ∨ idx ≥ t.positions.len := Or.inr h
    simp [this]
  · intro e he hl hle
    unfold calcSlicesMtag
    by_cases hp : t.positions.len = 0 ∨ idx ≥ t.positions.len
    · simp [hp]
    · have : idx ≥ e.len := hle
      simp [hp, he, extBeyond, hl, this]
  · intro e he hl hlt hlt2 hne
    unfold calcSlicesMtag
    have hp : ¬ (t.positions.len = 0 ∨ idx ≥ t.positions.len) := by omega
    have : ¬ idx ≥ e.len := by omega
    simp [hp, he, extBeyond, extMismatch, hl, this, hne]

/-- **Region theorem (MultiTag).** For position index `idx` with vectors `position`, `extent` (`MRow`), under
the same hypotheses as for a tag: a valid view has exactly the windows of the region; an invalid view reads
empty and some axis has no sample in its region or its region runs past the stored data; `IndexError` only
when some axis has no sample in its region. -/
theorem C08_region_multi (t : MTagDesc) (nrefs idx refidx : Nat) (ref : Arr) (stop : SliceMode)
    (position extent scs : List Rat) (hrow : MRow t idx position extent)
    (hrank : ref.dims.length = ref.shape.length)
    (hok : AxesOK stop ref.dims position extent (unitsOpt t.units) scs) (href : refidx < nrefs) :
    match MultiTag.taggedData t nrefs idx refidx ref stop with
    | .ok v =>
      (v.valid = true ∧ v.parent = ref.shape ∧ WindowsIn v.window ref.shape ∧
        WindowsExact stop ref.dims ref.shape position extent scs v.window ∧
        viewRead v none = .ok (.sel (windowSel v.window))) ∨
      (v.valid = false ∧ (EmptyAxis stop ref.dims position extent scs ∨
          BeyondAxis stop ref.dims ref.shape position extent scs) ∧ ∀ ix, viewRead v ix = .ok .empty)
    | .error e => e = .indexError ∧ EmptyAxis stop ref.dims position extent scs := by
  have hcore := region_core stop ref position extent (unitsOpt t.units) scs hrank hok
  have hsel := (C08_row_selection t ref idx stop).2.2.1 position extent hrow
  have hlt := row_lt _ _ _ hrow.1
  have hb : extBeyond t.extents idx = false := by
    rcases hrow.2 with ⟨he, _⟩ | ⟨e, he, hl, _⟩ | ⟨e, he, hl, _, hr⟩
    · simp [he, extBeyond]
    · simp [he, extBeyond, hl]
    · have := row_lt _ _ _ hr
      have : ¬ idx ≥ e.len := by omega
      simp [he, extBeyond, this]
  have h0 : ¬ nrefs = 0 := by omega
  have h1 : ¬ refidx ≥ nrefs := by omega
  have h2 : ¬ (idx ≥ t.positions.len ∨ extBeyond t.extents idx = true) := by
    rw [hb]; simp; omega
  unfold MultiTag.taggedData
  simp only [h0, h1, h2, if_false, hsel]
  cases hc : calcSlices stop ref.dims ref.shape position extent (unitsOpt t.units) with
  | error e => rw [hc] at hcore; exact hcore
  | ok sl =>
    rw [hc] at hcore
    simp only []
    cases hcore with
    | empty h1 h2 h3 h4 =>
      exact Or.inr ⟨h4, Or.inl h2, fun ix => ((C06.C06_window ref.shape []).2.2.2.2 _ h4 ix).1⟩
    | exact ws h1 h3 h4 h5 h6 =>
      rw [h4]
      exact Or.inl ⟨rfl, rfl, h5, h6, (C06.C06_window_read ⟨ref.shape, true, ws⟩ ⟨rfl, h5⟩).1⟩
    | beyond ws h1 h2 h3 h4 =>
      exact Or.inr ⟨h4, Or.inr h2, fun ix => ((C06.C06_window ref.shape []).2.2.2.2 _ h4 ix).1⟩

/-! ## feature data by link type -/

theorem fullWindows_eq (shape : List Nat) :
    fullWindows shape = (shape.map fun (n : Nat) => (((0 : Int), (n : Int)) : Win)).map some := by
  simp [fullWindows]

theorem full_windowsIn (shape : List Nat) :
    WindowsIn (shape.map fun (n : Nat) => (((0 : Int), (n : Int)) : Win)) shape := by
  induction shape with
  | nil => trivial
  | cons n shape ih => exact ⟨⟨by simp, by simp, by simp⟩, ih⟩

/-- the whole array as a view -/
theorem full_view (shape : List Nat) :
    mkView shape (some (fullWindows shape)) =
      ⟨shape, true, shape.map fun (n : Nat) => (((0 : Int), (n : Int)) : Win)⟩ := by
  rw [fullWindows_eq]
  exact mkView_ok shape _ (full_windowsIn shape)

/-- **Feature data of a Tag.** `tagged`: the same region of the feature array — a valid view with exactly
the region's windows, or `OutOfBounds` (some axis empty or running past the data) / `IndexError` (some axis
empty); `untagged` and `indexed` (a tag has a single position): the whole array. -/
theorem C08_feature_tag (t : TagDesc) (nfeats : Nat) (data : Arr) (stop : SliceMode) (scs : List Rat)
    (hf : 0 < nfeats) :
    (data.dims.length = data.shape.length →
      AxesOK stop data.dims t.position t.extent (unitsOpt t.units) scs →
      match Tag.featureData t nfeats .tagged data stop with
      | .ok v => v.valid = true ∧ v.parent = data.shape ∧ WindowsIn v.window data.shape ∧
          WindowsExact stop data.dims data.shape t.position t.extent scs v.window
      | .error e =>
        (e = .indexError ∧ EmptyAxis stop data.dims t.position t.extent scs) ∨
        (e = .outOfBounds ∧ (EmptyAxis stop data.dims t.position t.extent scs ∨
          BeyondAxis stop data.dims data.shape t.position t.extent scs))) ∧
    Tag.featureData t nfeats .untagged data stop =
      .ok ⟨data.shape, true, data.shape.map fun (n : Nat) => (((0 : Int), (n : Int)) : Win)⟩ ∧
    Tag.featureData t nfeats .indexed data stop =
      .ok ⟨data.shape, true, data.shape.map fun (n : Nat) => (((0 : Int), (n : Int)) : Win)⟩ ∧
    Tag.featureData t 0 .tagged data stop = .error .outOfBounds := by
  have h0 : ¬ nfeats = 0 := by omega
  refine ⟨?_, ?_, ?_, ?_⟩
  · intro hrank hok
    have hcore := region_core stop data t.position t.extent (unitsOpt t.units) scs hrank hok
    unfold Tag.featureData
    simp only [h0, if_false]
    cases hc : calcSlices stop data.dims data.shape t.position t.extent (unitsOpt t.units) with
    | error e => rw [hc] at hcore; exact Or.inl hcore
    | ok sl =>
      rw [hc] at hcore
      simp only []
      cases hcore with
      | empty h1 h2 h3 h4 => simp only [viewIfInData, h3]; exact Or.inr ⟨trivial, Or.inl h2⟩
      | exact ws h1 h3 h4 h5 h6 => simp only [viewIfInData, h3, h4]; exact ⟨trivial, trivial, h5, h6⟩
      | beyond ws h1 h2 h3 h4 => simp only [viewIfInData, h3]; exact Or.inr ⟨trivial, Or.inr h2⟩
  · simp only [Tag.featureData, h0, if_false, full_view]
  · simp only [Tag.featureData, h0, if_false, full_view]
  · simp [Tag.featureData]

/-- **Feature data of a MultiTag.** `indexed`: row `idx` of the feature array (all of the other axes) when
`idx < rows`, `OutOfBounds` iff `idx ≥ rows`; `untagged`: the whole array; `tagged`: the region of position
`idx` in the feature array, as for `C08_region_multi` but with `OutOfBounds` where that returns an invalid
view. -/
theorem C08_feature_multi (t : MTagDesc) (nfeats idx : Nat) (stop : SliceMode) (hf : 0 < nfeats) :
    (∀ rows rest dims, idx < rows →
      MultiTag.featureData t nfeats idx .indexed ⟨rows :: rest, dims⟩ stop =
        .ok ⟨rows :: rest, true, ((idx : Int), (idx : Int) + 1) ::
          rest.map fun (n : Nat) => (((0 : Int), (n : Int)) : Win)⟩) ∧
    (∀ rows rest dims, rows ≤ idx →
      MultiTag.featureData t nfeats idx .indexed ⟨rows :: rest, dims⟩ stop = .error .outOfBounds) ∧
    (∀ data : Arr, MultiTag.featureData t nfeats idx .untagged data stop =
      .ok ⟨data.shape, true, data.shape.map fun (n : Nat) => (((0 : Int), (n : Int)) : Win)⟩) ∧
    (∀ (data : Arr) (position extent scs : List Rat), MRow t idx position extent →
      data.dims.length = data.shape.length →
      AxesOK stop data.dims position extent (unitsOpt t.units) scs →
      match MultiTag.featureData t nfeats idx .tagged data stop with
      | .ok v => v.valid = true ∧ v.parent = data.shape ∧ WindowsIn v.window data.shape ∧
          WindowsExact stop data.dims data.shape position extent scs v.window
      | .error e =>
        (e = .indexError ∧ EmptyAxis stop data.dims position extent scs) ∨
        (e = .outOfBounds ∧ (EmptyAxis stop data.dims position extent scs ∨
          BeyondAxis stop data.dims data.shape position extent scs))) := by
  have h0 : ¬ nfeats = 0 := by omega
  refine ⟨?_, ?_, ?_, ?_⟩
  · intro rows rest dims hlt
    have hw : WindowsIn (((idx : Int), (idx : Int) + 1) ::
        rest.map fun (n : Nat) => (((0 : Int), (n : Int)) : Win)) (rows :: rest) :=
      ⟨⟨by simp, by simp, by simp; omega⟩, full_windowsIn rest⟩
    have hsl : (some ((idx : Int), (idx : Int) + 1) :: fullWindows rest) =
        ((((idx : Int), (idx : Int) + 1) : Win) ::
          rest.map fun (n : Nat) => (((0 : Int), (n : Int)) : Win)).map some := by
      simp [fullWindows]
    have hin : slicesInData (rows :: rest) (some ((idx : Int), (idx : Int) + 1) :: fullWindows rest) = .ok true := by
      rw [hsl]
      simp only [slicesInData, allSome_map_some]
      rw [npAllLe_eq _ _ (by simp)]
      rw [windowsIn_stopsIn _ _ hw]
    have : ¬ idx > rows := by omega
    simp only [MultiTag.featureData, h0, if_false, gen_indexedRowBeyond, decide_eq_true_eq, this, viewIfInData, hin]
    rw [hsl, mkView_ok _ _ hw]
  · intro rows rest dims hle
    by_cases hgt : idx > rows
    · simp [MultiTag.featureData, h0, gen_indexedRowBeyond, hgt]
    · have heq : idx = rows := by omega
      subst heq
      have hsl : (some ((idx : Int), (idx : Int) + 1) :: fullWindows rest) =
          ((((idx : Int), (idx : Int) + 1) : Win) ::
            rest.map fun (n : Nat) => (((0 : Int), (n : Int)) : Win)).map some := by
        simp [fullWindows]
      have hin : slicesInData (idx :: rest) (some ((idx : Int), (idx : Int) + 1) :: fullWindows rest) = .ok false := by
        rw [hsl]
        simp only [slicesInData, allSome_map_some]
        rw [npAllLe_eq _ _ (by simp)]
        simp [stopsIn]
      simp only [MultiTag.featureData, h0, if_false, gen_indexedRowBeyond, decide_eq_true_eq, hgt, viewIfInData, hin]
  · intro data
    simp only [MultiTag.featureData, h0, if_false, full_view]
  · intro data position extent scs hrow hrank hok
    have hcore := region_core stop data position extent (unitsOpt t.units) scs hrank hok
    have hsel := (C08_row_selection t data idx stop).2.2.1 position extent hrow
    unfold MultiTag.featureData
    simp only [h0, if_false, hsel]
    cases hc : calcSlices stop data.dims data.shape position extent (unitsOpt t.units) with
    | error e => rw [hc] at hcore; exact Or.inl hcore
    | ok sl =>
      rw [hc] at hcore
      simp only []
      cases hcore with
      | empty h1 h2 h3 h4 => simp only [viewIfInData, h3]; exact Or.inr ⟨trivial, Or.inl h2⟩
      | exact ws h1 h3 h4 h5 h6 => simp only [viewIfInData, h3, h4]; exact ⟨trivial, trivial, h5, h6⟩
      | beyond ws h1 h2 h3 h4 => simp only [viewIfInData, h3]; exact Or.inr ⟨trivial, Or.inr h2⟩

/-! ## special shapes of the tag: extent of zeros, no position, fewer units than positions -/

/-- **An extent of zeros is no extent.** A tag whose extent entries are all zero (one per position entry) returns
exactly what the same tag without an extent returns — tagged data and feature data, every link type, both stop
rules, every array. -/
theorem C08_zero_extent (t : TagDesc) (nrefs refidx nfeats : Nat) (link : LinkType) (arr : Arr) (stop : SliceMode)
    (hz : ∀ e, e ∈ t.extent → e = 0) (hlen : t.extent.length = t.position.length) :
    Tag.taggedData t nrefs refidx arr stop = Tag.taggedData ⟨t.position, [], t.units⟩ nrefs refidx arr stop ∧
    Tag.featureData t nfeats link arr stop = Tag.featureData ⟨t.position, [], t.units⟩ nfeats link arr stop := by
  have hc := calcSlices_zero_extent stop arr.dims arr.shape t.position t.extent (unitsOpt t.units) hz
  have h2 : (!t.extent.isEmpty && t.position.length != t.extent.length) = false := by simp [hlen]
  constructor
  · simp only [Tag.taggedData, h2, hc, List.isEmpty_nil, Bool.not_true, Bool.false_and]
  · simp only [Tag.featureData, hc]

/-- **Without a position the whole array is tagged**: every axis is taken whole, whatever the descriptors and units. -/
theorem C08_no_position_whole (t : TagDesc) (nrefs refidx : Nat) (ref : Arr) (stop : SliceMode)
    (hp : t.position = []) (he : t.extent = []) (href : refidx < nrefs)
    (hrank : ref.dims.length = ref.shape.length) :
    Tag.taggedData t nrefs refidx ref stop =
      .ok ⟨ref.shape, true, ref.shape.map fun (n : Nat) => (((0 : Int), (n : Int)) : Win)⟩ := by
  have hc := calcSlices_no_position stop ref.dims ref.shape t.extent (unitsOpt t.units) hrank
  have h0 : ¬ nrefs = 0 := by omega
  have h1 : ¬ refidx ≥ nrefs := by omega
  have hin : slicesInData ref.shape (fullWindows ref.shape) = .ok true := by
    rw [fullWindows_eq]
    simp only [slicesInData, allSome_map_some]
    rw [npAllLe_eq _ _ (by simp)]
    rw [windowsIn_stopsIn _ _ (full_windowsIn ref.shape)]
  have hall : (allSome (fullWindows ref.shape)).isNone = false := by
    rw [fullWindows_eq, allSome_map_some]
    rfl
  rw [he] at hc
  simp only [Tag.taggedData, h0, h1, if_false, he, List.isEmpty_nil, Bool.not_true, Bool.false_and,
    Bool.false_eq_true]
  rw [hp, hc]
  simp only [hall, Bool.false_eq_true, if_false, viewIfInData, hin, full_view]

/-- **Fewer units than positions: never data.** A tag that carries units, but fewer than there are axes with a
position, is refused with an error on every array (`units[idx]` is an `IndexError` unless an earlier axis failed). -/
theorem C08_units_short_refused (t : TagDesc) (nrefs refidx : Nat) (ref : Arr) (stop : SliceMode)
    (hu : t.units ≠ []) (h1 : t.units.length < t.position.length) (h2 : t.units.length < ref.dims.length) :
    ∃ e, Tag.taggedData t nrefs refidx ref stop = .error e := by
  have hopt : unitsOpt t.units = some t.units := by
    cases hus : t.units with
    | nil => exact absurd hus hu
    | cons u us => simp [unitsOpt]
  obtain ⟨e, he⟩ := calcSlices_units_short stop ref.dims ref.shape t.position t.extent t.units h1 h2
  unfold Tag.taggedData
  split_ifs
  · exact ⟨_, rfl⟩
  · exact ⟨_, rfl⟩
  · exact ⟨_, rfl⟩
  · rw [hopt, he]
    exact ⟨e, rfl⟩

/-! ## addressing the reference / the feature: index (creation order, negative from the end), id, name -/

/-- **Reference lookup** (`LinkContainer.__getitem__`). The references are kept in the order they were appended:
index `i` is the `i`-th, index `-(k+1)` the one `k` places before the end, anything else `IndexError`; with
pairwise distinct ids the id of entry `i` finds entry `i`; with pairwise distinct names the name of entry `i` finds
entry `i` (unless the name parses as a UUID and is the id of a linked entity: ids are tried first); a text that is
neither an id nor a name of a linked entity is `KeyError`, and so is any other object; an `ok` answer is always an
index of the list. -/
theorem C08_reference_lookup (refs : List RefEnt) :
    (∀ i, i < refs.length → refLookup refs (.idx (i : Int)) = .ok i) ∧
    (∀ k, k < refs.length → refLookup refs (.idx (-((k : Int) + 1))) = .ok (refs.length - 1 - k)) ∧
    (∀ i : Int, ((refs.length : Int) ≤ i ∨ i < -(refs.length : Int)) → refLookup refs (.idx i) = .error .indexError) ∧
    (refs.Pairwise (fun a b => a.id ≠ b.id) → ∀ i r, refs[i]? = some r → refLookup refs (.text r.id true) = .ok i) ∧
    (refs.Pairwise (fun a b => a.name ≠ b.name) → ∀ i r uuid, refs[i]? = some r →
      (uuid = true → ∀ r', r' ∈ refs → r'.id ≠ r.name) → refLookup refs (.text r.name uuid) = .ok i) ∧
    (∀ s uuid, (uuid = true → ∀ r, r ∈ refs → r.id ≠ s) → (∀ r, r ∈ refs → r.name ≠ s) →
      refLookup refs (.text s uuid) = .error .keyError) ∧
    refLookup refs .other = .error .keyError ∧
    (∀ key k, refLookup refs key = .ok k → k < refs.length) := by
  refine ⟨fun i h => posOf_nat _ _ h, fun k h => posOf_neg _ _ h, ?_, ?_, ?_, ?_, rfl, refLookup_lt refs⟩
  · intro i h
    rcases h with h | h
    · exact posOf_beyond _ _ h
    · exact posOf_before _ _ h
  · intro hd i r hr
    have := findIdx?_of_distinct refs (fun r => r.id) hd i r hr
    simp only [refLookup, if_true, this]
  · intro hd i r uuid hr hno
    have hn := findIdx?_of_distinct refs (fun r => r.name) hd i r hr
    have hid : (if uuid = true then refs.findIdx? (fun r' => r'.id == r.name) else none) = none := by
      cases uuid with
      | false => rfl
      | true =>
        simp only [if_true, List.findIdx?_eq_none_iff]
        intro x hx
        simpa using hno rfl x hx
    simp only [refLookup, hid, hn]
  · intro s uuid hid hname
    have h1 : (if uuid = true then refs.findIdx? (fun r' => r'.id == s) else none) = none := by
      cases uuid with
      | false => rfl
      | true =>
        simp only [if_true, List.findIdx?_eq_none_iff]
        intro x hx
        simpa using hid rfl x hx
    have h2 : refs.findIdx? (fun r' => r'.name == s) = none := by
      simp only [List.findIdx?_eq_none_iff]
      intro x hx
      simpa using hname x hx
    simp only [refLookup, h1, h2]

/-- **Tagged data by key.** Whatever key finds reference `k` — its index, a negative index, its id, its name —
`Tag.tagged_data` / `MultiTag.tagged_data` is the region computation on *that* array (so the region theorems apply
to it, and two keys that find the same reference give the same result); without references: `OutOfBounds`; an index
`≥ len(references)`: `OutOfBounds` from a tag; a key that finds nothing: the lookup's error (`KeyError`,
`IndexError`). -/
theorem C08_tagged_by_key (t : TagDesc) (mt : MTagDesc) (refs : List RefEnt) (key : Key) (posidx : Nat)
    (stop : SliceMode) :
    (∀ k r, refLookup refs key = .ok k → refs[k]? = some r →
      Tag.taggedDataBy t refs key stop = Tag.taggedData t refs.length k r.arr stop ∧
      MultiTag.taggedDataBy mt refs posidx key stop = MultiTag.taggedData mt refs.length posidx k r.arr stop) ∧
    (refs = [] → Tag.taggedDataBy t refs key stop = .error .outOfBounds ∧
      MultiTag.taggedDataBy mt refs posidx key stop = .error .outOfBounds) ∧
    (∀ i : Int, (refs.length : Int) ≤ i → Tag.taggedDataBy t refs (.idx i) stop = .error .outOfBounds) ∧
    (∀ e, refs ≠ [] → refLookup refs key = .error e → keyBeyond refs.length key = false →
      Tag.taggedDataBy t refs key stop = .error e) := by
  refine ⟨?_, ?_, ?_, ?_⟩
  · intro k r hk hr
    have hlt := refLookup_lt refs key k hk
    have h0 : ¬ refs.length = 0 := by omega
    have hb : keyBeyond refs.length key = false := by
      cases key with
      | idx i =>
        have := posOf_spec refs.length i
        simp only [refLookup] at hk
        rw [hk] at this
        simp only [keyBeyond, decide_eq_false_iff_not]
        omega
      | text s u => rfl
      | other => rfl
    constructor
    · simp only [Tag.taggedDataBy, h0, if_false, hb, Bool.false_eq_true, hk, hr]
    · unfold MultiTag.taggedDataBy MultiTag.taggedData
      simp only [h0, if_false, hk, hr]
      split_ifs <;> rfl
  · intro h
    subst h
    simp [Tag.taggedDataBy, MultiTag.taggedDataBy]
  · intro i hi
    unfold Tag.taggedDataBy
    by_cases h0 : refs.length = 0
    · simp [h0]
    · have : keyBeyond refs.length (.idx i) = true := by simpa [keyBeyond] using hi
      simp [h0, this]
  · intro e hne he hb
    have h0 : ¬ refs.length = 0 := by
      intro h
      exact hne (List.length_eq_zero_iff.mp h)
    simp only [Tag.taggedDataBy, h0, if_false, hb, Bool.false_eq_true, he]

/-- **Region theorem by key**: `C08_region` for a reference addressed by any key that finds it. -/
theorem C08_region_by_key (t : TagDesc) (refs : List RefEnt) (key : Key) (k : Nat) (r : RefEnt) (stop : SliceMode)
    (scs : List Rat) (hk : refLookup refs key = .ok k) (hr : refs[k]? = some r)
    (hrank : r.arr.dims.length = r.arr.shape.length)
    (hok : AxesOK stop r.arr.dims t.position t.extent (unitsOpt t.units) scs)
    (hext : t.extent = [] ∨ t.extent.length = t.position.length) :
    match Tag.taggedDataBy t refs key stop with
    | .ok v =>
      (v.valid = true ∧ v.parent = r.arr.shape ∧ WindowsIn v.window r.arr.shape ∧
        WindowsExact stop r.arr.dims r.arr.shape t.position t.extent scs v.window ∧
        viewRead v none = .ok (.sel (windowSel v.window))) ∨
      (v.valid = false ∧ EmptyAxis stop r.arr.dims t.position t.extent scs ∧ ∀ ix, viewRead v ix = .ok .empty)
    | .error e =>
      (e = .indexError ∧ EmptyAxis stop r.arr.dims t.position t.extent scs) ∨
      (e = .outOfBounds ∧ BeyondAxis stop r.arr.dims r.arr.shape t.position t.extent scs) := by
  rw [((C08_tagged_by_key t ⟨.oneD [], none, []⟩ refs key 0 stop).1 k r hk hr).1]
  exact C08_region t refs.length k r.arr stop scs hrank hok (refLookup_lt refs key k hk) hext

/-- **Feature lookup** (`FeatureContainer.__getitem__` and the fallback of `feature_data`). Index as for
references; the id of feature `i` (ids pairwise distinct) finds feature `i`; the name or id of a data array finds the
*first* feature on that array (when the text is no feature's id); a text that is none of these is `KeyError`; another
object is `TypeError`; an `ok` answer is an index of the list. -/
theorem C08_feature_lookup (feats : List FeatEnt) :
    (∀ i, i < feats.length → featLookup feats (.idx (i : Int)) = .ok i) ∧
    (∀ k, k < feats.length → featLookup feats (.idx (-((k : Int) + 1))) = .ok (feats.length - 1 - k)) ∧
    (∀ i : Int, ((feats.length : Int) ≤ i ∨ i < -(feats.length : Int)) →
      featLookup feats (.idx i) = .error .indexError) ∧
    (feats.Pairwise (fun a b => a.id ≠ b.id) → ∀ i f uuid, feats[i]? = some f →
      featLookup feats (.text f.id uuid) = .ok i) ∧
    (∀ s uuid k, (∀ f, f ∈ feats → f.id ≠ s) →
      feats.findIdx? (fun f => f.dataName == s || f.dataId == s) = some k → featLookup feats (.text s uuid) = .ok k) ∧
    (feats.Pairwise (fun a b => a.dataName ≠ b.dataName) → ∀ i f uuid, feats[i]? = some f →
      (∀ g, g ∈ feats → g.id ≠ f.dataName ∧ g.dataId ≠ f.dataName) →
      featLookup feats (.text f.dataName uuid) = .ok i) ∧
    (∀ s uuid, (∀ f, f ∈ feats → f.id ≠ s ∧ f.dataName ≠ s ∧ f.dataId ≠ s) →
      featLookup feats (.text s uuid) = .error .keyError) ∧
    featLookup feats .other = .error .typeError ∧
    (∀ key k, featLookup feats key = .ok k → k < feats.length) := by
  have hnone : ∀ s, (∀ f, f ∈ feats → f.id ≠ s) → feats.findIdx? (fun f => f.id == s) = none := by
    intro s h
    simp only [List.findIdx?_eq_none_iff]
    intro x hx
    simpa using h x hx
  refine ⟨fun i h => posOf_nat _ _ h, fun k h => posOf_neg _ _ h, ?_, ?_, ?_, ?_, ?_, rfl, featLookup_lt feats⟩
  · intro i h
    rcases h with h | h
    · exact posOf_beyond _ _ h
    · exact posOf_before _ _ h
  · intro hd i f uuid hf
    have := findIdx?_of_distinct feats (fun f => f.id) hd i f hf
    simp only [featLookup, this]
  · intro s uuid k hid hk
    simp only [featLookup, hnone s hid, hk]
  · intro hd i f uuid hf hno
    have h1 := hnone f.dataName (fun g hg => (hno g hg).1)
    have h2 : feats.findIdx? (fun g => g.dataName == f.dataName || g.dataId == f.dataName) = some i := by
      have h3 := findIdx?_of_distinct feats (fun f => f.dataName) hd i f hf
      have : ∀ g, g ∈ feats → (g.dataName == f.dataName || g.dataId == f.dataName) = (g.dataName == f.dataName) := by
        intro g hg
        have := (hno g hg).2
        simp [this]
      rw [← h3]
      exact findIdx?_congr_mem feats _ _ this
    simp only [featLookup, h1, h2]
  · intro s uuid h
    have h1 := hnone s (fun f hf => (h f hf).1)
    have h2 : feats.findIdx? (fun f => f.dataName == s || f.dataId == s) = none := by
      simp only [List.findIdx?_eq_none_iff]
      intro x hx
      have := h x hx
      simp [this.2.1, this.2.2]
    simp only [featLookup, h1, h2]

/-- **Feature data by key.** Whatever key finds feature `k`, `feature_data` follows the link type and reads the
data array of *that* feature (`C08_feature_tag` / `C08_feature_multi` then say what that is); without features:
`OutOfBounds`; a key that finds nothing: the lookup's error. -/
theorem C08_feature_by_key (t : TagDesc) (mt : MTagDesc) (feats : List FeatEnt) (key : Key) (posidx : Nat)
    (stop : SliceMode) :
    (∀ k f, featLookup feats key = .ok k → feats[k]? = some f →
      Tag.featureDataBy t feats key stop = Tag.featureData t feats.length f.link f.data stop ∧
      MultiTag.featureDataBy mt feats posidx key stop =
        MultiTag.featureData mt feats.length posidx f.link f.data stop) ∧
    (feats = [] → Tag.featureDataBy t feats key stop = .error .outOfBounds ∧
      MultiTag.featureDataBy mt feats posidx key stop = .error .outOfBounds) ∧
    (∀ e, feats ≠ [] → featLookup feats key = .error e →
      Tag.featureDataBy t feats key stop = .error e ∧ MultiTag.featureDataBy mt feats posidx key stop = .error e) := by
  refine ⟨?_, ?_, ?_⟩
  · intro k f hk hf
    have hlt := featLookup_lt feats key k hk
    have h0 : ¬ feats.length = 0 := by omega
    constructor
    · simp only [Tag.featureDataBy, h0, if_false, hk, hf]
    · simp only [MultiTag.featureDataBy, h0, if_false, hk, hf]
  · intro h
    subst h
    simp [Tag.featureDataBy, MultiTag.featureDataBy]
  · intro e hne he
    have h0 : ¬ feats.length = 0 := by
      intro h
      exact hne (List.length_eq_zero_iff.mp h)
    constructor
    · simp only [Tag.featureDataBy, h0, if_false, he]
    · simp only [MultiTag.featureDataBy, h0, if_false, he]

/-! ## the statement without `Separated` is false (C07's tolerance band, by design) -/

/-- the one-axis statement without the tolerance hypotheses -/
def C08_axis_full : Prop :=
  ∀ (stop : SliceMode) (dim : DimDesc) (p : Rat) (e? : Option Rat) (unit : Option Str) (sc : Rat),
    DimOK dim → UnitRel unit dim sc →
    match axisSlice stop dim p e? unit with
    | .ok w => AxisSpec dim (regionOf stop p e? sc) w
    | .error err => err = .indexError ∧ ∀ i, InDom (dimDom dim) i → ¬ InRegion dim (regionOf stop p e? sc) i

/-- **Off the band, the full statement holds.** `OffBandAt dim x` is the condition on an end point alone: measured
in samples from the first one (`X = (x − offset) / interval`; `x` itself on a set dimension) `|X| ≤ 10¹¹` and `|X|` is
an integer or lies farther than `atol + rtol·|k|` (the generated `np.isclose` tolerances) from each of its two
neighbouring integers `k`; nothing is asked on a range dimension.  It implies C07's `Separated` hypothesis for every
sample, every sample coordinate (index `≤ 10¹¹`) satisfies it, and under it — for both end points of the scaled
region — the one-axis statement of `C08_axis_full` holds: this is the precise hypothesis, and
`C08_axis_full_counterexample` shows the statement fails strictly inside the band. -/
theorem C08_axis_off_band :
    (∀ dim x, OffBandAt dim x → SepAt dim x) ∧
    (∀ dim, DimOK dim → ∀ k : Nat, k ≤ 100000000000 → OffBandAt dim (dimCoord dim k)) ∧
    (∀ ticks u x, OffBandAt (.range ticks u) x) ∧
    (∀ (stop : SliceMode) (dim : DimDesc) (p : Rat) (e? : Option Rat) (unit : Option Str) (sc : Rat),
      DimOK dim → UnitRel unit dim sc →
      OffBandAt dim (regionOf stop p e? sc).s → OffBandAt dim (regionOf stop p e? sc).e →
      match axisSlice stop dim p e? unit with
      | .ok w => AxisSpec dim (regionOf stop p e? sc) w
      | .error err => err = .indexError ∧
          ∀ i, InDom (dimDom dim) i → ¬ InRegion dim (regionOf stop p e? sc) i) := by
  refine ⟨sepAt_of_offBandAt, offBandAt_on_sample, fun _ _ _ => trivial, ?_⟩
  intro stop dim p e? unit sc hd hu hs he
  exact C08_axis stop dim p e? unit sc hd hu (sepAt_of_offBandAt _ _ hs) (sepAt_of_offBandAt _ _ he)

/-- **Region theorem off the band** (Tag; the multi-tag and feature forms follow the same way through
`axesOK_of_offBand`): `C08_region` with the checkable per-axis hypothesis `AxesOffBand` — unit relation, descriptor
inside C07, both end points of every axis `OffBandAt` — in place of `AxesOK`. -/
theorem C08_region_off_band (t : TagDesc) (nrefs refidx : Nat) (ref : Arr) (stop : SliceMode) (scs : List Rat)
    (hrank : ref.dims.length = ref.shape.length)
    (hok : AxesOffBand stop ref.dims t.position t.extent (unitsOpt t.units) scs)
    (href : refidx < nrefs) (hext : t.extent = [] ∨ t.extent.length = t.position.length) :
    match Tag.taggedData t nrefs refidx ref stop with
    | .ok v =>
      (v.valid = true ∧ v.parent = ref.shape ∧ WindowsIn v.window ref.shape ∧
        WindowsExact stop ref.dims ref.shape t.position t.extent scs v.window ∧
        viewRead v none = .ok (.sel (windowSel v.window))) ∨
      (v.valid = false ∧ EmptyAxis stop ref.dims t.position t.extent scs ∧ ∀ ix, viewRead v ix = .ok .empty)
    | .error e =>
      (e = .indexError ∧ EmptyAxis stop ref.dims t.position t.extent scs) ∨
      (e = .outOfBounds ∧ BeyondAxis stop ref.dims ref.shape t.position t.extent scs) :=
  C08_region t nrefs refidx ref stop scs hrank (axesOK_of_offBand hok) href hext

/-- **Region theorem off the band (MultiTag)**: `C08_region_multi` under `AxesOffBand`. -/
theorem C08_region_multi_off_band (t : MTagDesc) (nrefs idx refidx : Nat) (ref : Arr) (stop : SliceMode)
    (position extent scs : List Rat) (hrow : MRow t idx position extent)
    (hrank : ref.dims.length = ref.shape.length)
    (hok : AxesOffBand stop ref.dims position extent (unitsOpt t.units) scs) (href : refidx < nrefs) :
    match MultiTag.taggedData t nrefs idx refidx ref stop with
    | .ok v =>
      (v.valid = true ∧ v.parent = ref.shape ∧ WindowsIn v.window ref.shape ∧
        WindowsExact stop ref.dims ref.shape position extent scs v.window ∧
        viewRead v none = .ok (.sel (windowSel v.window))) ∨
      (v.valid = false ∧ (EmptyAxis stop ref.dims position extent scs ∨
          BeyondAxis stop ref.dims ref.shape position extent scs) ∧ ∀ ix, viewRead v ix = .ok .empty)
    | .error e => e = .indexError ∧ EmptyAxis stop ref.dims position extent scs :=
  C08_region_multi t nrefs idx refidx ref stop position extent scs hrow hrank (axesOK_of_offBand hok) href

/-- **Regions between samples and regions on samples.** A region whose two end points are sample coordinates of the
descriptor (indices `≤ 10¹¹`: e.g. position = `position_at ka`, extent = the distance to `position_at kb`, in the
dimension's unit) always meets the hypotheses, whatever the offset and the interval. -/
theorem C08_axis_on_samples (stop : SliceMode) (dim : DimDesc) (p : Rat) (e? : Option Rat) (unit : Option Str)
    (sc : Rat) (ka kb : Nat) (hd : DimOK dim) (hu : UnitRel unit dim sc)
    (hka : ka ≤ 100000000000) (hkb : kb ≤ 100000000000)
    (hs : (regionOf stop p e? sc).s = dimCoord dim ka) (he : (regionOf stop p e? sc).e = dimCoord dim kb) :
    match axisSlice stop dim p e? unit with
    | .ok w => AxisSpec dim (regionOf stop p e? sc) w
    | .error err => err = .indexError ∧ ∀ i, InDom (dimDom dim) i → ¬ InRegion dim (regionOf stop p e? sc) i := by
  refine C08_axis_off_band.2.2.2 stop dim p e? unit sc hd hu ?_ ?_
  · rw [hs]; exact offBandAt_on_sample dim hd ka hka
  · rw [he]; exact offBandAt_on_sample dim hd kb hkb

/-- interval 1, offset 0, position 3 + 2⁻³⁰, no extent: the code selects sample 3 (inside the `np.isclose`
band), whose coordinate 3 is not the position — inherited from C07 (open finding C07-tolerance-band) -/
theorem C08_axis_full_counterexample : ¬ C08_axis_full := by
  intro h
  have h1 := h .exclusive (.sampled 0 1 none) (3 + 1 / 2 ^ 30) none none 1
    (by show (0 : Rat) < 1; norm_num) (UnitRel.noTagUnit _)
  have hv : axisSlice .exclusive (.sampled 0 1 none) (3 + 1 / 2 ^ 30) none none = .ok (some (3, 4)) := by
    decide +kernel
  rw [hv] at h1
  obtain ⟨ka, kb, ha, hb, hle, hdom, hall⟩ := h1
  have hka : ka = 3 := by omega
  have hkb : kb = 3 := by omega
  subst hka hkb
  have := (hall 3 (by intro m hm; cases hm)).mpr ⟨le_refl _, le_refl _⟩
  simp only [InRegion, regionOf, stopOf, InInterval, dimCoord, sampledCoord, sampledPositionAt] at this
  norm_num at this

/-! ## non-vacuity: the hypotheses are met by concrete, non-trivial inputs -/

/-- a 6 × 3 array: ticks 1, 2, 4, 7, 8, 10 (seconds) × three labels -/
def exArr : Arr := ⟨[6, 3], [.range [1, 2, 4, 7, 8, 10] (some "s".toList), .set 3]⟩
/-- position (2000 ms, 1), extent (5000 ms, 1) -/
def exTag : TagDesc := ⟨[2000, 1], [5000, 1], ["ms".toList, "none".toList]⟩

example : Tag.taggedData exTag 1 0 exArr .exclusive = .ok ⟨[6, 3], true, [(1, 3), (1, 2)]⟩ := by decide +kernel
example : Tag.taggedData exTag 1 0 exArr .inclusive = .ok ⟨[6, 3], true, [(1, 4), (1, 3)]⟩ := by decide +kernel
example : UnitRel (some "ms".toList) (.range [1, 2, 4, 7, 8, 10] (some "s".toList)) (1 / 1000) := by
  have h := UnitRel.scaled (.range [1, 2, 4, 7, 8, 10] (some "s".toList)) "m".toList [] "s".toList []
    (by decide) (by decide) (by decide) (by decide) (by intro n h; cases h) rfl
  have e : tenPow (expOf "m".toList - expOf []) ^ powVal [] = (1 / 1000 : Rat) := by decide +kernel
  rw [e] at h
  exact h
example : DimOK (.range [1, 2, 4, 7, 8, 10] (some "s".toList)) := by
  show AscendingList _
  unfold AscendingList
  decide +kernel
/-- a position index beyond the positions, an extent array of another shape -/
example : MultiTag.taggedData ⟨.oneD [1, 2], none, []⟩ 1 2 0 ⟨[5], [.set 5]⟩ .exclusive = .error .outOfBounds := by
  decide +kernel
example : MultiTag.taggedData ⟨.oneD [1, 2], some (.oneD [1, 2, 3]), []⟩ 1 1 0 ⟨[5], [.set 5]⟩ .exclusive =
    .error .incompatibleDimensions := by decide +kernel
/-- 1-D positions on a 1-D array: entry 1 is the vector `[2]`; extent 2, exclusive ⇒ samples 2, 3 -/
example : MultiTag.taggedData ⟨.oneD [1, 2], some (.oneD [0, 2]), []⟩ 1 1 0 ⟨[5], [.set 5]⟩ .exclusive =
    .ok ⟨[5], true, [(2, 4)]⟩ := by decide +kernel
/-- the region runs past the stored data: OutOfBounds from a tag, an invalid view from a multi-tag -/
example : Tag.taggedData ⟨[3], [4], []⟩ 1 0 ⟨[5], [.sampled 0 1 none]⟩ .exclusive = .error .outOfBounds := by
  decide +kernel
example : (MultiTag.taggedData ⟨.oneD [3], some (.oneD [4]), []⟩ 1 0 0 ⟨[5], [.sampled 0 1 none]⟩ .exclusive).toOption.map
    (·.valid) = some false := by decide +kernel

/-- addressing: two references (a dummy, then `exArr`); by name, id, negative index — the same region of `exArr`;
an index beyond: `OutOfBounds` from a tag, `IndexError` from a multi-tag; an unknown name: `KeyError` -/
def exRefs : List RefEnt :=
  [⟨"id-a".toList, "alpha".toList, ⟨[4], [.set 0]⟩⟩, ⟨"id-b".toList, "beta".toList, exArr⟩]

example : Tag.taggedDataBy exTag exRefs (.text "beta".toList false) .exclusive =
    .ok ⟨[6, 3], true, [(1, 3), (1, 2)]⟩ := by decide +kernel
example : Tag.taggedDataBy exTag exRefs (.text "id-b".toList true) .exclusive =
    .ok ⟨[6, 3], true, [(1, 3), (1, 2)]⟩ := by decide +kernel
example : Tag.taggedDataBy exTag exRefs (.idx (-1)) .exclusive = .ok ⟨[6, 3], true, [(1, 3), (1, 2)]⟩ := by
  decide +kernel
example : refLookup exRefs (.text "alpha".toList false) = .ok 0 ∧ refLookup exRefs (.idx (-2)) = .ok 0 := by decide
example : Tag.taggedDataBy exTag exRefs (.idx 2) .exclusive = .error .outOfBounds := by decide +kernel
example : Tag.taggedDataBy exTag exRefs (.idx (-3)) .exclusive = .error .indexError := by decide +kernel
example : Tag.taggedDataBy exTag exRefs (.text "gamma".toList false) .exclusive = .error .keyError := by decide +kernel
example : MultiTag.taggedDataBy ⟨.oneD [1, 2], none, []⟩ exRefs 0 (.idx 2) .exclusive = .error .indexError := by
  decide +kernel
/-- two features on the same array: its name finds the first (untagged: the whole array), the second feature's id
finds the second (tagged: the region) -/
def exFeats : List FeatEnt :=
  [⟨"f0".toList, "id-b".toList, "beta".toList, .untagged, exArr⟩,
   ⟨"f1".toList, "id-b".toList, "beta".toList, .tagged, exArr⟩]
example : Tag.featureDataBy exTag exFeats (.text "beta".toList false) .exclusive =
    .ok ⟨[6, 3], true, [(0, 6), (0, 3)]⟩ := by decide +kernel
example : Tag.featureDataBy exTag exFeats (.text "f1".toList true) .exclusive =
    .ok ⟨[6, 3], true, [(1, 3), (1, 2)]⟩ := by decide +kernel
example : Tag.featureDataBy exTag exFeats .other .exclusive = .error .typeError := by decide +kernel

/-- the hypotheses of `C08_region_off_band` are met by the example tag on the example array (ticks × labels) -/
example : AxesOffBand .exclusive exArr.dims exTag.position exTag.extent (unitsOpt exTag.units) [1 / 1000, 1] := by
  have hu : UnitRel (some "ms".toList) (.range [1, 2, 4, 7, 8, 10] (some "s".toList)) (1 / 1000) := by
    have h := UnitRel.scaled (.range [1, 2, 4, 7, 8, 10] (some "s".toList)) "m".toList [] "s".toList []
      (by decide) (by decide) (by decide) (by decide) (by intro n h; cases h) rfl
    have e : tenPow (expOf "m".toList - expOf []) ^ powVal [] = (1 / 1000 : Rat) := by decide +kernel
    rw [e] at h
    exact h
  refine AxesOffBand.pos _ _ _ _ _ _ _ _ (by decide) hu ?_ trivial trivial ?_
  · show AscendingList _
    unfold AscendingList
    decide +kernel
  · refine AxesOffBand.pos _ _ _ _ _ _ _ _ (by decide) (UnitRel.setFalsy 3 _ (Or.inr rfl)) trivial ?_ ?_
      (AxesOffBand.nil _ _ _ _)
    · show OffBandNum _ _
      unfold OffBandNum Nix.C07.OffBand
      decide +kernel
    · show OffBandNum _ _
      unfold OffBandNum Nix.C07.OffBand
      decide +kernel

/-- one unit for two positions: refused; an extent of zeros selects the exact position, as no extent does -/
example : Tag.taggedData ⟨[2000, 1], [], ["ms".toList]⟩ 1 0 exArr .exclusive = .error .indexError := by decide +kernel
example : Tag.taggedData ⟨[2000, 1], [0, 0], exTag.units⟩ 1 0 exArr .exclusive = .ok ⟨[6, 3], true, [(1, 2), (1, 2)]⟩ ∧
    Tag.taggedData ⟨[2000, 1], [], exTag.units⟩ 1 0 exArr .exclusive = .ok ⟨[6, 3], true, [(1, 2), (1, 2)]⟩ := by
  decide +kernel

/-- an end point half way between two samples is off the band; one 2⁻³⁰ beside a sample is not -/
example : OffBandAt (.sampled 0 1 none) (7 / 2) := by
  unfold OffBandAt OffBandNum Nix.C07.OffBand
  decide +kernel
example : ¬ OffBandAt (.sampled 0 1 none) (3 + 1 / 2 ^ 30) := by
  unfold OffBandAt OffBandNum Nix.C07.OffBand
  decide +kernel

/-! ## samples with the same coordinate: repeated ticks -/

/-- **Equal coordinates are taken together.** Two samples of the descriptor with the same coordinate (two events
with the same time stamp: ticks only have to be ascending, so a value may repeat) are both inside the slice of an
axis or both outside it -- for every descriptor, position, extent entry, unit pair and stop rule. -/
theorem C08_equal_coordinates (stop : SliceMode) (dim : DimDesc) (p : Rat) (e? : Option Rat) (unit : Option Str)
    (sc : Rat) (hd : DimOK dim) (hu : UnitRel unit dim sc)
    (hs : SepAt dim (regionOf stop p e? sc).s) (he : SepAt dim (regionOf stop p e? sc).e)
    (a b : Int) (h : axisSlice stop dim p e? unit = .ok (some (a, b)))
    (i j : Nat) (hi : InDom (dimDom dim) i) (hj : InDom (dimDom dim) j) (hc : dimCoord dim i = dimCoord dim j) :
    (a ≤ (i : Int) ∧ (i : Int) < b) ↔ (a ≤ (j : Int) ∧ (j : Int) < b) := by
  have hx := C08_axis stop dim p e? unit sc hd hu hs he
  rw [h] at hx
  obtain ⟨ka, kb, rfl, rfl, _, _, hiff⟩ := hx
  have hij : InRegion dim (regionOf stop p e? sc) i ↔ InRegion dim (regionOf stop p e? sc) j := by
    unfold InRegion
    rw [hc]
  have e1 := hiff i hi
  have e2 := hiff j hj
  constructor
  · intro ⟨h1, h2⟩
    have := e2.mp (hij.mp (e1.mpr ⟨by omega, by omega⟩))
    omega
  · intro ⟨h1, h2⟩
    have := e1.mp (hij.mpr (e2.mpr ⟨by omega, by omega⟩))
    omega

/-- **A point on an irregular axis.** Without an extent entry, or with the entry 0, on a descriptor of ascending
ticks (repeats allowed): the slice holds exactly the ticks equal to the scaled position -- all of a run of equal
ticks -- and there is no slice exactly when no tick has that value; whatever the stop rule. -/
theorem C08_point_on_ticks (stop : SliceMode) (ticks : List Rat) (u : Option Str) (p : Rat) (e? : Option Rat)
    (unit : Option Str) (sc : Rat) (hd : AscendingList ticks) (hu : UnitRel unit (.range ticks u) sc)
    (he : e? = none ∨ e? = some 0) :
    match axisSlice stop (.range ticks u) p e? unit with
    | .ok (some (a, b)) => ∀ i, i < ticks.length → ((a ≤ (i : Int) ∧ (i : Int) < b) ↔ tickCoord ticks i = p * sc)
    | .ok none => ∀ i, i < ticks.length → tickCoord ticks i ≠ p * sc
    | .error _ => False := by
  have hR : regionOf stop p e? sc = ⟨.inclusive, p * sc, p * sc⟩ := by
    rcases he with rfl | rfl
    · exact (C08_region_shape stop p 0 sc).2.1
    · exact (C08_region_shape stop p 0 sc).2.2
  have hx := C08_axis stop (.range ticks u) p e? unit sc hd hu trivial trivial
  rw [hR] at hx
  have hin : ∀ i, InRegion (.range ticks u) ⟨.inclusive, p * sc, p * sc⟩ i ↔ tickCoord ticks i = p * sc := by
    intro i
    unfold InRegion InInterval
    simp only [dimCoord]
    constructor
    · intro ⟨h1, h2⟩; exact le_antisymm h2 h1
    · intro h; rw [h]; exact ⟨le_refl _, le_refl _⟩
  have hdom : ∀ i, InDom (dimDom (.range ticks u)) i ↔ i < ticks.length := by
    intro i
    unfold InDom
    simp [dimDom]
  cases hres : axisSlice stop (.range ticks u) p e? unit with
  | error err =>
    rw [hres] at hx
    exfalso
    have herr : err = .indexError := hx.1
    subst herr
    have hsp := (scalePosition_of_unitRel p unit (.range ticks u) sc hu).1
    have h1 : (stopOf stop (p * sc) sc e?).1 = p * sc := congrArg Region.e hR
    have h2 : (stopOf stop (p * sc) sc e?).2 = .inclusive := congrArg Region.mode hR
    unfold axisSlice at hres
    rw [hsp] at hres
    simp only [h1, h2, dimRangeIndices, rangeRangeIndices, rangeRangeIndicesT, lt_irrefl, if_false] at hres
    have hne := pairOrNone_no_indexError (rangeIndexOf ticks (p * sc) IndexMode.geq)
      (rangeIndexOf ticks (p * sc) (endModeOf Gen.rangeEndMode SliceMode.inclusive))
    revert hres hne
    generalize pairOrNone (rangeIndexOf ticks (p * sc) IndexMode.geq)
      (rangeIndexOf ticks (p * sc) (endModeOf Gen.rangeEndMode SliceMode.inclusive)) = r
    intro hres hne
    cases r with
    | error e => simp_all
    | ok w => cases w with
      | none => simp at hres
      | some w => simp at hres
  | ok w =>
    rw [hres] at hx
    cases w with
    | none =>
      intro i hi
      exact fun hc => hx i ((hdom i).mpr hi) ((hin i).mpr hc)
    | some w =>
      obtain ⟨a, b⟩ := w
      obtain ⟨ka, kb, rfl, rfl, _, _, hiff⟩ := hx
      intro i hi
      rw [← hin i, hiff i ((hdom i).mpr hi)]
      omega

/-- **Equal coordinates are taken together (whole array).** In a valid result of `Tag.tagged_data`, on every axis
with a position entry, two samples of that axis' descriptor with the same coordinate (a run of equal ticks) are both
inside the window or both outside: the data never holds a part of a run. -/
theorem C08_region_equal_coordinates (t : TagDesc) (nrefs refidx : Nat) (ref : Arr) (stop : SliceMode)
    (scs : List Rat) (hrank : ref.dims.length = ref.shape.length)
    (hok : AxesOK stop ref.dims t.position t.extent (unitsOpt t.units) scs)
    (href : refidx < nrefs) (hext : t.extent = [] ∨ t.extent.length = t.position.length)
    (v : View) (hv : Tag.taggedData t nrefs refidx ref stop = .ok v) (hvalid : v.valid = true)
    (d : Nat) (dim : DimDesc) (w : Win) (hd : ref.dims[d]? = some dim) (hw : v.window[d]? = some w)
    (hlt : d < t.position.length) (i j : Nat) (hi : InDom (dimDom dim) i) (hj : InDom (dimDom dim) j)
    (hc : dimCoord dim i = dimCoord dim j) :
    (w.1 ≤ (i : Int) ∧ (i : Int) < w.2) ↔ (w.1 ≤ (j : Int) ∧ (j : Int) < w.2) := by
  have h := C08_region t nrefs refidx ref stop scs hrank hok href hext
  rw [hv] at h
  rcases h with ⟨_, _, _, hex, _⟩ | ⟨hf, _⟩
  · exact windowsExact_equal_coords stop _ _ _ _ _ _ hex d dim w hd hw hlt i j hi hj hc
  · rw [hvalid] at hf; cases hf

/-- **Equal coordinates are taken together (MultiTag, tagged features).** The valid result of
`MultiTag.tagged_data` for any position index, and the data of a `tagged` feature of a Tag, never hold a part of a
run of samples with the same coordinate -- on every axis with a position entry, under either stop rule. -/
theorem C08_runs_taken_whole :
    (∀ (t : MTagDesc) (nrefs idx refidx : Nat) (ref : Arr) (stop : SliceMode) (position extent scs : List Rat),
      MRow t idx position extent → ref.dims.length = ref.shape.length →
      AxesOK stop ref.dims position extent (unitsOpt t.units) scs → refidx < nrefs →
      ∀ v, MultiTag.taggedData t nrefs idx refidx ref stop = .ok v → v.valid = true →
        RunsWhole ref.dims v.window position.length) ∧
    (∀ (t : TagDesc) (nfeats : Nat) (data : Arr) (stop : SliceMode) (scs : List Rat), 0 < nfeats →
      data.dims.length = data.shape.length →
      AxesOK stop data.dims t.position t.extent (unitsOpt t.units) scs →
      ∀ v, Tag.featureData t nfeats .tagged data stop = .ok v → RunsWhole data.dims v.window t.position.length) := by
  constructor
  · intro t nrefs idx refidx ref stop position extent scs hrow hrank hok href v hv hvalid
    have h := C08_region_multi t nrefs idx refidx ref stop position extent scs hrow hrank hok href
    rw [hv] at h
    rcases h with ⟨_, _, _, hex, _⟩ | ⟨hf, _⟩
    · exact windowsExact_equal_coords stop _ _ _ _ _ _ hex
    · rw [hvalid] at hf; cases hf
  · intro t nfeats data stop scs hf hrank hok v hv
    have h := (C08_feature_tag t nfeats data stop scs hf).1 hrank hok
    rw [hv] at h
    exact windowsExact_equal_coords stop _ _ _ _ _ _ h.2.2.2

/-- a run of three equal ticks: the point on it takes all three under either stop rule; a region ending on it takes
the run under `Inclusive` and none of it under `Exclusive`; a region starting on it takes all of it (s -> ms) -/
example : axisSlice .exclusive (.range [1, 2, 2, 2, 9 / 2, 6] none) 2 none none = .ok (some (1, 4)) ∧
    axisSlice .inclusive (.range [1, 2, 2, 2, 9 / 2, 6] none) 2 (some 0) none = .ok (some (1, 4)) ∧
    axisSlice .inclusive (.range [1000, 2000, 2000, 2000, 4500] (some "ms".toList)) 1 (some 1) (some "s".toList)
      = .ok (some (0, 4)) ∧
    axisSlice .exclusive (.range [1000, 2000, 2000, 2000, 4500] (some "ms".toList)) 1 (some 1) (some "s".toList)
      = .ok (some (0, 1)) ∧
    axisSlice .exclusive (.range [1000, 2000, 2000, 2000, 4500] (some "ms".toList)) 2 (some 1) (some "s".toList)
      = .ok (some (1, 4)) ∧
    axisSlice .exclusive (.range [1, 2, 2, 2, 9 / 2, 6] none) 3 none none = .ok none := by decide +kernel

/-- two positions of a multi-tag on an axis with the run 2, 2, 2: the point on the run, and the region 1 .. 2 under
both stop rules; a tagged feature of a Tag ending on the run -/
example :
    MultiTag.taggedData ⟨.oneD [2, 1], none, []⟩ 1 0 0 ⟨[6], [.range [1, 2, 2, 2, 9 / 2, 6] none]⟩ .exclusive
      = .ok ⟨[6], true, [(1, 4)]⟩ ∧
    MultiTag.taggedData ⟨.oneD [2, 1], some (.oneD [0, 1]), []⟩ 1 1 0 ⟨[6], [.range [1, 2, 2, 2, 9 / 2, 6] none]⟩
      .inclusive = .ok ⟨[6], true, [(0, 4)]⟩ ∧
    MultiTag.taggedData ⟨.oneD [2, 1], some (.oneD [0, 1]), []⟩ 1 1 0 ⟨[6], [.range [1, 2, 2, 2, 9 / 2, 6] none]⟩
      .exclusive = .ok ⟨[6], true, [(0, 1)]⟩ ∧
    Tag.featureData ⟨[1], [1], []⟩ 1 .tagged ⟨[6], [.range [1, 2, 2, 2, 9 / 2, 6] none]⟩ .inclusive
      = .ok ⟨[6], true, [(0, 4)]⟩ := by decide +kernel

end Nix.C08
