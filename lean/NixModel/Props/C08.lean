import NixModel.Pure.Tagging
import NixModel.Lemmas.C08Axis
import NixModel.Lemmas.C08Slices
import NixModel.Lemmas.C08View
import NixModel.Props.C06

/-!
# C08 — tagged data is exactly the samples inside the tagged region

Property theorems only; helper lemmas and the vocabulary live in `Lemmas/C08Axis.lean` (one axis, units),
`Lemmas/C08Slices.lean` (the slice tuple, for any number of axes) and `Lemmas/C08View.lean` (the view).
The statements are about the model `Pure/Tagging.lean` of `nixio/tag.py` / `nixio/multi_tag.py`, which is
built on the models of C07 (`Pure/Dim.lean`, with the tolerances regenerated from the source), C09
(`Pure/Units.lean`, with the regenerated unit tables) and C06 (`Pure/DataView.lean`); the theorems below are
the composition of `C07.range_indices_*`, `C09.scaling_ratio` / `not_scalable` and `C06.C06_window`, axis by
axis, and inherit their hypotheses.

Vocabulary (all defined in the Lemmas files, walking the axes in lock-step with `_calc_data_slices`):
* `AxesOK stop dims pos ext units scs` — per axis that has a position: the tag unit converts to the
  dimension's unit with the exact factor `sc` (`UnitRel`: none / `"none"` on a set dimension, no tag units,
  or two prefixed forms of one SI unit ⇒ `10^(e₁-e₂)` to the power), the descriptor is inside C07's theorems
  (`DimOK`: positive interval, ascending ticks) and both end points of the scaled region meet C07's
  `Separated` tolerance hypothesis (`SepAt`; nothing for ticks);
* `regionOf stop p e? sc` — `[p·sc, p·sc + e·sc]`, end excluded iff the stop rule is `Exclusive` and the
  extent entry is `> 0`; a missing or non-positive entry is inclusive (zero: the exact position);
* `WindowsExact … ws` — every window `[a, b)` of an axis with a position is non-empty, inside the stored
  extent, consists of sample indices of the descriptor, and a sample index lies in it **iff** its coordinate
  lies in the region; axes beyond the position's length are `[0, extent)`;
* `EmptyAxis …` — some axis has no sample of its descriptor in its region;
* `BeyondAxis …` — some axis' region contains a sample of its descriptor that is not stored (index ≥ extent).
-/
namespace Nix.C08
open Nix Nix.Dim Nix.DataView Nix.Units Nix.Units.Lemmas Nix.Units.Gen Nix.Tagging

/-! ## the tie to the source: decisions and order of checks re-rendered from `tag.py` / `multi_tag.py` -/

/-- **Generated decisions.** The pieces of `_calc_data_slices`, `_slices_in_data`, `_scale_position` and
`MultiTag.feature_data` that `harness/extract/tagshape.py` renders from the source and the model uses as they come
are the ones every theorem below is about: the stop rule is kept iff the (unscaled) extent entry is `> 0`, otherwise
— and without an entry — the mode is `Inclusive`; the stop position is `extent · scaling + start`; the slice is
`slice(a, b + 1)`; a whole axis starts at 0; a stop is inside the data iff `stop ≤ extent`; an indexed feature is
refused by the first test iff `posidx > rows`; on a set dimension `"none"` counts as no unit; `InvalidUnit` from the
scaling becomes `IncompatibleDimensions`.  An edit of one of them in the source changes the generated file and
breaks this theorem (and the proofs that use it). -/
theorem C08_generated_decisions :
    (∀ e : Rat, Gen.extentKeepsStopRule e = true ↔ 0 < e) ∧
    sliceModeNamed Gen.extentElseMode = .inclusive ∧ sliceModeNamed Gen.noExtentMode = .inclusive ∧
    Gen.extentElseMode = "Inclusive" ∧ Gen.noExtentMode = "Inclusive" ∧
    (∀ e sc start : Rat, Gen.stopPos e sc start = e * sc + start) ∧
    (∀ a b : Int, Gen.sliceOf a b = (a, b + 1)) ∧ Gen.wholeAxisStart = 0 ∧
    (∀ s n : Int, Gen.stopInData s n = true ↔ s ≤ n) ∧
    (∀ i rows : Nat, Gen.indexedRowBeyond i rows = true ↔ rows < i) ∧
    Gen.setNoUnitText = "none".toList ∧ Gen.invalidUnitBecomes = ("InvalidUnit", "IncompatibleDimensions") := by
  refine ⟨fun e => (gen_extent_mode e).1, (gen_extent_mode 0).2.1, (gen_extent_mode 0).2.2, by decide, by decide,
    fun _ _ _ => rfl, fun _ _ => rfl, rfl, ?_, ?_, by decide, by decide⟩
  · intro s n; simp [Gen.stopInData]
  · intro i rows; simp [Gen.indexedRowBeyond]

/-- **Order of checks in the source.** The `if` / `except` tests of the eight functions, in source order, with what
each does (`raise <class>`, `return`, `-` = neither), as re-rendered on every run.  The model's functions make the
same tests in the same order (`Tag.taggedData`, `Tag.featureData`, `calcSlicesMtag`, `MultiTag.taggedData`,
`MultiTag.featureData`, `scalePosition`, `calcSlices`, `slicesInData`); a check that is added, removed, reordered
or raises another class breaks this theorem. -/
theorem C08_source_shape :
    Gen.guardsCalcDataSlices =
      [("not self.units", "-"), ("idx < len(position)", "-"), ("extent is not None and idx < len(extent)", "-")] ∧
    Gen.guardsSlicesInData = [("slices is None or not all(slices)", "return")] ∧
    Gen.guardsScalePosition =
      [("dimtype == DimensionType.Set", "-"), ("dimtype == DimensionType.Set", "-"),
       ("unit and unit != 'none'", "raise IncompatibleDimensions"),
       ("dimunit is None and unit is not None", "raise IncompatibleDimensions"),
       ("dimunit is not None and unit is not None", "-"), ("except InvalidUnit", "raise IncompatibleDimensions")] ∧
    Gen.guardsTagTaggedData =
      [("len(references) == 0", "raise OutOfBounds"),
       ("isinstance(refidx, int) and refidx >= len(references)", "raise OutOfBounds"),
       ("extent and len(position) != len(extent)", "raise IncompatibleDimensions"),
       ("not all(slices)", "return"), ("not self._slices_in_data(ref, slices)", "raise OutOfBounds")] ∧
    Gen.guardsTagFeatureData =
      [("len(self.features) == 0", "raise OutOfBounds"), ("except KeyError", "-"),
       ("feature.data.name == featidx or feature.data.id == featidx", "-"), ("feat is None", "raise"),
       ("data is None", "raise UninitializedEntity"), ("feat.link_type == LinkType.Tagged", "-"),
       ("not self._slices_in_data(data, slices)", "raise OutOfBounds")] ∧
    Gen.guardsMtagCalcSlices =
      [("not positions or index >= positions.shape[0]", "raise OutOfBounds"),
       ("extents and index >= extents.shape[0]", "raise OutOfBounds"),
       ("extents and positions.data_extent != extents.data_extent", "raise IncompatibleDimensions"),
       ("len(positions.shape) == 1", "-"), ("extents and len(extents.shape) == 1", "-"),
       ("extents is not None and len(extents) > 0", "-")] ∧
    Gen.guardsMtagTaggedData =
      [("len(references) == 0", "raise OutOfBounds"),
       ("posidx >= positions.data_extent[0] or (extents and posidx >= extents.data_extent[0])", "raise OutOfBounds")] ∧
    Gen.guardsMtagFeatureData =
      [("len(self.features) == 0", "raise OutOfBounds"), ("except KeyError", "-"),
       ("feature.data.name == featidx or feature.data.id == featidx", "-"), ("feat is None", "raise"),
       ("data is None", "raise UninitializedEntity"), ("feat.link_type == LinkType.Tagged", "-"),
       ("not self._slices_in_data(data, slices)", "raise OutOfBounds"), ("feat.link_type == LinkType.Indexed", "-"),
       ("posidx > data.data_extent[0]", "raise OutOfBounds"),
       ("not self._slices_in_data(data, slices)", "raise OutOfBounds")] := by
  refine ⟨?_, ?_, ?_, ?_, ?_, ?_, ?_, ?_⟩ <;> decide

/-! ## one axis, units -/

/-- **Units.** When the tag unit relates to the dimension's unit (`UnitRel`), `_scale_position` multiplies
by the exact factor — for two prefixed forms `p₁uw`, `p₂uw` of one SI unit: `(10^(e p₁ − e p₂))^w` (C09) —
which is positive; a unit on a set dimension, a unit for a dimension that has none, and another base unit or
power are refused with `IncompatibleDimensions`. -/
theorem C08_units (pos : Rat) :
    (∀ u dim sc, UnitRel u dim sc → scalePosition pos u dim = .ok (pos * sc, sc) ∧ 0 < sc) ∧
    (∀ (dim : DimDesc) (p₁ p₂ u w : Str), p₁ ∈ optPrefixes → p₂ ∈ optPrefixes → u ∈ units → w ∈ powerTexts →
      (∀ n, dim ≠ .set n) → dim.unit = some (p₂ ++ u ++ w) →
      scalePosition pos (some (p₁ ++ u ++ w)) dim =
        .ok (pos * tenPow (expOf p₁ - expOf p₂) ^ powVal w, tenPow (expOf p₁ - expOf p₂) ^ powVal w)) ∧
    (∀ n u, u ≠ [] → u ≠ noneStr → scalePosition pos (some u) (.set n) = .error .incompatibleDimensions) ∧
    (∀ off si u, scalePosition pos (some u) (.sampled off si none) = .error .incompatibleDimensions) ∧
    (∀ ticks u, scalePosition pos (some u) (.range ticks none) = .error .incompatibleDimensions) ∧
    (∀ (dim : DimDesc) (p₁ p₂ u₁ u₂ w₁ w₂ : Str), p₁ ∈ optPrefixes → p₂ ∈ optPrefixes → u₁ ∈ units → u₂ ∈ units →
      w₁ ∈ powerTexts → w₂ ∈ powerTexts → (u₁ ≠ u₂ ∨ w₁.drop 1 ≠ w₂.drop 1) →
      dim.unit = some (p₂ ++ u₂ ++ w₂) →
      scalePosition pos (some (p₁ ++ u₁ ++ w₁)) dim = .error .incompatibleDimensions) := by
  obtain ⟨r1, r2, r3, r4⟩ := scalePosition_refuses pos
  refine ⟨fun u dim sc h => scalePosition_of_unitRel pos u dim sc h, ?_, r1, r2, r3, r4⟩
  intro dim p₁ p₂ u w h₁ h₂ hu hw hset hdim
  exact (scalePosition_of_unitRel pos _ dim _ (UnitRel.scaled dim p₁ p₂ u w h₁ h₂ hu hw hset hdim)).1

/-- **One axis.** For every descriptor kind, position, extent entry (present, absent, zero, negative), unit
pair and stop rule: the loop body of `_calc_data_slices` yields `slice(a, b)` with `a … b-1` exactly the
samples of the descriptor whose coordinate lies in the scaled region (and there is one), `None` when there is
none, or `IndexError` — and then there is none either. -/
theorem C08_axis (stop : SliceMode) (dim : DimDesc) (p : Rat) (e? : Option Rat) (unit : Option Str) (sc : Rat)
    (hd : DimOK dim) (hu : UnitRel unit dim sc)
    (hs : SepAt dim (regionOf stop p e? sc).s) (he : SepAt dim (regionOf stop p e? sc).e) :
    match axisSlice stop dim p e? unit with
    | .ok w => AxisSpec dim (regionOf stop p e? sc) w
    | .error err => err = .indexError ∧ ∀ i, InDom (dimDom dim) i → ¬ InRegion dim (regionOf stop p e? sc) i :=
  axisSlice_spec stop dim p e? unit sc hd (scalePosition_of_unitRel p unit dim sc hu).1 hs he

/-- the region of an axis: scaled start, scaled extent added, inclusive unless the entry is positive and the
stop rule exclusive -/
theorem C08_region_shape (stop : SliceMode) (p e sc : Rat) :
    regionOf stop p (some e) sc = ⟨if 0 < e then stop else .inclusive, p * sc, e * sc + p * sc⟩ ∧
    regionOf stop p none sc = ⟨.inclusive, p * sc, p * sc⟩ ∧
    regionOf stop p (some 0) sc = ⟨.inclusive, p * sc, p * sc⟩ := by
  refine ⟨regionOf_some stop p e sc, regionOf_none stop p sc, ?_⟩
  rw [regionOf_some]
  simp

/-! ## Tag.tagged_data -/

/-- **Region theorem (Tag).** For every referenced array of any rank with one descriptor per axis, every
mix of descriptor kinds, every position / extent vector (position shorter than the rank: remaining axes
whole; extent absent, zero, negative), unit list and stop rule, under `AxesOK`:

* a **valid** view has, on every axis, exactly the window `{ i < extent | coord i ∈ region }`
  (`WindowsExact`), and reading it reads that window of the array (C06);
* an **invalid** view reads empty and some axis has no sample in its region;
* `IndexError` only when some axis has no sample in its region; `OutOfBounds` only when some axis' region
  contains a sample beyond the stored extent;
* nothing else happens. -/
theorem C08_region (t : TagDesc) (nrefs refidx : Nat) (ref : Arr) (stop : SliceMode) (scs : List Rat)
    (hrank : ref.dims.length = ref.shape.length)
    (hok : AxesOK stop ref.dims t.position t.extent (unitsOpt t.units) scs)
    (href : refidx < nrefs) (hext : t.extent = [] ∨ t.extent.length = t.position.length) :
    match Tag.taggedData t nrefs refidx ref stop with
    | .ok v =>
      (v.valid = true ∧ v.parent = ref.shape ∧ WindowsIn v.window ref.shape ∧
        WindowsExact stop ref.dims ref.shape t.position t.extent scs v.window ∧
        viewRead v none = .ok (.sel (windowSel v.window))) ∨
      (v.valid = false ∧ EmptyAxis stop ref.dims t.position t.extent scs ∧ ∀ ix, viewRead v ix = .ok .empty)
    | .error e =>
      (e = .indexError ∧ EmptyAxis stop ref.dims t.position t.extent scs) ∨
      (e = .outOfBounds ∧ BeyondAxis stop ref.dims ref.shape t.position t.extent scs) := by
  have hcore := region_core stop ref t.position t.extent (unitsOpt t.units) scs hrank hok
  have h0 : ¬ nrefs = 0 := by omega
  have h1 : ¬ refidx ≥ nrefs := by omega
  have h2 : (!t.extent.isEmpty && t.position.length != t.extent.length) = false := by
    rcases hext with h | h <;> simp [h]
  unfold Tag.taggedData
  simp only [h0, h1, h2, if_false, Bool.false_eq_true]
  cases hc : calcSlices stop ref.dims ref.shape t.position t.extent (unitsOpt t.units) with
  | error e => rw [hc] at hcore; exact Or.inl hcore
  | ok sl =>
    rw [hc] at hcore
    simp only []
    cases hcore with
    | empty h1 h2 h3 h4 =>
      simp only [h1, Option.isNone_none, if_true]
      exact Or.inr ⟨h4, h2, fun ix => ((C06.C06_window ref.shape []).2.2.2.2 _ h4 ix).1⟩
    | exact ws h1 h3 h4 h5 h6 =>
      simp only [h1, Option.isNone_some, Bool.false_eq_true, if_false, viewIfInData, h3, h4]
      exact Or.inl ⟨trivial, trivial, h5, h6, (C06.C06_window_read ⟨ref.shape, true, ws⟩ ⟨rfl, h5⟩).1⟩
    | beyond ws h1 h2 h3 h4 =>
      simp only [h1, Option.isNone_some, Bool.false_eq_true, if_false, viewIfInData, h3]
      exact Or.inr ⟨trivial, h2⟩

/-- **Never other data.** Whenever some axis has no stored sample in its region, or the region of some axis
reaches a sample beyond the stored extent, the result is not a valid view: it is an invalid (empty) view,
`IndexError` or `OutOfBounds`. -/
theorem C08_region_refused (t : TagDesc) (nrefs refidx : Nat) (ref : Arr) (stop : SliceMode) (scs : List Rat)
    (hrank : ref.dims.length = ref.shape.length)
    (hok : AxesOK stop ref.dims t.position t.extent (unitsOpt t.units) scs)
    (href : refidx < nrefs) (hext : t.extent = [] ∨ t.extent.length = t.position.length)
    (hbad : EmptyAxis stop ref.dims t.position t.extent scs ∨
      BeyondAxis stop ref.dims ref.shape t.position t.extent scs) :
    match Tag.taggedData t nrefs refidx ref stop with
    | .ok v => v.valid = false ∧ ∀ ix, viewRead v ix = .ok .empty
    | .error e => e = .indexError ∨ e = .outOfBounds := by
  have h := C08_region t nrefs refidx ref stop scs hrank hok href hext
  cases hr : Tag.taggedData t nrefs refidx ref stop with
  | error e =>
    rw [hr] at h
    rcases h with h | h
    · exact Or.inl h.1
    · exact Or.inr h.1
  | ok v =>
    rw [hr] at h
    rcases h with ⟨_, _, _, hex, _⟩ | ⟨hv, _, hread⟩
    · have := windowsExact_not_empty hex
      rcases hbad with hb | hb
      · exact absurd hb this.1
      · exact absurd hb this.2
    · exact ⟨hv, hread⟩

/-- requests refused before any region is computed: no reference, reference index out of range
(`OutOfBounds`), position and extent of different lengths (`IncompatibleDimensions`) -/
theorem C08_tag_refusals (t : TagDesc) (nrefs refidx : Nat) (ref : Arr) (stop : SliceMode) :
    (nrefs ≤ refidx → Tag.taggedData t nrefs refidx ref stop = .error .outOfBounds) ∧
    (refidx < nrefs → t.extent ≠ [] → t.extent.length ≠ t.position.length →
      Tag.taggedData t nrefs refidx ref stop = .error .incompatibleDimensions) := by
  constructor
  · intro h
    unfold Tag.taggedData
    by_cases h0 : nrefs = 0
    · simp [h0]
    · have : refidx ≥ nrefs := h
      simp [h0, this]
  · intro h1 h2 h3
    unfold Tag.taggedData
    have h0 : ¬ nrefs = 0 := by omega
    have h1' : ¬ refidx ≥ nrefs := by omega
    have h4 : (!t.extent.isEmpty && t.position.length != t.extent.length) = true := by
      cases he : t.extent with
      | nil => exact absurd he h2
      | cons x xs =>
        have : t.position.length ≠ (x :: xs).length := by rw [← he]; exact fun h => h3 h.symm
        simpa using this
    simp only [h0, h1', h4, if_false, if_true]

/-! ## MultiTag: row selection, 1-D → 2-D promotion -/

/-- the position / extent vectors a multi-tag uses for position index `idx`: row `idx` of the positions
array (an entry of a 1-D array counts as a row of length 1) and row `idx` of the extents array when one is set,
not of length 0, and of the same shape as the positions -/
def MRow (t : MTagDesc) (idx : Nat) (position extent : List Rat) : Prop :=
  t.positions.row idx = some position ∧
  ((t.extents = none ∧ extent = []) ∨
   (∃ e, t.extents = some e ∧ e.len = 0 ∧ extent = []) ∨
   (∃ e, t.extents = some e ∧ 0 < e.len ∧ t.positions.extent = e.extent ∧ e.row idx = some extent))

theorem row_lt (a : PosArr) (i : Nat) (r : List Rat) (h : a.row i = some r) : i < a.len := by
  cases a with
  | oneD v =>
    simp only [PosArr.row, Option.map_eq_some_iff] at h
    obtain ⟨x, hx, _⟩ := h
    exact (List.getElem?_eq_some_iff.mp hx).1
  | twoD c rows =>
    simp only [PosArr.row] at h
    exact (List.getElem?_eq_some_iff.mp h).1

/-- **Row selection and promotion.** Entry `i` of a 1-D positions (extents) array is used as the vector `[p]`;
row `i` of a 2-D array as it is; `_calc_data_slices_mtag` is `_calc_data_slices` on those vectors; an index
beyond the positions or the extents is `OutOfBounds`; positions and extents of different shapes are
`IncompatibleDimensions`. -/
theorem C08_row_selection (t : MTagDesc) (data : Arr) (idx : Nat) (stop : SliceMode) :
    (∀ v i, (PosArr.oneD v).row i = (v[i]?).map fun p => [p]) ∧
    (∀ c rows i, (PosArr.twoD c rows).row i = rows[i]?) ∧
    (∀ position extent, MRow t idx position extent →
      calcSlicesMtag t data idx stop =
        calcSlices stop data.dims data.shape position extent (unitsOpt t.units)) ∧
    (t.positions.len ≤ idx → calcSlicesMtag t data idx stop = .error .outOfBounds) ∧
    (∀ e, t.extents = some e → 0 < e.len → e.len ≤ idx → calcSlicesMtag t data idx stop = .error .outOfBounds) ∧
    (∀ e, t.extents = some e → 0 < e.len → idx < e.len → idx < t.positions.len →
      t.positions.extent ≠ e.extent → calcSlicesMtag t data idx stop = .error .incompatibleDimensions) := by
  refine ⟨fun _ _ => rfl, fun _ _ _ => rfl, ?_, ?_, ?_, ?_⟩
  · intro position extent ⟨hrow, hext⟩
    have hlt := row_lt _ _ _ hrow
    have hp : ¬ (t.positions.len = 0 ∨ idx ≥ t.positions.len) := by omega
    unfold calcSlicesMtag
    rcases hext with ⟨he, hx⟩ | ⟨e, he, hl, hx⟩ | ⟨e, he, hl, hsame, hr⟩
    · subst hx
      simp [hp, he, extBeyond, extMismatch, extentRow, hrow]
    · subst hx
      simp [hp, he, hl, extBeyond, extMismatch, extentRow, hrow]
    · have hlt2 := row_lt _ _ _ hr
      have : ¬ idx ≥ e.len := by omega
      simp [hp, he, hl, extBeyond, extMismatch, extentRow, hrow, hr, hsame, this]
  · intro h
    unfold calcSlicesMtag
    have : t.positions.len = 0 ∨ idx ≥ t.positions.len := Or.inr h
    simp [this]
  · intro e he hl hle
    unfold calcSlicesMtag
    by_cases hp : t.positions.len = 0 ∨ idx ≥ t.positions.len
    · simp [hp]
    · have : idx ≥ e.len := hle
      simp [hp, he, extBeyond, hl, this]
  · intro e he hl hlt hlt2 hne
    unfold calcSlicesMtag
    have hp : ¬ (t.positions.len = 0 ∨ idx ≥ t.positions.len) := by omega
    have : ¬ idx ≥ e.len := by omega
    simp [hp, he, extBeyond, extMismatch, hl, this, hne]

/-- **Region theorem (MultiTag).** For position index `idx` with vectors `position`, `extent` (`MRow`), under
the same hypotheses as for a tag: a valid view has exactly the windows of the region; an invalid view reads
empty and some axis has no sample in its region or its region runs past the stored data; `IndexError` only
when some axis has no sample in its region. -/
theorem C08_region_multi (t : MTagDesc) (nrefs idx refidx : Nat) (ref : Arr) (stop : SliceMode)
    (position extent scs : List Rat) (hrow : MRow t idx position extent)
    (hrank : ref.dims.length = ref.shape.length)
    (hok : AxesOK stop ref.dims position extent (unitsOpt t.units) scs) (href : refidx < nrefs) :
    match MultiTag.taggedData t nrefs idx refidx ref stop with
    | .ok v =>
      (v.valid = true ∧ v.parent = ref.shape ∧ WindowsIn v.window ref.shape ∧
        WindowsExact stop ref.dims ref.shape position extent scs v.window ∧
        viewRead v none = .ok (.sel (windowSel v.window))) ∨
      (v.valid = false ∧ (EmptyAxis stop ref.dims position extent scs ∨
          BeyondAxis stop ref.dims ref.shape position extent scs) ∧ ∀ ix, viewRead v ix = .ok .empty)
    | .error e => e = .indexError ∧ EmptyAxis stop ref.dims position extent scs := by
  have hcore := region_core stop ref position extent (unitsOpt t.units) scs hrank hok
  have hsel := (C08_row_selection t ref idx stop).2.2.1 position extent hrow
  have hlt := row_lt _ _ _ hrow.1
  have hb : extBeyond t.extents idx = false := by
    rcases hrow.2 with ⟨he, _⟩ | ⟨e, he, hl, _⟩ | ⟨e, he, hl, _, hr⟩
    · simp [he, extBeyond]
    · simp [he, extBeyond, hl]
    · have := row_lt _ _ _ hr
      have : ¬ idx ≥ e.len := by omega
      simp [he, extBeyond, this]
  have h0 : ¬ nrefs = 0 := by omega
  have h1 : ¬ refidx ≥ nrefs := by omega
  have h2 : ¬ (idx ≥ t.positions.len ∨ extBeyond t.extents idx = true) := by
    rw [hb]; simp; omega
  unfold MultiTag.taggedData
  simp only [h0, h1, h2, if_false, hsel]
  cases hc : calcSlices stop ref.dims ref.shape position extent (unitsOpt t.units) with
  | error e => rw [hc] at hcore; exact hcore
  | ok sl =>
    rw [hc] at hcore
    simp only []
    cases hcore with
    | empty h1 h2 h3 h4 =>
      exact Or.inr ⟨h4, Or.inl h2, fun ix => ((C06.C06_window ref.shape []).2.2.2.2 _ h4 ix).1⟩
    | exact ws h1 h3 h4 h5 h6 =>
      rw [h4]
      exact Or.inl ⟨rfl, rfl, h5, h6, (C06.C06_window_read ⟨ref.shape, true, ws⟩ ⟨rfl, h5⟩).1⟩
    | beyond ws h1 h2 h3 h4 =>
      exact Or.inr ⟨h4, Or.inr h2, fun ix => ((C06.C06_window ref.shape []).2.2.2.2 _ h4 ix).1⟩

/-! ## feature data by link type -/

theorem fullWindows_eq (shape : List Nat) :
    fullWindows shape = (shape.map fun (n : Nat) => (((0 : Int), (n : Int)) : Win)).map some := by
  simp [fullWindows]

theorem full_windowsIn (shape : List Nat) :
    WindowsIn (shape.map fun (n : Nat) => (((0 : Int), (n : Int)) : Win)) shape := by
  induction shape with
  | nil => trivial
  | cons n shape ih => exact ⟨⟨by simp, by simp, by simp⟩, ih⟩

/-- the whole array as a view -/
theorem full_view (shape : List Nat) :
    mkView shape (some (fullWindows shape)) =
      ⟨shape, true, shape.map fun (n : Nat) => (((0 : Int), (n : Int)) : Win)⟩ := by
  rw [fullWindows_eq]
  exact mkView_ok shape _ (full_windowsIn shape)

/-- **Feature data of a Tag.** `tagged`: the same region of the feature array — a valid view with exactly
the region's windows, or `OutOfBounds` (some axis empty or running past the data) / `IndexError` (some axis
empty); `untagged` and `indexed` (a tag has a single position): the whole array. -/
theorem C08_feature_tag (t : TagDesc) (nfeats : Nat) (data : Arr) (stop : SliceMode) (scs : List Rat)
    (hf : 0 < nfeats) :
    (data.dims.length = data.shape.length →
      AxesOK stop data.dims t.position t.extent (unitsOpt t.units) scs →
      match Tag.featureData t nfeats .tagged data stop with
      | .ok v => v.valid = true ∧ v.parent = data.shape ∧ WindowsIn v.window data.shape ∧
          WindowsExact stop data.dims data.shape t.position t.extent scs v.window
      | .error e =>
        (e = .indexError ∧ EmptyAxis stop data.dims t.position t.extent scs) ∨
        (e = .outOfBounds ∧ (EmptyAxis stop data.dims t.position t.extent scs ∨
          BeyondAxis stop data.dims data.shape t.position t.extent scs))) ∧
    Tag.featureData t nfeats .untagged data stop =
      .ok ⟨data.shape, true, data.shape.map fun (n : Nat) => (((0 : Int), (n : Int)) : Win)⟩ ∧
    Tag.featureData t nfeats .indexed data stop =
      .ok ⟨data.shape, true, data.shape.map fun (n : Nat) => (((0 : Int), (n : Int)) : Win)⟩ ∧
    Tag.featureData t 0 .tagged data stop = .error .outOfBounds := by
  have h0 : ¬ nfeats = 0 := by omega
  refine ⟨?_, ?_, ?_, ?_⟩
  · intro hrank hok
    have hcore := region_core stop data t.position t.extent (unitsOpt t.units) scs hrank hok
    unfold Tag.featureData
    simp only [h0, if_false]
    cases hc : calcSlices stop data.dims data.shape t.position t.extent (unitsOpt t.units) with
    | error e => rw [hc] at hcore; exact Or.inl hcore
    | ok sl =>
      rw [hc] at hcore
      simp only []
      cases hcore with
      | empty h1 h2 h3 h4 => simp only [viewIfInData, h3]; exact Or.inr ⟨trivial, Or.inl h2⟩
      | exact ws h1 h3 h4 h5 h6 => simp only [viewIfInData, h3, h4]; exact ⟨trivial, trivial, h5, h6⟩
      | beyond ws h1 h2 h3 h4 => simp only [viewIfInData, h3]; exact Or.inr ⟨trivial, Or.inr h2⟩
  · simp only [Tag.featureData, h0, if_false, full_view]
  · simp only [Tag.featureData, h0, if_false, full_view]
  · simp [Tag.featureData]

/-- **Feature data of a MultiTag.** `indexed`: row `idx` of the feature array (all of the other axes) when
`idx < rows`, `OutOfBounds` iff `idx ≥ rows`; `untagged`: the whole array; `tagged`: the region of position
`idx` in the feature array, as for `C08_region_multi` but with `OutOfBounds` where that returns an invalid
view. -/
theorem C08_feature_multi (t : MTagDesc) (nfeats idx : Nat) (stop : SliceMode) (hf : 0 < nfeats) :
    (∀ rows rest dims, idx < rows →
      MultiTag.featureData t nfeats idx .indexed ⟨rows :: rest, dims⟩ stop =
        .ok ⟨rows :: rest, true, ((idx : Int), (idx : Int) + 1) ::
          rest.map fun (n : Nat) => (((0 : Int), (n : Int)) : Win)⟩) ∧
    (∀ rows rest dims, rows ≤ idx →
      MultiTag.featureData t nfeats idx .indexed ⟨rows :: rest, dims⟩ stop = .error .outOfBounds) ∧
    (∀ data : Arr, MultiTag.featureData t nfeats idx .untagged data stop =
      .ok ⟨data.shape, true, data.shape.map fun (n : Nat) => (((0 : Int), (n : Int)) : Win)⟩) ∧
    (∀ (data : Arr) (position extent scs : List Rat), MRow t idx position extent →
      data.dims.length = data.shape.length →
      AxesOK stop data.dims position extent (unitsOpt t.units) scs →
      match MultiTag.featureData t nfeats idx .tagged data stop with
      | .ok v => v.valid = true ∧ v.parent = data.shape ∧ WindowsIn v.window data.shape ∧
          WindowsExact stop data.dims data.shape position extent scs v.window
      | .error e =>
        (e = .indexError ∧ EmptyAxis stop data.dims position extent scs) ∨
        (e = .outOfBounds ∧ (EmptyAxis stop data.dims position extent scs ∨
          BeyondAxis stop data.dims data.shape position extent scs))) := by
  have h0 : ¬ nfeats = 0 := by omega
  refine ⟨?_, ?_, ?_, ?_⟩
  · intro rows rest dims hlt
    have hw : WindowsIn (((idx : Int), (idx : Int) + 1) ::
        rest.map fun (n : Nat) => (((0 : Int), (n : Int)) : Win)) (rows :: rest) :=
      ⟨⟨by simp, by simp, by simp; omega⟩, full_windowsIn rest⟩
    have hsl : (some ((idx : Int), (idx : Int) + 1) :: fullWindows rest) =
        ((((idx : Int), (idx : Int) + 1) : Win) ::
          rest.map fun (n : Nat) => (((0 : Int), (n : Int)) : Win)).map some := by
      simp [fullWindows]
    have hin : slicesInData (rows :: rest) (some ((idx : Int), (idx : Int) + 1) :: fullWindows rest) = .ok true := by
      rw [hsl]
      simp only [slicesInData, allSome_map_some]
      rw [npAllLe_eq _ _ (by simp)]
      rw [windowsIn_stopsIn _ _ hw]
    have : ¬ idx > rows := by omega
    simp only [MultiTag.featureData, h0, if_false, gen_indexedRowBeyond, decide_eq_true_eq, this, viewIfInData, hin]
    rw [hsl, mkView_ok _ _ hw]
  · intro rows rest dims hle
    by_cases hgt : idx > rows
    · simp [MultiTag.featureData, h0, gen_indexedRowBeyond, hgt]
    · have heq : idx = rows := by omega
      subst heq
      have hsl : (some ((idx : Int), (idx : Int) + 1) :: fullWindows rest) =
          ((((idx : Int), (idx : Int) + 1) : Win) ::
            rest.map fun (n : Nat) => (((0 : Int), (n : Int)) : Win)).map some := by
        simp [fullWindows]
      have hin : slicesInData (idx :: rest) (some ((idx : Int), (idx : Int) + 1) :: fullWindows rest) = .ok false := by
        rw [hsl]
        simp only [slicesInData, allSome_map_some]
        rw [npAllLe_eq _ _ (by simp)]
        simp [stopsIn]
      simp only [MultiTag.featureData, h0, if_false, gen_indexedRowBeyond, decide_eq_true_eq, hgt, viewIfInData, hin]
  · intro data
    simp only [MultiTag.featureData, h0, if_false, full_view]
  · intro data position extent scs hrow hrank hok
    have hcore := region_core stop data position extent (unitsOpt t.units) scs hrank hok
    have hsel := (C08_row_selection t data idx stop).2.2.1 position extent hrow
    unfold MultiTag.featureData
    simp only [h0, if_false, hsel]
    cases hc : calcSlices stop data.dims data.shape position extent (unitsOpt t.units) with
    | error e => rw [hc] at hcore; exact Or.inl hcore
    | ok sl =>
      rw [hc] at hcore
      simp only []
      cases hcore with
      | empty h1 h2 h3 h4 => simp only [viewIfInData, h3]; exact Or.inr ⟨trivial, Or.inl h2⟩
      | exact ws h1 h3 h4 h5 h6 => simp only [viewIfInData, h3, h4]; exact ⟨trivial, trivial, h5, h6⟩
      | beyond ws h1 h2 h3 h4 => simp only [viewIfInData, h3]; exact Or.inr ⟨trivial, Or.inr h2⟩

/-! ## the statement without `Separated` is false (C07's tolerance band, by design) -/

/-- the one-axis statement without the tolerance hypotheses -/
def C08_axis_full : Prop :=
  ∀ (stop : SliceMode) (dim : DimDesc) (p : Rat) (e? : Option Rat) (unit : Option Str) (sc : Rat),
    DimOK dim → UnitRel unit dim sc →
    match axisSlice stop dim p e? unit with
    | .ok w => AxisSpec dim (regionOf stop p e? sc) w
    | .error err => err = .indexError ∧ ∀ i, InDom (dimDom dim) i → ¬ InRegion dim (regionOf stop p e? sc) i

/-- interval 1, offset 0, position 3 + 2⁻³⁰, no extent: the code selects sample 3 (inside the `np.isclose`
band), whose coordinate 3 is not the position — inherited from C07 (open finding C07-tolerance-band) -/
theorem C08_axis_full_counterexample : ¬ C08_axis_full := by
  intro h
  have h1 := h .exclusive (.sampled 0 1 none) (3 + 1 / 2 ^ 30) none none 1
    (by show (0 : Rat) < 1; norm_num) (UnitRel.noTagUnit _)
  have hv : axisSlice .exclusive (.sampled 0 1 none) (3 + 1 / 2 ^ 30) none none = .ok (some (3, 4)) := by
    decide +kernel
  rw [hv] at h1
  obtain ⟨ka, kb, ha, hb, hle, hdom, hall⟩ := h1
  have hka : ka = 3 := by omega
  have hkb : kb = 3 := by omega
  subst hka hkb
  have := (hall 3 (by intro m hm; cases hm)).mpr ⟨le_refl _, le_refl _⟩
  simp only [InRegion, regionOf, stopOf, InInterval, dimCoord, sampledCoord, sampledPositionAt] at this
  norm_num at this

/-! ## non-vacuity: the hypotheses are met by concrete, non-trivial inputs -/

/-- a 6 × 3 array: ticks 1, 2, 4, 7, 8, 10 (seconds) × three labels -/
def exArr : Arr := ⟨[6, 3], [.range [1, 2, 4, 7, 8, 10] (some "s".toList), .set 3]⟩
/-- position (2000 ms, 1), extent (5000 ms, 1) -/
def exTag : TagDesc := ⟨[2000, 1], [5000, 1], ["ms".toList, "none".toList]⟩

example : Tag.taggedData exTag 1 0 exArr .exclusive = .ok ⟨[6, 3], true, [(1, 3), (1, 2)]⟩ := by decide +kernel
example : Tag.taggedData exTag 1 0 exArr .inclusive = .ok ⟨[6, 3], true, [(1, 4), (1, 3)]⟩ := by decide +kernel
example : UnitRel (some "ms".toList) (.range [1, 2, 4, 7, 8, 10] (some "s".toList)) (1 / 1000) := by
  have h := UnitRel.scaled (.range [1, 2, 4, 7, 8, 10] (some "s".toList)) "m".toList [] "s".toList []
    (by decide) (by decide) (by decide) (by decide) (by intro n h; cases h) rfl
  have e : tenPow (expOf "m".toList - expOf []) ^ powVal [] = (1 / 1000 : Rat) := by decide +kernel
  rw [e] at h
  exact h
example : DimOK (.range [1, 2, 4, 7, 8, 10] (some "s".toList)) := by
  show AscendingList _
  unfold AscendingList
  decide +kernel
/-- a position index beyond the positions, an extent array of another shape -/
example : MultiTag.taggedData ⟨.oneD [1, 2], none, []⟩ 1 2 0 ⟨[5], [.set 5]⟩ .exclusive = .error .outOfBounds := by
  decide +kernel
example : MultiTag.taggedData ⟨.oneD [1, 2], some (.oneD [1, 2, 3]), []⟩ 1 1 0 ⟨[5], [.set 5]⟩ .exclusive =
    .error .incompatibleDimensions := by decide +kernel
/-- 1-D positions on a 1-D array: entry 1 is the vector `[2]`; extent 2, exclusive ⇒ samples 2, 3 -/
example : MultiTag.taggedData ⟨.oneD [1, 2], some (.oneD [0, 2]), []⟩ 1 1 0 ⟨[5], [.set 5]⟩ .exclusive =
    .ok ⟨[5], true, [(2, 4)]⟩ := by decide +kernel
/-- the region runs past the stored data: OutOfBounds from a tag, an invalid view from a multi-tag -/
example : Tag.taggedData ⟨[3], [4], []⟩ 1 0 ⟨[5], [.sampled 0 1 none]⟩ .exclusive = .error .outOfBounds := by
  decide +kernel
example : (MultiTag.taggedData ⟨.oneD [3], some (.oneD [4]), []⟩ 1 0 0 ⟨[5], [.sampled 0 1 none]⟩ .exclusive).toOption.map
    (·.valid) = some false := by decide +kernel

end Nix.C08
